"""Implementation side of C08: Processor.has/get/set (and apply_overrides), eval_entry, Observation.validate_steps.

Returns canonical JSON: a *settings tree* obtained by introspection of the real objects (declared properties
with/without setter, instance __dict__ entries, class attributes named by the key, dict items, model arguments,
models of a group), before and after the call.
"""
from __future__ import annotations

import inspect
import math
from decimal import Decimal
from fractions import Fraction

import numpy as np

EXN = ["KeyError", "AttributeError", "ValueError", "TypeError", "AssertionError", "IndexError", "SyntaxError"]


def exn_name(ex: BaseException) -> str:
    names = [k.__name__ for k in type(ex).__mro__]
    for n in EXN:
        if n in names:
            return n
    return "OtherError"


# ------------------------------------------------------------------------------------------ values


def canon(v, depth=0):
    if v is None:
        return {"t": "none"}
    if isinstance(v, (bool, np.bool_)):
        return {"t": "bool", "v": bool(v)}
    if isinstance(v, (int, np.integer)):
        return {"t": "int", "v": str(int(v))}
    if isinstance(v, (float, np.floating)):
        v = float(v)
        if not math.isfinite(v):
            return {"t": "opaque", "v": "nonfinite"}
        sign, digits, exp = Decimal(v).as_tuple()
        m = int("".join(map(str, digits)))
        while m and m % 10 == 0:
            m //= 10
            exp += 1
        return {"t": "dec", "m": str(-m if sign else m), "e": int(exp)}
    if isinstance(v, str):
        if all(32 <= ord(c) < 127 for c in v) and len(v) < 200:
            return {"t": "str", "v": v}
        return {"t": "opaque", "v": "str-nonascii"}
    if depth > 6:
        return {"t": "opaque", "v": "deep"}
    if isinstance(v, list):
        return {"t": "list", "v": [canon(x, depth + 1) for x in v]}
    if isinstance(v, tuple):
        return {"t": "tuple", "v": [canon(x, depth + 1) for x in v]}
    if isinstance(v, np.ndarray):
        return {"t": "arr", "v": [canon(x, depth + 1) for x in v.reshape(-1).tolist()]}
    if callable(v):
        return {"t": "opaque", "v": "method"}
    return {"t": "opaque", "v": type(v).__name__}


def decode(j):
    t = j["t"]
    if t == "none":
        return None
    if t == "bool":
        return bool(j["v"])
    if t == "int":
        return int(j["v"])
    if t == "dec":
        return float(Fraction(int(j["m"])) * Fraction(10) ** int(j["e"]))
    if t == "str":
        return j["v"]
    if t == "list":
        return [decode(x) for x in j["v"]]
    if t == "tuple":
        return tuple(decode(x) for x in j["v"])
    if t == "arr":
        return np.array([decode(x) for x in j["v"]])
    if t == "dictv":
        return {k: decode(x) for k, x in j["v"].items()}
    if t == "npbool":
        return np.bool_(j["v"])
    raise ValueError(t)


def decode_flag(e):
    """the `enabled` flag of a model as the configuration / the constructor hands it over: a bool, or any other value"""
    return decode(e) if isinstance(e, dict) else e


# ------------------------------------------------------------------------------------------ guards
# The range guard of a property setter is NOT stated here: the driver only names the class that defines the setter and
# the property; the case files look the guard up in Gen_C08.src_setter_guards (regenerated from the source).
GUARD_OWNER = {"Environment": "Environment", "Characteristics": "Characteristics", "APDCharacteristics": "APDCharacteristics",
               "Geometry": "Geometry", "CCDGeometry": "Geometry", "CMOSGeometry": "Geometry", "MKIDGeometry": "Geometry",
               "APDGeometry": "Geometry"}

# classes whose property values are read for the snapshot (all their properties but these)
READ_ALL = {"Geometry", "CCDGeometry", "CMOSGeometry", "MKIDGeometry", "APDGeometry", "Environment",
            "Characteristics", "APDCharacteristics"}
NO_READ = {"numbytes"}
STORED_RO = {"roic_gain"}   # stored (not derived) fields without setter
READ_SOME = {"ModelFunction": {"name", "arguments"}, "DetectionPipeline": None,  # None = the group names
             "CCD": {"geometry", "environment", "characteristics"}, "CMOS": {"geometry", "environment", "characteristics"},
             "MKID": {"geometry", "environment", "characteristics"}, "APD": {"geometry", "environment", "characteristics"}}
DESCEND = {"Processor", "CCD", "CMOS", "MKID", "APD", "DetectionPipeline", "ModelGroup", "ModelFunction", "Arguments"} | READ_ALL


def is_plain(v) -> bool:
    """a value (what a setting holds), as opposed to an object that holds settings — stated independently of the code"""
    if isinstance(v, (list, tuple)):
        return all(is_plain(x) for x in v)
    return v is None or isinstance(v, (bool, int, float, complex, str, np.ndarray, np.generic))


def public(n: str) -> bool:
    return not n.startswith("_")


def class_leaf(o, n):
    """what reading a class-level name on the object gives, as Processor.get would show it"""
    try:
        v = getattr(o, n)
    except Exception:  # noqa: BLE001 - a getter that refuses to answer
        return {"leaf": {"t": "opaque", "v": "raises"}}
    return {"leaf": canon_get(n, v)}


def tree_of(o, keep: set, depth=0):
    """keep = the components of the key under test: class-level names other than readable settings are listed
    only when the key mentions them (nothing else can influence has/get/set on this key; they cannot change)."""
    cls = type(o).__name__
    if isinstance(o, dict) and type(o) is dict:
        ms = [[n, "class", None, class_leaf(o, n)] for n in sorted(dir(dict)) if n in keep]
        for k, v in o.items():
            if isinstance(k, str):
                ms.append([k, "item", None, tree_of(v, keep, depth + 1)])
        return {"node": "dict", "members": ms}
    if cls not in DESCEND or depth > 8:
        return {"leaf": canon(o)}
    ms = []
    groups = None
    if cls == "DetectionPipeline":
        groups = set(o.MODEL_GROUPS)
    for n in sorted(set(dir(type(o)))):
        if not public(n) and n not in keep:
            continue
        attr = inspect.getattr_static(type(o), n)
        if isinstance(attr, property):
            settable = attr.fset is not None
            guard = ["ref", GUARD_OWNER[cls], n] if settable and cls in GUARD_OWNER else None
            read = (cls in READ_ALL and n not in NO_READ and (settable or n in STORED_RO)) or \
                   (cls in READ_SOME and (n in groups if READ_SOME[cls] is None else n in READ_SOME[cls]))
            if read:
                try:
                    sub = tree_of(getattr(o, n), keep, depth + 1)
                except ValueError:
                    sub = {"leaf": {"t": "none"}}
                ms.append([n, "prop1" if settable else "prop0", guard, sub])
            elif n in keep:
                ms.append([n, "prop1" if settable else "prop0", guard, class_leaf(o, n)])
        elif n in keep:
            # a method / class constant / slot the key names: what reading it gives (a method, a constant value)
            ms.append([n, "class", None, class_leaf(o, n)])
    for n, v in vars(o).items():
        if public(n):
            sub = tree_of(v, keep, depth + 1)
            if "leaf" in sub and not is_plain(v):
                # an instance attribute that holds an object (a list of models, an Observation, ...), not a value:
                # an opaque object without settings of its own
                sub = {"node": "obj", "open": False, "members": []}
            ms.append([n, "inst", None, sub])
        elif n in keep:
            # a private attribute the key names: its value if it holds one, an opaque object otherwise (never descended
            # into: a private field that holds a configuration object is a second path to settings already listed)
            ms.append([n, "inst", None, {"leaf": canon(v)} if is_plain(v) else {"node": "obj", "open": False, "members": []}])
        else:
            ms.append([n, "inst", None, {"leaf": {"t": "opaque", "v": "hidden"}}])
    if cls == "Arguments":
        for k, v in o._arguments.items():
            ms.append([k, "item", None, tree_of(v, keep, depth + 1)])
        return {"node": "args", "members": ms}
    if cls == "ModelGroup":
        for m in o.models:
            ms.append([m.name, "item", None, tree_of(m, keep, depth + 1)])
        return {"node": "group", "members": ms}
    return {"node": "obj", "open": hasattr(o, "__dict__"), "members": ms}


# ------------------------------------------------------------------------------------------ builders


def make_detector(kind):
    from pyxel import detectors as d

    geo_kw = dict(row=3, col=4, total_thickness=40.0, pixel_vert_size=10.0, pixel_horz_size=10.0, pixel_scale=1.5)
    env = d.Environment(temperature=200.0, wavelength=600.0)
    ch_kw = dict(quantum_efficiency=0.5, charge_to_volt_conversion=1.0e-6, pre_amplification=2.0,
                 full_well_capacity=100000, adc_bit_resolution=16, adc_voltage_range=(0.0, 10.0))
    if kind == "ccd":
        return d.CCD(geometry=d.CCDGeometry(**geo_kw), environment=env, characteristics=d.Characteristics(**ch_kw))
    if kind == "cmos":
        return d.CMOS(geometry=d.CMOSGeometry(**geo_kw), environment=env, characteristics=d.Characteristics(**ch_kw))
    if kind == "mkid":
        return d.MKID(geometry=d.MKIDGeometry(**geo_kw), environment=env, characteristics=d.Characteristics(**ch_kw))
    ch = d.APDCharacteristics(roic_gain=0.75, quantum_efficiency=0.5, full_well_capacity=100000,
                              adc_bit_resolution=16, adc_voltage_range=(0.0, 10.0),
                              avalanche_gain=2.0, pixel_reset_voltage=5.0)
    return d.APD(geometry=d.APDGeometry(**geo_kw), environment=env, characteristics=ch)


def make_processor(p):
    from pyxel.pipelines import DetectionPipeline, ModelFunction, Processor

    kw = {}
    for g, models in p["pipe"].items():
        kw[g] = [ModelFunction(func=m["func"], name=m["name"],
                               arguments={k: decode(v) for k, v in m.get("arguments", {}).items()},
                               enabled=decode_flag(m.get("enabled", True))) for m in models]
    return Processor(detector=make_detector(p["det"]), pipeline=DetectionPipeline(**kw))


def do_set(p):
    proc = make_processor(p)
    key = p["key"]
    keep = set(key.split("."))
    before = tree_of(proc, keep)
    try:
        has = {"ok": bool(proc.has(key))}
    except Exception as ex:  # noqa: BLE001
        has = {"raise": exn_name(ex)}
    value = decode(p["value"])
    set_r = None
    try:
        if p.get("path") == "override":
            from pyxel.run import apply_overrides
            apply_overrides(overrides={key: value}, processor=proc, mode=None)
        else:
            proc.set(key, value)
    except Exception as ex:  # noqa: BLE001
        set_r = exn_name(ex)
    try:
        after = tree_of(proc, keep)
    except Exception as ex:  # noqa: BLE001 - the processor is no longer inspectable (e.g. detector replaced)
        after = {"leaf": {"t": "opaque", "v": "uninspectable:" + exn_name(ex)}}
    try:
        got = proc.get(key)
        get = {"ok": canon_get(key, got)}
    except Exception as ex:  # noqa: BLE001
        get = {"raise": exn_name(ex)}
    return {"before": before, "has": has, "set": set_r, "after": after, "get": get}


def _is_node(o):
    return (isinstance(o, dict) and type(o) is dict) or type(o).__name__ in DESCEND


def canon_get(key, got):
    """what Processor.get returned, as the snapshot shows the same thing"""
    private = key.split(".")[-1].startswith("_")
    if not is_plain(got) and (private or not _is_node(got)) and not callable(got):
        return {"t": "opaque", "v": "obj-closed"}       # an object held by an attribute, listed as an opaque object
    return canon(got) if not _is_node(got) else {"t": "opaque", "v": _node_tag(got)}


def _node_tag(o):
    if isinstance(o, dict):
        return "dict"
    n = type(o).__name__
    return {"Arguments": "args", "ModelGroup": "group"}.get(n, "obj")


def do_eval(p):
    from pyxel.evaluator import eval_entry

    out = []
    for s in p["texts"]:
        try:
            out.append({"ok": canon(eval_entry(s))})
        except Exception as ex:  # noqa: BLE001
            out.append({"raise": exn_name(ex)})
    return {"results": out}


def do_validate(p):
    from pyxel.exposure import Readout
    from pyxel.observation import Observation, ParameterValues

    proc = make_processor(p)
    # the flag (or anything else) may have arrived by an assignment through a key before the sweep is set up
    pre_refused = 0
    for key, value, path in p.get("pre", []):
        try:
            if path == "override":
                from pyxel.run import apply_overrides
                apply_overrides(overrides={key: decode(value)}, processor=proc, mode=None)
            else:
                proc.set(key, decode(value))
        except Exception:  # noqa: BLE001 - a refused assignment is simply not part of the history (the key may be misspelt)
            pre_refused += 1
    keep = set()
    for k in p["keys"]:
        keep |= set(k.split("."))
        keep.add("enabled")
    before = tree_of(proc, keep)
    values = p.get("values") or [[{"t": "int", "v": "1"}, {"t": "int", "v": "2"}] for _ in p["keys"]]
    if p.get("mode") == "custom":
        # the values of every enabled step come from the columns of a table file, one run per row
        cols = [[decode(x) for x in vs] for vs, en in zip(values, p["step_enabled"]) if en]
        with open("custom_c08.txt", "w") as f:
            for row in zip(*cols):
                f.write("\t".join(repr(float(x)) for x in row) + "\n")
        steps = [ParameterValues(key=k, values="_", enabled=en) for k, en in zip(p["keys"], p["step_enabled"])]
        obs = Observation(parameters=steps, readout=Readout(times=[1.0]), mode="custom", from_file="custom_c08.txt")
    else:
        steps = [ParameterValues(key=k, values=[decode(x) for x in vs], enabled=en)
                 for k, vs, en in zip(p["keys"], values, p["step_enabled"])]
        obs = Observation(parameters=steps, readout=Readout(times=[1.0]), mode=p.get("mode", "product"))
    res = None
    try:
        obs.validate_steps(proc)
    except Exception as ex:  # noqa: BLE001
        res = exn_name(ex)
    ran = None
    if p.get("run"):
        # "before any run": the sweep entry point itself must refuse, and no model may have executed
        import verif_probes_c08 as vp
        vp.CALLS.clear()
        try:
            obs.run_pipelines(proc, with_inherited_coords=True)
            ran = {"ok": len(vp.CALLS)}
        except Exception as ex:  # noqa: BLE001
            ran = {"raise": exn_name(ex), "calls": len(vp.CALLS)}
    seen = None
    if p.get("run"):
        seen = [sweep_effect(vp.CALLS, k) for k in p["keys"]]
    return {"before": before, "validate": res, "ran": ran, "seen": seen, "pre_refused": pre_refused}


def sweep_effect(calls, key: str):
    """[how often the model addressed by `pipeline.<group>.<model>...` was executed, the values that arrived in the
    argument addressed by `...arguments.<a>[.<item>...]`] — from the log of the tagged probe models"""
    parts = key.split(".")
    if len(parts) < 3 or parts[0] != "pipeline":
        return [0, []]
    tag = parts[1] + "__" + parts[2]
    mine = [c[1] for c in calls if isinstance(c, list) and len(c) == 2 and c[0] == tag and isinstance(c[1], dict)]
    vals = []
    if len(parts) >= 5 and parts[3] == "arguments":
        for kw in mine:
            v = kw
            for q in parts[4:]:
                if isinstance(v, dict) and q in v:
                    v = v[q]
                else:
                    v = None
                    break
            else:
                vals.append(canon(v) if not isinstance(v, dict) else {"t": "opaque", "v": "dict"})
    return [len(mine), vals]


# ------------------------------------------------------------------------------------------ derived processors


def _nodes_by_path(o, pre=(), depth=0, out=None):
    """path -> id() of every object a key can walk through (configuration objects, dicts, Arguments, groups, models)."""
    if out is None:
        out = {}
    cls = type(o).__name__
    if isinstance(o, dict) and type(o) is dict:
        out[pre] = id(o)
        for k, v in o.items():
            if isinstance(k, str):
                _nodes_by_path(v, pre + (k,), depth + 1, out)
        return out
    if cls not in DESCEND or depth > 8:
        return out
    out[pre] = id(o)
    for n in sorted(set(dir(type(o)))):
        if not public(n):
            continue
        attr = inspect.getattr_static(type(o), n)
        if isinstance(attr, property):
            read = cls in READ_ALL and n not in NO_READ or \
                   (cls in READ_SOME and (n in o.MODEL_GROUPS if READ_SOME[cls] is None else n in READ_SOME[cls]))
            if read:
                try:
                    _nodes_by_path(getattr(o, n), pre + (n,), depth + 1, out)
                except Exception:  # noqa: BLE001 - a getter that refuses to answer holds no object
                    pass
    for n, v in vars(o).items():
        if public(n):
            _nodes_by_path(v, pre + (n,), depth + 1, out)
    if cls == "Arguments":
        for k, v in o._arguments.items():
            _nodes_by_path(v, pre + (k,), depth + 1, out)
    if cls == "ModelGroup":
        for m in o.models:
            _nodes_by_path(m, pre + (m.name,), depth + 1, out)
    return out


def shared_paths(a, b):
    """top-most paths of `a` whose object is also reachable (through key components) from `b`: the SAME object."""
    na, nb = _nodes_by_path(a), _nodes_by_path(b)
    ids_b = set(nb.values())
    hit = sorted(p for p, i in na.items() if i in ids_b)
    top = [p for p in hit if not any(q != p and p[:len(q)] == q for q in hit)]
    return [list(p) for p in top]


def internal_sharing(a):
    na = _nodes_by_path(a)
    seen, dup = {}, []
    for p, i in sorted(na.items()):
        if i in seen:
            dup.append([list(seen[i]), list(p)])
        else:
            seen[i] = p
    return dup


VIAS = ("deepcopy", "replace", "create_new_processor", "build_processors", "update_processor")


def derive(proc, via, key, value):
    """the real entry points that work on a copy of a processor and assign through keys on that copy"""
    import copy as _copy
    if via == "deepcopy":
        c = _copy.deepcopy(proc)
        return c, (lambda: c.set(key, value))
    if via == "replace":
        return None, (lambda: proc.replace({key: value}))
    if via == "create_new_processor":
        from pyxel.observation import create_new_processor
        return None, (lambda: create_new_processor(proc, parameter_dict={key: value}))
    if via == "build_processors":
        from pyxel.calibration.fitting_datatree import build_processors
        from pyxel.observation import ParameterValues
        return None, (lambda: build_processors(proc, [ParameterValues(key=key, values=[value])])[0])
    if via == "update_processor":
        from types import SimpleNamespace
        from pyxel.calibration.fitting_datatree import ModelFittingDataTree
        from pyxel.observation import ParameterValues
        fake = SimpleNamespace(_variables=[ParameterValues(key=key, values="_")])
        return None, (lambda: ModelFittingDataTree.update_processor(fake, np.array([value], dtype=float), proc))
    raise ValueError(via)


def plain_copy(proc, via):
    """a derived processor with no change (made through the same machinery)"""
    import copy as _copy
    if via == "replace":
        return proc.replace({})
    if via == "create_new_processor":
        from pyxel.observation import create_new_processor
        return create_new_processor(proc, parameter_dict={})
    return _copy.deepcopy(proc)


def do_derive(p):
    """original -> sibling copy (made before) -> copy with `key := value` -> later copy; snapshots of all of them."""
    proc = make_processor(p)
    key, via = p["key"], p["via"]
    keep = set(key.split("."))
    before = tree_of(proc, keep)
    try:
        has = {"ok": bool(proc.has(key))}
    except Exception as ex:  # noqa: BLE001
        has = {"raise": exn_name(ex)}
    value = decode(p["value"])
    sib = plain_copy(proc, via)
    sib_before = tree_of(sib, keep)
    set_r = None
    c, act = derive(proc, via, key, value)
    try:
        r = act()
        if c is None:
            c = r
    except Exception as ex:  # noqa: BLE001
        set_r = exn_name(ex)
    target = c if c is not None else proc
    try:
        copy_after = tree_of(target, keep) if c is not None else before
    except Exception as ex:  # noqa: BLE001
        copy_after = {"leaf": {"t": "opaque", "v": "uninspectable:" + exn_name(ex)}}
    try:
        got = target.get(key)
        get = {"ok": canon_get(key, got)}
    except Exception as ex:  # noqa: BLE001
        get = {"raise": exn_name(ex)}
    orig_after = tree_of(proc, keep)
    sib_after = tree_of(sib, keep)
    later = plain_copy(proc, via)
    later_tree = tree_of(later, keep)
    shared = []
    if c is not None:
        shared = shared_paths(proc, c)
        for x in shared_paths(sib, c) + shared_paths(proc, sib) + shared_paths(proc, later):
            if x not in shared:
                shared.append(x)
    return {"before": before, "has": has, "set": set_r, "after": copy_after, "get": get,
            "orig_after": orig_after, "sib_before": sib_before, "sib_after": sib_after, "later": later_tree,
            "shared": shared, "internal": internal_sharing(proc)[:5]}


def do_names(p):
    """the class-level names (methods, class constants, read-only properties) of every kind of object a key can land on:
    input material for the generator only (keys whose last component is such a name)"""
    proc = make_processor(p)
    g = next(iter(p["pipe"]))
    m = p["pipe"][g][0]
    group = getattr(proc.pipeline, g)
    model = getattr(group, m["name"])
    objs = {"Processor": proc, "Detector": proc.detector, "Geometry": proc.detector.geometry,
            "Environment": proc.detector.environment, "Characteristics": proc.detector.characteristics,
            "DetectionPipeline": proc.pipeline, "ModelGroup": group, "ModelFunction": model,
            "Arguments": model.arguments, "dict": {}}
    out = {}
    for label, o in objs.items():
        rows = []
        for n in sorted(set(dir(type(o)))):
            attr = inspect.getattr_static(type(o), n)
            if isinstance(attr, property):
                if n in NO_READ:
                    kind = "prop_volatile"       # reading it changes private caches of the object
                elif attr.fset is not None:
                    kind = "prop_rw"
                else:
                    try:
                        kind = "prop_ro_plain" if is_plain(getattr(o, n)) else "prop_ro_object"
                    except Exception:  # noqa: BLE001
                        kind = "prop_raises"
            else:
                try:
                    v = getattr(o, n)
                except Exception:  # noqa: BLE001
                    kind = "raises"
                else:
                    kind = "method" if callable(v) else ("constant" if is_plain(v) else "object")
            rows.append([n, kind])
        out[label] = rows
    return {"names": out}


def handle(p):
    op = p["op"]
    if op == "names":
        return do_names(p)
    if op == "set":
        return do_set(p)
    if op == "eval":
        return do_eval(p)
    if op == "validate":
        return do_validate(p)
    if op == "derive":
        return do_derive(p)
    raise ValueError(op)
