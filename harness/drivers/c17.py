"""Implementation side of C17: call the real flux-integrating models / run real exposures.

Payload kinds (all floats travel as float.hex() strings, arrays row-major flattened):
  call      one real model applied once per given time step to a prepared detector
            (emptied, and separately pre-filled with given photon/charge/pixel content)
  exposure  pyxel.run_mode(Exposure) with a pipeline of the listed models; returns the pixel bucket
            after every readout.  Options: the detector type (ccd / cmos / mkid / apd), `dirty` (the detector
            holds data from earlier use), `route` (how the Readout object got its schedule: constructor,
            setters, replace, file, range string)
  life      detector.empty(arg) called on a detector whose photon / charge / pixel buckets hold data; returns
            which of them were emptied
Nothing is compared here; the arrays go back to the harness, which writes them into Coq case files.
"""
from __future__ import annotations

import hashlib
import json
import math

import numpy as np

FUNCS = {
    "illumination": "pyxel.models.photon_collection.illumination",
    "load_image": "pyxel.models.photon_collection.load_image",
    "stripe_pattern": "pyxel.models.photon_collection.stripe_pattern",
    "usaf_illumination": "pyxel.models.photon_collection.usaf_illumination",
    "scene_collection": "pyxel.models.photon_collection.simple_collection",
    "simple_conversion": "pyxel.models.charge_generation.simple_conversion",
    "qe_map": "pyxel.models.charge_generation.conversion_with_qe_map",
    "load_charge": "pyxel.models.charge_generation.load_charge",
    "dark_current": "pyxel.models.charge_generation.dark_current",
    "dark_current_rule07": "pyxel.models.charge_generation.dark_current_rule07",
    "simple_collection": "pyxel.models.charge_collection.simple_collection",
}
GROUP = {
    "illumination": "photon_collection", "load_image": "photon_collection", "stripe_pattern": "photon_collection",
    "usaf_illumination": "photon_collection",
    "simple_conversion": "charge_generation", "qe_map": "charge_generation", "load_charge": "charge_generation",
    "dark_current": "charge_generation", "dark_current_rule07": "charge_generation", "simple_collection": "charge_collection",
}


def fx(h):
    return float.fromhex(h) if isinstance(h, str) else float(h)


def hx(a):
    return [float(v).hex() for v in np.asarray(a, dtype=float).reshape(-1)]


def make_det(d):
    from harness import pyx

    char = dict(quantum_efficiency=fx(d.get("qe", 1.0)))
    # optional read-out chain parameters (they enter load_image's ADU -> photon conversion through system_gain)
    if "adc_bits" in d:
        char["adc_bit_resolution"] = int(d["adc_bits"])
    if "ctv" in d:
        char["charge_to_volt_conversion"] = fx(d["ctv"])
    if "preamp" in d:
        char["pre_amplification"] = fx(d["preamp"])
    if "vrange" in d:
        char["adc_voltage_range"] = (fx(d["vrange"][0]), fx(d["vrange"][1]))
    if d.get("kind") == "apd":
        # the APD has its own characteristics class (no charge_to_volt_conversion / pre_amplification arguments)
        from pyxel import detectors as pd_

        ch = pd_.APDCharacteristics(roic_gain=fx(d.get("roic_gain", 0.5)), quantum_efficiency=char["quantum_efficiency"],
                                    full_well_capacity=100000, adc_bit_resolution=char.get("adc_bit_resolution", 16),
                                    adc_voltage_range=char.get("adc_voltage_range", (0.0, 10.0)),
                                    avalanche_gain=fx(d.get("avalanche_gain", 1.0)), pixel_reset_voltage=5.0)
        geo = pd_.APDGeometry(row=d["rows"], col=d["cols"], total_thickness=40.0, pixel_vert_size=fx(d.get("pv", 10.0)),
                              pixel_horz_size=fx(d.get("ph", 10.0)))
        det = pd_.APD(geometry=geo, environment=pd_.Environment(temperature=200.0), characteristics=ch)
    else:
        det = pyx.make_detector(kind=d.get("kind", "ccd"), rows=d["rows"], cols=d["cols"],
                                pixel_vert_size=fx(d.get("pv", 10.0)), pixel_horz_size=fx(d.get("ph", 10.0)), **char)
    det.environment.temperature = fx(d.get("temperature", 200.0))
    return det


def soil(det, shape, value=5.0):
    """Leave data in every bucket, as an earlier exposure on the same detector object would."""
    det.photon.array = np.full(shape, value * 2.0)
    det.charge.add_charge_array(np.full(shape, value + 2.0))
    det.pixel.array = np.full(shape, value)
    det.signal.array = np.full(shape, value + 1.0)
    if hasattr(det, "phase"):
        try:
            det.phase.array = np.full(shape, value + 3.0)
        except Exception:  # noqa: BLE001
            pass


def build_readout(p):
    """The Readout of the payload, its schedule established by the requested route.  Whatever the route, the
    resulting object must describe (start, times, non_destructive) of the payload."""
    from harness import pyx
    from pyxel.exposure import Readout

    times, start, nd = [fx(t) for t in p["times"]], fx(p["start"]), bool(p["nd"])
    route = p.get("route", "ctor")

    def nz(x):     # a first readout time of exactly 0 is refused by Readout
        return x + 0.5 if x == 0.0 else x
    if route == "ctor":
        return pyx.make_readout(times=times, start_time=start, non_destructive=nd)
    if route == "set_times":          # another schedule first, then the `times` setter
        ro = Readout(times=[nz(times[0] + 1.0), times[0] + 5.0], start_time=start, non_destructive=nd)
        ro.times = list(times)
        return ro
    if route == "set_start":          # another start first, then the `start_time` setter
        ro = Readout(times=list(times), start_time=min(start, times[0]) - 2.5, non_destructive=nd)
        ro.start_time = start
        return ro
    if route == "set_both":
        ro = Readout(times=[nz(times[0] + 3.0)], start_time=min(start, times[0]) - 1.5, non_destructive=nd)
        ro.start_time = start
        ro.times = np.array(times)
        return ro
    if route == "set_nd":             # the other mode first, then the `non_destructive` setter
        ro = Readout(times=list(times), start_time=start, non_destructive=not nd)
        ro.non_destructive = nd
        return ro
    if route == "replace":
        ro = Readout(times=[nz(times[-1] + 1.0), times[-1] + 2.0], start_time=min(start, times[0]) - 1.0, non_destructive=not nd)
        return ro.replace(times=list(times), start_time=start, non_destructive=nd)
    if route == "replace_times":      # replace() changes the times only: start and mode are carried over
        ro = Readout(times=[nz(times[0] + 1.0), times[0] + 2.0], start_time=start, non_destructive=nd)
        return ro.replace(times=np.array(times))
    if route == "file":
        name = "c17_times_" + hashlib.sha1(json.dumps(p["times"]).encode()).hexdigest()[:16] + ".npy"
        np.save(name, np.array(times, dtype=float))
        return Readout(times_from_file=name, start_time=start, non_destructive=nd)
    if route == "string":             # the textual range form of the YAML files; only used for arithmetic schedules
        t0, t1, n = times[0], times[-1], len(times)
        return Readout(times=f"numpy.linspace({t0!r}, {t1!r}, {n})", start_time=start, non_destructive=nd)
    raise ValueError(route)


def data_file(m, shape, tag):
    """Write the model's input array to a uniquely named file in the cwd (lru_cache keys on the name)."""
    shape = tuple(m["data_shape"]) if m.get("data_shape") else shape   # the file may be smaller/larger than the detector
    arr = np.array([fx(v) for v in m["data"]], dtype=float).reshape(shape)
    h = hashlib.sha1(arr.tobytes() + str(shape).encode()).hexdigest()[:16]
    fmt = m.get("fmt", "npy")
    name = f"c17_{tag}_{h}.{fmt}"
    if fmt == "npy":
        np.save(name, arr)
    else:
        from astropy.io import fits
        fits.writeto(name, arr, overwrite=True)
    return name


def png_file(m, tag):
    """The image usaf_illumination would download, as a local 8-bit PNG; pooch.retrieve is pointed at it."""
    from PIL import Image

    shape = tuple(m["data_shape"])
    arr = np.array([int(fx(v)) for v in m["data"]], dtype=np.uint8).reshape(shape)
    name = f"c17_{tag}_{hashlib.sha1(arr.tobytes() + str(shape).encode()).hexdigest()[:16]}.png"
    Image.fromarray(arr, mode="L").save(name)
    import pooch

    pooch.retrieve = lambda *a, _name=name, **k: _name     # no network in the sandbox; the model code is unchanged
    return name


SCENE = {
    "coords": {"ref": {"dims": ("ref",), "attrs": {}, "data": [0, 1, 2]},
               "wavelength": {"dims": ("wavelength",), "attrs": {"units": "nm"}, "data": [336.0, 338.0, 340.0, 342.0]}},
    "attrs": {"right_ascension": "57.1829668 deg", "declination": "23.84371349 deg", "fov_radius": "0.5 deg"},
    "dims": {"ref": 3, "wavelength": 4},
    "data_vars": {
        "x": {"dims": ("ref",), "attrs": {"units": "arcsec"},
              "data": [205732.81147230256, 205832.50867371075, 206010.7213446728]},
        "y": {"dims": ("ref",), "attrs": {"units": "arcsec"},
              "data": [85748.89015925185, 85802.09354969644, 85961.12201291585]},
        "weight": {"dims": ("ref",), "attrs": {"units": "mag"}, "data": [11.5, 14.0, 15.25]},
        "flux": {"dims": ("ref", "wavelength"), "attrs": {"units": "ph / (cm2 nm s)"},
                 "data": [[0.0375, 0.04125, 0.04, 0.03625], [0.0115, 0.01025, 0.00975, 0.00985],
                          [0.00192, 0.00179, 0.00167, 0.0015]]},
    },
}


def add_scene(det, m):
    import xarray as xr

    d = json.loads(json.dumps(SCENE))
    scale = fx(m.get("flux_scale", 1.0))
    d["data_vars"]["flux"]["data"] = [[v * scale for v in row] for row in d["data_vars"]["flux"]["data"]]
    det.scene.add_source(xr.Dataset.from_dict(d))


def _unit_rate(det, name, kw):
    """The real model's increment for a unit time step (clock time deliberately != 1)."""
    det.empty()
    det.set_readout(times=[1.0], start_time=0.0)
    det.readout_properties.time = 7.0
    det.readout_properties.time_step = 1.0
    _func(name)(det, **kw)
    return np.array(det.charge.array, dtype=float)


def dc_kwargs(m, fom):
    kw = dict(figure_of_merit=fom, temporal_noise=False)
    if m.get("band_gap") is not None:
        kw["band_gap"] = fx(m["band_gap"])
        kw["band_gap_room_temperature"] = fx(m["band_gap_rt"])
    return kw


def calibrate_dc(det_spec, m):
    """Choose figure_of_merit so that the model's rate is (if possible) an exact small dyadic number.

    The rate itself is *measured* on the implementation at unit step; the search only makes float
    arithmetic exact downstream.  Returns (figure_of_merit, rate array)."""
    det = make_det(det_spec)
    if "fom" in m:
        fom = fx(m["fom"])
        return fom, _unit_rate(det, "dark_current", dc_kwargs(m, fom))
    base = float(_unit_rate(det, "dark_current", dc_kwargs(m, 1.0)).reshape(-1)[0])
    if not (base > 0 and math.isfinite(base)):
        return 1.0, _unit_rate(det, "dark_current", dc_kwargs(m, 1.0))
    for target in [fx(t) for t in m["targets"]]:
        f0 = target / base
        cands, up, dn = [f0], f0, f0
        for _ in range(24):
            up, dn = math.nextafter(up, math.inf), math.nextafter(dn, -math.inf)
            cands += [up, dn]
        for f in cands:
            a = _unit_rate(det, "dark_current", dc_kwargs(m, f))
            if (a == target).all():
                return f, a
    return 1.0, _unit_rate(det, "dark_current", dc_kwargs(m, 1.0))


def placed(m, shape, tag, fname):
    """kwargs position/align of a file-loading model + what the implementation's own placement helper
    returns for them (the property is about time, not about cropping)."""
    kw, aux = {}, {}
    if m.get("position") is not None:
        kw["position"] = (int(m["position"][0]), int(m["position"][1]))
    if m.get("align") is not None:
        kw["align"] = m["align"]
    if kw or m.get("data_shape"):
        from pyxel.util import load_cropped_and_aligned_image

        py, px = kw.get("position", (0, 0))
        aux["image"] = hx(load_cropped_and_aligned_image(shape=shape, filename=fname, position_x=px, position_y=py,
                                                         align=kw.get("align")))
    return kw, aux


def build_args(det_spec, m, tag):
    """(kwargs for the real model, aux info for the harness)."""
    shape = (det_spec["rows"], det_spec["cols"])
    k = m["m"]
    aux = {}
    if k == "illumination":
        kw = dict(level=fx(m["level"]), option=m.get("option", "uniform"))
        if kw["option"] != "uniform":
            kw["object_size"] = list(m["object_size"])
            if m.get("object_center") is not None:
                kw["object_center"] = list(m["object_center"])
            from pyxel.models.photon_collection.illumination import calculate_illumination
            aux["pattern"] = hx(calculate_illumination(shape=shape, level=1.0, option=kw["option"],
                                                       object_size=kw["object_size"],
                                                       object_center=kw.get("object_center")))
        if "time_scale" in m:
            kw["time_scale"] = fx(m["time_scale"])
    elif k == "load_image":
        kw = dict(image_file=data_file(m, shape, tag))
        pkw, paux = placed(m, shape, tag, kw["image_file"])
        kw.update(pkw)
        aux.update(paux)
        if "multiplier" in m:
            kw["multiplier"] = fx(m["multiplier"])
        if "time_scale" in m:
            kw["time_scale"] = fx(m["time_scale"])
        if m.get("convert"):
            kw["convert_to_photons"] = True
            kw["bit_resolution"] = int(m["bit_resolution"])
            cht = make_det(det_spec).characteristics
            aux["system_gain"] = float(cht.system_gain).hex()
            aux["adc_bits"] = int(cht.adc_bit_resolution)
    elif k == "usaf_illumination":
        fname = png_file(m, tag)
        kw = {}
        pkw, paux = placed(dict(m, data_shape=m["data_shape"]), shape, tag, fname)
        kw.update(pkw)
        aux.update(paux)
        if "multiplier" in m:
            kw["multiplier"] = fx(m["multiplier"])
        if "time_scale" in m:
            kw["time_scale"] = fx(m["time_scale"])
        if m.get("convert"):
            kw["convert_to_photons"] = True
            kw["bit_resolution"] = int(m["bit_resolution"])
            cht = make_det(det_spec).characteristics
            aux["system_gain"] = float(cht.system_gain).hex()
            aux["adc_bits"] = int(cht.adc_bit_resolution)
    elif k == "scene_collection":
        kw = dict(aperture=fx(m["aperture"]), filter_band=(336, 342), resolution=2, pixel_scale=fx(m["pixel_scale"]),
                  integrate_wavelength=bool(m.get("integrate", True)))
    elif k == "stripe_pattern":
        kw = dict(level=fx(m["level"]), period=int(m["period"]), startwith=int(m.get("startwith", 0)),
                  angle=int(m.get("angle", 0)))
        if "time_scale" in m:
            kw["time_scale"] = fx(m["time_scale"])
        from pyxel.models.photon_collection.stripe_pattern import compute_pattern
        if kw["angle"] == 0:
            aux["pattern"] = hx(compute_pattern(detector_shape=shape, period=kw["period"], level=1.0, angle=0,
                                                start_with=kw["startwith"]))
        else:   # a rotated pattern is interpolated: take the implementation's own pattern at the actual level
            aux["pattern_level"] = hx(compute_pattern(detector_shape=shape, period=kw["period"], level=kw["level"],
                                                      angle=kw["angle"], start_with=kw["startwith"]))
    elif k == "simple_conversion":
        kw = dict(binomial_sampling=False)
        if m.get("qe") is not None:
            kw["quantum_efficiency"] = fx(m["qe"])
    elif k == "qe_map":
        kw = dict(filename=data_file(m, shape, tag), binomial_sampling=False)
    elif k == "load_charge":
        kw = dict(filename=data_file(m, shape, tag))
        pkw, paux = placed(m, shape, tag, kw["filename"])
        kw.update(pkw)
        aux.update(paux)
        if "time_scale" in m:
            kw["time_scale"] = fx(m["time_scale"])
    elif k == "dark_current":
        fom, rate = calibrate_dc(det_spec, m)
        kw = dc_kwargs(m, fom)
        aux["fom"] = float(fom).hex()
        aux["rate"] = hx(rate)
    elif k == "dark_current_rule07":
        kw = dict(temporal_noise=False)
        if m.get("cutoff") is not None:
            kw["cutoff_wavelength"] = fx(m["cutoff"])
        aux["rate"] = hx(_unit_rate(make_det(det_spec), k, kw))
    elif k == "simple_collection":
        kw = {}
    else:
        raise ValueError(k)
    return kw, aux


def _func(name):
    import importlib

    mod, fn = FUNCS[name].rsplit(".", 1)
    return getattr(importlib.import_module(mod), fn)


def _state(det):
    ph = det.photon._array
    return dict(photon=None if ph is None else hx(ph), charge=hx(det.charge.array), pixel=hx(det.pixel.array))


def _nonzero_only(states, bucket):
    """Keep only the elements of `bucket` that are non-zero for at least one step (large sparse arrays)."""
    arrs = [np.array([fx(v) for v in st[bucket]]) for st in states if st.get(bucket) is not None]
    if len(arrs) != len(states) or len({a.size for a in arrs}) != 1:
        return
    keep = np.flatnonzero(np.any(np.stack(arrs) != 0.0, axis=0))
    for st in states:
        st[bucket] = [st[bucket][i] for i in keep]
        st["kept"] = int(keep.size)


def det_vars(det):
    """Numeric attributes of the step-independent parts of the detector (values of the translator's
    `detector.geometry.x` / `detector.characteristics.x` / `detector.environment.x` variables)."""
    out = {}
    for root in ("geometry", "characteristics", "environment"):
        obj = getattr(det, root, None)
        for name in dir(obj):
            if name.startswith("_") or name == "numbytes":
                continue
            try:
                v = getattr(obj, name)
            except Exception:  # noqa: BLE001
                continue
            if isinstance(v, (bool, np.bool_)) or not isinstance(v, (int, float, np.integer, np.floating)):
                continue
            if math.isfinite(float(v)):
                out[f"detector.{root}.{name}"] = float(v).hex()
    return out


def json_kw(kw):
    out = {}
    for k, v in kw.items():
        if isinstance(v, (bool, str, int)) or v is None:
            out[k] = v
        elif isinstance(v, float):
            out[k] = {"hex": v.hex()}
        elif isinstance(v, (list, tuple)):
            out[k] = [int(x) if isinstance(x, (int, np.integer)) else x for x in v]
    return out


def handle_call(p):
    det_spec, m = p["det"], p["model"]
    shape = (det_spec["rows"], det_spec["cols"])
    kw, aux = build_args(det_spec, m, "call")
    aux["kw"] = json_kw(kw)
    aux["detvars"] = det_vars(make_det(det_spec))
    f = _func(m["m"])
    out = dict(aux=aux, steps=[])
    pre = p.get("prefill")
    for sh in p["steps"]:
        step = fx(sh)
        rec = {}
        for mode in (["empty"] if pre is None else ["empty", "prefilled"]):
            if mode == "empty" and p.get("skip_empty"):
                continue
            det = make_det(det_spec)
            det.set_readout(times=[1.0], start_time=0.0)
            det.empty()
            det.readout_properties.time = fx(p.get("time", 7.0))
            det.readout_properties.time_step = step
            det.readout_properties.pipeline_count = 3
            if m["m"] == "scene_collection":
                add_scene(det, m)
            if mode == "prefilled":
                if pre.get("photon") is not None:
                    det.photon.array = np.array([fx(v) for v in pre["photon"]], dtype=float).reshape(shape)
                if pre.get("charge") is not None:
                    det.charge.add_charge_array(np.array([fx(v) for v in pre["charge"]], dtype=float).reshape(shape))
                if pre.get("pixel") is not None:
                    det.pixel.array = np.array([fx(v) for v in pre["pixel"]], dtype=float).reshape(shape)
            try:
                f(det, **kw)
                rec[mode] = _state(det)
            except Exception as ex:  # noqa: BLE001
                rec[mode] = {"raise": type(ex).__name__, "msg": str(ex)[:200]}
        out["steps"].append(rec)
    if m["m"] == "scene_collection" and all("empty" in r and "raise" not in r["empty"] for r in out["steps"]):
        _nonzero_only([r["empty"] for r in out["steps"]], "photon")
    return out


def handle_exposure(p):
    from harness import pyx

    det_spec = p["det"]
    spec = {"photon_collection": [], "charge_generation": [], "charge_collection": []}
    auxs = []
    for i, m in enumerate(p["models"]):
        kw, aux = build_args(det_spec, m, f"m{i}")
        auxs.append(aux)
        spec[GROUP[m["m"]]].append(dict(func=FUNCS[m["m"]], name=f"{m['m']}_{i}", arguments=kw or None))
    spec = {g: (ms or None) for g, ms in spec.items()}
    det = make_det(det_spec)
    try:
        if p.get("dirty"):
            soil(det, (det_spec["rows"], det_spec["cols"]), fx(p["dirty"]))
        ro = build_readout(p)
        if p.get("entry", "run_mode") == "exposure_mode":
            # the deprecated public entry point has its own copy of the readout loop (also used by calibration)
            import warnings

            import pyxel
            from pyxel.exposure import Exposure

            with warnings.catch_warnings():
                warnings.simplefilter("ignore")
                ds = pyxel.exposure_mode(exposure=Exposure(readout=ro), detector=det, pipeline=pyx.make_pipeline(spec))
            px = np.asarray(ds["pixel"].values, dtype=float)
        else:
            res = pyx.run_exposure(det, pyx.make_pipeline(spec), ro)
            px = np.asarray(res["bucket"]["pixel"].values, dtype=float)
        if px.ndim != 3 or px.shape[1:] != (det_spec["rows"], det_spec["cols"]):
            return dict(aux=auxs, **{"raise": f"shape:{px.shape}"})
        # the schedule as the Readout object and the detector's own readout properties carry it after the run
        sched = []
        for obj in (ro, det.readout_properties):
            sched.append(dict(start=float(obj.start_time).hex(), times=hx(obj.times), steps=hx(obj.steps),
                              nd=bool(obj.non_destructive)))
        return dict(aux=auxs, pixel=[hx(px[i]) for i in range(px.shape[0])], sched=sched)
    except Exception as ex:  # noqa: BLE001
        return dict(aux=auxs, **{"raise": type(ex).__name__, "msg": str(ex)[:300]})


def handle_life(p):
    """detector.empty(arg) on a detector of the requested type that holds data in every bucket."""
    det_spec = p["det"]
    shape = (det_spec["rows"], det_spec["cols"])
    det = make_det(det_spec)
    det.set_readout(times=[1.0], start_time=0.0)
    soil(det, shape, 5.0)
    before = dict(photon=np.array(det.photon.array), charge=np.array(det.charge.array), pixel=np.array(det.pixel.array))
    out = dict(cls=type(det).__name__, mro=[c.__name__ for c in type(det).__mro__[:-1]])
    try:
        if p["arg"] == "default":
            det.empty()
        else:
            det.empty(bool(p["arg"]))
    except Exception as ex:  # noqa: BLE001
        out["raise"] = type(ex).__name__
        out["msg"] = str(ex)[:200]
        return out

    def state(name):
        b = getattr(det, name)
        arr = getattr(b, "_array", None)
        if arr is None:
            return "emptied"
        arr = np.asarray(arr, dtype=float)
        if arr.shape == before[name].shape and (arr == 0.0).all():
            return "emptied"
        if arr.shape == before[name].shape and (arr == before[name]).all():
            return "kept"
        return "other"

    out["buckets"] = {k: state(k) for k in ("photon", "charge", "pixel")}
    if out["buckets"]["charge"] == "emptied" and not det.charge.frame_empty():
        out["buckets"]["charge"] = "other"
    return out


def handle(p):
    import logging

    logging.disable(logging.CRITICAL)
    if p["kind"] == "life":
        return handle_life(p)
    if p["kind"] == "call":
        return handle_call(p)
    if p["kind"] == "exposure":
        return handle_exposure(p)
    raise ValueError(p["kind"])
