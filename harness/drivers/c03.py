"""Implementation side of C03: run an exposure of writer probes through pyxel.run_mode and report the
returned DataTree in canonical form, together with what the probes saw in each step."""
import math

import numpy as np

TICK = 8  # time labels are multiples of 1/8 s: float64 start + t is exact
GROUP_ORDER = ["photon_collection", "charge_generation", "charge_collection", "charge_measurement",
               "readout_electronics", "data_processing"]
SENTINEL = -777777


def _ints(values):
    out = []
    for v in np.asarray(values).reshape(-1).tolist():
        if isinstance(v, bool):
            out.append(int(v))
        elif isinstance(v, int):
            out.append(v)
        elif isinstance(v, float) and math.isfinite(v) and v == int(v):
            out.append(int(v))
        else:
            out.append(SENTINEL)
    return out


def _ticks(values):
    out = []
    for v in np.asarray(values, dtype=float).reshape(-1).tolist():
        t = v * TICK
        out.append(int(t) if math.isfinite(t) and t == int(t) else SENTINEL)
    return out


def _var(name, da):
    vals = np.asarray(da.values)
    dims = [str(d) for d in da.dims]
    if dims == ["time"] and vals.dtype.kind == "f" and bool(np.isnan(vals).all()):
        flat = []
    else:
        flat = _ints(vals)
    return dict(name=str(name), dtype=str(vals.dtype), dims=dims, shape=[int(n) for n in vals.shape], vals=flat)


def canon_tree(dt):
    children = [str(c) for c in dt.children]
    if len(dt.dataset.data_vars):
        path, node = "/", dt
    elif "bucket" in dt.children and len(dt["bucket"].dataset.data_vars):
        path, node = "/bucket", dt["bucket"]
    else:
        path, node = "?", dt
    ds = node.dataset
    out = dict(bucket_path=path, children=children,
               time=_ticks(ds["time"].values) if "time" in ds.coords else [],
               y=_ints(ds["y"].values) if "y" in ds.coords else [],
               x=_ints(ds["x"].values) if "x" in ds.coords else [],
               wl=_ints(ds["wavelength"].values) if "wavelength" in ds.coords else [],
               vars=[_var(k, v) for k, v in ds.data_vars.items()],
               inter=None, scene=[], data=[])
    from verif_probes_c03 import tree_payload

    if "scene" in dt.children:
        out["scene"] = [[k, _ints(v)] for k, v in tree_payload(dt["scene"])]
    else:
        out["scene"] = [["<missing>", []]]
    if "data" in dt.children:
        out["data"] = [[k, _ints(v)] for k, v in tree_payload(dt["data"])]
    else:
        out["data"] = [["<missing>", []]]
    if "intermediate" in dt.children:
        nodes = []
        for tname, tnode in dt["intermediate"].children.items():
            try:
                step = int(str(tname).rsplit("_", 1)[1])
            except (IndexError, ValueError):
                step = 999
            for gname, gnode in tnode.children.items():
                for mname, mnode in gnode.children.items():
                    nodes.append(dict(step=step, group=str(gname), name=str(mname),
                                      vars=[_var(k, v) for k, v in mnode.dataset.data_vars.items()]))
        out["inter"] = nodes
    return out


def _pipeline_spec(models):
    spec = {}
    for m in models:
        is_last = m["actions"] == [{"kind": "last"}]
        args = dict(group=m["group"], name=m["name"])
        if not is_last:
            args["actions"] = m["actions"]
        spec.setdefault(m["group"], []).append(
            dict(func="verif_probes_c03.last" if is_last else "verif_probes_c03.act", name=m["name"], arguments=args))
    return {g: spec[g] for g in GROUP_ORDER if g in spec}


def _run(p, debug):
    import verif_probes_c03 as vp
    from harness import pyx

    vp.reset()
    det = pyx.make_detector(rows=p["rows"], cols=p["cols"])
    pipeline = pyx.make_pipeline(_pipeline_spec(p["models"]))
    readout = pyx.make_readout(times=[t / TICK for t in p["times"]], start_time=p["start"] / TICK,
                               non_destructive=p["nondestr"])
    try:
        dt = pyx.run_exposure(det, pipeline, readout, debug=debug, with_inherited_coords=p["hier"])
        return canon_tree(dt), None, list(vp.TRACE)
    except Exception as ex:  # noqa: BLE001
        return None, f"{type(ex).__name__}: {str(ex)[:200]}", list(vp.TRACE)


def handle(p):
    res, err, trace = _run(p, p["debug"])
    out = dict(result=res, error=err, result_nodebug=None)
    snaps = [e for e in trace if e["kind"] == "snap"]
    out["snaps"] = [[_ticks([e["abs_time"]])[0], e["snap"]] for e in snaps]
    out["wl_seen"] = [_ints(e.get("wavelengths", [])) for e in snaps]
    out["scene_seen"] = [[k, _ints(v)] for k, v in snaps[-1]["scene"]] if snaps else []
    out["data_seen"] = [[k, _ints(v)] for k, v in snaps[-1]["data"]] if snaps else []
    out["mrecs"] = [dict(step=e["step"], group=e["group"], name=e["name"], before=e["before"], after=e["after"])
                    for e in trace if e["kind"] == "model"]
    if p["debug"]:
        res2, err2, _ = _run(p, False)
        out["result_nodebug"] = res2
        out["error_nodebug"] = err2
    return out
