"""Shared machinery of the /verif checks.

One check = (1) regenerate the translated model parts from the current source, (2) proof leg:
coqc of the generated file(s) and Properties/<ID>.v, (3) correspondence leg: implementation vs. the
executable Gallina model evaluated inside Coq, (4) decision, (5) evidence.  See DESIGN.md section 2.
"""
from __future__ import annotations

import fcntl
import hashlib
import json
import os
import random
import re
import shutil
import subprocess
import sys
import time
from concurrent.futures import ThreadPoolExecutor
from dataclasses import dataclass, field
from pathlib import Path
from typing import Any, Callable, Iterable, Sequence

VERIF = Path(__file__).resolve().parent.parent
COQ = VERIF / "coq"
THEORIES = COQ / "theories"
PY = "/venv/bin/python"
NCPU = os.cpu_count() or 4

FORBIDDEN = re.compile(
    r"\b(Admitted|admit|Axiom|Axioms|Parameter|Parameters|Conjecture|Conjectures|Admit\s+Obligations|"
    r"bypass_check|give_up)\b|Unset\s+Guard\s+Checking|Unset\s+Positivity\s+Checking|"
    r"Unset\s+Universe\s+Checking|type-in-type|impredicative-set|native_compute"
)


def repo_path() -> Path:
    return Path(os.environ.get("VERIF_REPO", "/repo")).resolve()


class TranslationError(Exception):
    """The translator met a source shape it does not accept (fail closed)."""


# --------------------------------------------------------------------------------------------
# results


@dataclass
class Violation:
    """The implementation breaks the property's specification on a concrete case."""

    clause: str
    case: Any  # JSON-serialisable input / history
    observed: Any
    expected: Any
    what: str
    sig: dict = field(default_factory=dict)  # classification used by known_findings.json


@dataclass
class Broken:
    """A proof obligation or a correspondence that no longer checks."""

    kind: str  # "theorem" | "translation" | "correspondence" | "forbidden"
    name: str
    detail: str
    case: Any = None


@dataclass
class Ctx:
    prop: str
    tier: str
    seed: int
    repo: Path
    build: Path
    work: Path
    t0: float = field(default_factory=time.time)
    obligations: list = field(default_factory=list)  # dicts name,status,axioms,file
    broken: list = field(default_factory=list)
    violations: list = field(default_factory=list)
    cov: dict = field(default_factory=dict)
    assumptions: list = field(default_factory=list)
    trusted: list = field(default_factory=list)
    coq_secs: float = 0.0
    log_lines: list = field(default_factory=list)
    max_reported: int = 5  # distinct new violation signatures printed per run (a property module may raise it)

    @property
    def quick(self) -> bool:
        return self.tier == "quick"

    def rng(self, salt: str = "") -> random.Random:
        h = hashlib.sha256(f"{self.prop}/{self.seed}/{salt}".encode()).digest()
        return random.Random(int.from_bytes(h[:8], "big"))

    def budget(self, quick: int, thorough: int) -> int:
        return quick if self.quick else thorough

    def log(self, *a):
        s = " ".join(str(x) for x in a)
        self.log_lines.append(s)
        print(f"[{self.prop}] {s}", flush=True)

    def count(self, key: str, n: int = 1):
        self.cov[key] = self.cov.get(key, 0) + n

    def sample(self, s, cap: int = 6):
        lst = self.cov.setdefault("samples", [])
        if len(lst) < cap:
            lst.append(s)

    def dist(self, name: str, key):
        d = self.cov.setdefault("distribution", {}).setdefault(name, {})
        k = str(key)
        d[k] = d.get(k, 0) + 1


# --------------------------------------------------------------------------------------------
# Coq


def coq_flags(extra_q: Sequence[tuple[Path, str]] = ()) -> list[str]:
    fl = ["-R", str(THEORIES), "PyxelV"]
    for p, name in extra_q:
        fl += ["-Q", str(p), name]
    return fl


_REQ = re.compile(r"From\s+PyxelV\s+Require\s+(?:Import|Export)\s+([^.]*(?:\.[A-Za-z_][^.\s]*)*)\s*\.", re.S)


def lib_targets_of(texts: Iterable[str]) -> list[str]:
    """The .vo targets (relative to coq/) that the given Coq sources import from PyxelV."""
    t = set()
    for text in texts:
        for m in re.finditer(r"From\s+PyxelV\s+Require\s+(?:Import|Export)\s+(.*?)\.\s", strip_comments(text), re.S):
            for mod in m.group(1).split():
                rel = mod.replace(".", "/")
                if (THEORIES / (rel + ".v")).exists():
                    t.add(f"theories/{rel}.vo")
    return sorted(t)


def ensure_lib(ctx: Ctx | None = None, timeout: int = 1500, targets: Sequence[str] | None = None) -> tuple[bool, str]:
    """(Re)build the static library (Lib, Model, Proofs) with a full .vo make, under a lock.

    With `targets`, only those .vo files and what they depend on are (re)built, so that a check is
    not affected by unrelated files of the development."""
    COQ.mkdir(exist_ok=True)
    lock = open(COQ / ".lib.lock", "w")
    fcntl.flock(lock, fcntl.LOCK_EX)
    try:
        t = time.time()
        mk = COQ / "Makefile"
        proj = COQ / "_CoqProject"
        write_coqproject()
        if not mk.exists() or mk.stat().st_mtime < proj.stat().st_mtime:
            r = subprocess.run(
                ["coq_makefile", "-f", "_CoqProject", "-o", "Makefile"],
                cwd=COQ, capture_output=True, text=True,
            )
            if r.returncode != 0:
                return False, r.stdout + r.stderr
        r = subprocess.run(
            ["timeout", str(timeout), "make", "-j", str(min(NCPU, 12))] + list(targets or []),
            cwd=COQ, capture_output=True, text=True,
        )
        if ctx is not None:
            ctx.coq_secs += time.time() - t
        return r.returncode == 0, (r.stdout[-3000:] + r.stderr[-6000:])
    finally:
        fcntl.flock(lock, fcntl.LOCK_UN)
        lock.close()


def write_coqproject():
    """_CoqProject lists Lib, Model, Proofs (Properties are compiled by each check)."""
    files = []
    for sub in ("Lib", "Model", "Proofs"):
        files += sorted(str(p.relative_to(COQ)) for p in (THEORIES / sub).glob("*.v"))
    text = "-R theories PyxelV\n" + "\n".join(files) + "\n"
    proj = COQ / "_CoqProject"
    if not proj.exists() or proj.read_text() != text:
        proj.write_text(text)


def coqc(ctx: Ctx, vfile: Path, extra_q=(), timeout: int = 600, out: Path | None = None):
    """Compile one file; returns (ok, stdout, stderr)."""
    t = time.time()
    cmd = ["timeout", str(timeout), "coqc"] + coq_flags(extra_q)
    if out is not None:
        cmd += ["-o", str(out)]
    cmd.append(str(vfile))
    r = subprocess.run(cmd, capture_output=True, text=True, cwd=vfile.parent)
    ctx.coq_secs += time.time() - t
    err = r.stderr
    if r.returncode in (124, 137, 143) or r.returncode < 0:
        err += f"\n[coqc exit status {r.returncode}: timed out after {timeout}s or killed - not a Coq error]"
    return r.returncode == 0, r.stdout, err


_THM = re.compile(r"^\s*(Theorem|Lemma|Example|Corollary|Fact)\s+([A-Za-z0-9_']+)", re.M)


def theorem_names(text: str) -> list[tuple[str, str, int]]:
    """[(kind, name, line)] of the statements in a property file (comments stripped)."""
    clean = strip_comments(text)
    outl = []
    for m in _THM.finditer(clean):
        outl.append((m.group(1), m.group(2), clean.count("\n", 0, m.start()) + 1))
    return outl


def strip_comments(text: str) -> str:
    out, depth, i = [], 0, 0
    while i < len(text):
        if text.startswith("(*", i):
            depth += 1
            i += 2
        elif text.startswith("*)", i) and depth:
            depth -= 1
            i += 2
        else:
            out.append(text[i] if depth == 0 or text[i] == "\n" else " ")
            i += 1
    return "".join(out)


_SEC_OPEN = re.compile(r"^\s*(Section|Module(?:\s+Type)?|Module\s+Import|Module\s+Export)\s+([A-Za-z0-9_']+)\b(?![^.]*:=)")
_SEC_END = re.compile(r"^\s*End\s+([A-Za-z0-9_']+)\s*\.")
_VARLIKE = re.compile(r"^\s*(Variable|Variables|Hypothesis|Hypotheses|Context)\b")


def scan_forbidden(paths: Iterable[Path]) -> list[str]:
    """Forbidden constructs, and Variable/Hypothesis/Context outside a Section (which declare axioms)."""
    bad = []
    for p in paths:
        clean = strip_comments(p.read_text())
        stack: list[str] = []
        for n, line in enumerate(clean.splitlines(), 1):
            if FORBIDDEN.search(line):
                bad.append(f"{p}:{n}: {line.strip()[:120]}")
            m = _SEC_OPEN.match(line)
            if m:
                stack.append("S" if m.group(1) == "Section" else "M")
            elif _SEC_END.match(line) and stack:
                stack.pop()
            elif _VARLIKE.match(line) and "S" not in stack:
                bad.append(f"{p}:{n}: outside a Section: {line.strip()[:100]}")
    return bad


def parse_assumptions(stdout: str) -> list[tuple[str | None, list[str]]]:
    """Parse the outputs of successive `Print Assumptions` commands, in order."""
    res = []
    blocks = re.split(r"(?m)^(?=Closed under the global context|Axioms:)", stdout)
    for b in blocks:
        if b.startswith("Closed under the global context"):
            res.append([])
        elif b.startswith("Axioms:"):
            ax = re.findall(r"(?m)^([A-Za-z_][A-Za-z0-9_.']*)\s*(?::|$)", b[len("Axioms:"):])
            res.append(sorted(set(ax)))
    return res


def proof_leg(ctx: Ctx, gen_files: dict[str, str], prop_file: str, timeout: int = 900,
              extra_sources: Sequence[str] = ()) -> bool:
    """Write + compile generated files, compile the property file, record obligations.

    Every `Theorem` in Properties/<ID>.v (and every Lemma/Theorem of the generated files) is one
    obligation.  Returns True iff all were discharged.
    """
    prop_text = (THEORIES / prop_file).read_text()
    targets = lib_targets_of([prop_text] + list(gen_files.values()) + list(extra_sources))
    ok_lib, out = ensure_lib(ctx, targets=targets)
    if not ok_lib:
        ctx.broken.append(Broken("theorem", "static library (Lib/Model/Proofs)", tail(out, 40)))
        ctx.log("library build FAILED\n" + tail(out, 25))
        return False
    gen_dir = ctx.build / "gen"
    gen_dir.mkdir(parents=True, exist_ok=True)
    for f in gen_dir.glob("*"):
        f.unlink()
    extra = [(gen_dir, "PyxelGen")]
    all_ok = True
    src_paths = [THEORIES / prop_file] + dep_closure(targets)
    for name, text in gen_files.items():
        p = gen_dir / name
        p.write_text(text)
        src_paths.append(p)
    bad = scan_forbidden(src_paths)
    if bad:
        ctx.broken.append(Broken("forbidden", "forbidden construct in the development", "\n".join(bad[:10])))
        all_ok = False
    for name, text in gen_files.items():
        p = gen_dir / name
        ok, so, se = coqc(ctx, p, extra, timeout)
        names = theorem_names(text)
        if ok:
            for kind, nm, _ in names:
                ctx.obligations.append(dict(name=nm, file=name, kind=kind, status="discharged", axioms=None))
        else:
            all_ok = False
            bad_nm = locate_error(text, se, names)
            for kind, nm, _ in names:
                ctx.obligations.append(dict(name=nm, file=name, kind=kind,
                                            status="broken" if nm == bad_nm else "unchecked", axioms=None))
            ctx.broken.append(Broken("theorem", f"{name}:{bad_nm or '?'}", tail(se, 30)))
            ctx.log(f"generated file {name} does not compile: {tail(se, 12)}")
            return False
    src = THEORIES / prop_file
    text = src.read_text()
    names = theorem_names(text)
    dst = gen_dir / (Path(prop_file).stem + "_prop.v")
    # compile a copy inside the build dir so that concurrent checks never race on .vo files
    dst.write_text(text)
    ok, so, se = coqc(ctx, dst, extra, timeout)
    (ctx.build / "proof_stdout.txt").write_text(so + "\n--- stderr ---\n" + se)
    if ok:
        ax = parse_assumptions(so)
        thms = [n for n in names if n[0] in ("Theorem", "Corollary")]
        printed = re.findall(r"Print\s+Assumptions\s+([A-Za-z0-9_']+)", strip_comments(text))
        axmap = {nm: a for nm, a in zip(printed, ax)}
        for kind, nm, _ in names:
            ctx.obligations.append(dict(name=nm, file=prop_file, kind=kind, status="discharged",
                                        axioms=axmap.get(nm)))
        missing = [nm for _, nm, _ in thms if nm not in axmap]
        if missing:
            ctx.log("note: no Print Assumptions for", missing)
        if not ctx.quick and os.environ.get("VERIF_NO_COQCHK") != "1":
            okc, outc = coqchk(ctx, "PyxelGen." + dst.stem)
            (ctx.build / "coqchk.txt").write_text(outc)
            ctx.cov["coqchk"] = dict(ok=okc, axioms=sorted(set(re.findall(r"(?m)^\s+([A-Za-z_][A-Za-z0-9_.']+)\s*$", outc.split("Axioms:")[-1])))[:40] if "Axioms:" in outc else [],
                                     tail=tail(outc, 6))
            if not okc:
                all_ok = False
                ctx.broken.append(Broken("theorem", f"coqchk {prop_file}", tail(outc, 20)))
    else:
        all_ok = False
        bad_nm = locate_error(text, se, names)
        seen_bad = False
        for kind, nm, _ in names:
            st = "discharged"
            if nm == bad_nm:
                st, seen_bad = "broken", True
            elif seen_bad or bad_nm is None:
                st = "unchecked"
            ctx.obligations.append(dict(name=nm, file=prop_file, kind=kind, status=st, axioms=None))
        ctx.broken.append(Broken("theorem", f"{prop_file}:{bad_nm or '?'}", tail(se, 30)))
        ctx.log(f"proof obligation broken: {bad_nm}: {tail(se, 14)}")
    return all_ok


def dep_closure(targets: Sequence[str]) -> list[Path]:
    """Source files of the targets and of everything they import from PyxelV (transitively)."""
    seen, todo = set(), list(targets)
    while todo:
        t = todo.pop()
        if t in seen:
            continue
        seen.add(t)
        src = COQ / (t[:-3] + ".v")
        if src.exists():
            todo += lib_targets_of([src.read_text()])
    return sorted(COQ / (t[:-3] + ".v") for t in seen if (COQ / (t[:-3] + ".v")).exists())


def locate_error(text: str, stderr: str, names) -> str | None:
    m = re.search(r"line (\d+), characters", stderr)
    if not m:
        return None
    line = int(m.group(1))
    cur = None
    for kind, nm, ln in names:
        if ln <= line:
            cur = nm
    return cur


def tail(s: str, n: int) -> str:
    return "\n".join(s.strip().splitlines()[-n:])


def coq_eval(ctx: Ctx, name: str, text: str, timeout: int = 600) -> tuple[bool, list[str], str]:
    """Compile a harness-written case file; return the texts of its `Eval`/`Compute` results."""
    d = ctx.build / "cases"
    d.mkdir(parents=True, exist_ok=True)
    p = d / f"{name}.v"
    p.write_text(text)
    ok, so, se = coqc(ctx, p, [(ctx.build / "gen", "PyxelGen")], timeout)
    return ok, split_evals(so), se


def split_evals(stdout: str) -> list[str]:
    parts = re.split(r"(?m)^\s+= ", "\n" + stdout)
    res = []
    for part in parts[1:]:
        # drop the trailing ": type"
        body = " ".join(part.split())
        k = body.rfind(" : ")
        res.append(body[:k] if k >= 0 else body)
    return res


def parse_int_list(s: str) -> list[int]:
    s = s.strip()
    if not s.startswith("["):
        raise ValueError(f"not a list: {s[:80]}")
    return [int(x) for x in re.findall(r"-?\d+", s.replace("%nat", "").replace("%Z", "").replace("%N", ""))]


def coq_eval_many(ctx: Ctx, files: dict[str, str], timeout: int = 600, par: int | None = None):
    """Compile several case files in parallel. Returns {name: (ok, evals, stderr)}."""
    par = par or min(NCPU, 12)
    res = {}
    with ThreadPoolExecutor(par) as ex:
        futs = {n: ex.submit(coq_eval, ctx, n, t, timeout) for n, t in files.items()}
        for n, f in futs.items():
            res[n] = f.result()
    # a case file that was killed or ran out of time on a loaded machine says nothing about the code under test:
    # evaluate it once more, alone, with three times the time
    for n, (ok, _evals, se) in list(res.items()):
        if not ok and "not a Coq error]" in se:
            res[n] = coq_eval(ctx, n, files[n], timeout * 3)
            ctx.count("case_files_retried_after_timeout", 1) if hasattr(ctx, "count") else None
    return res


# Gallina literal emitters -------------------------------------------------------------------


def cz(n: int) -> str:
    return f"({n})%Z" if n < 0 else f"{n}%Z"


def cnat(n: int) -> str:
    assert 0 <= n < 5000, n
    return f"{n}%nat"


def cbool(b: bool) -> str:
    return "true" if b else "false"


def cstr(s: str) -> str:
    assert all(32 <= ord(c) < 127 for c in s), s
    return '"' + s.replace('"', '""') + '"%string'


def clist(items: Iterable[str]) -> str:
    items = list(items)
    return "[" + "; ".join(items) + "]" if items else "nil"


def copt(x, f: Callable[[Any], str]) -> str:
    return "None" if x is None else f"(Some {f(x)})"


def cq(num: int, den: int = 1) -> str:
    assert den > 0
    return f"(Qmake ({num}) {den})"


def cq_of_float(x: float) -> str:
    """Exact rational of a finite float."""
    n, d = float(x).as_integer_ratio()
    return cq(n, d)


def float_to_me(x: float) -> tuple[int, int]:
    """x = m * 2^e exactly (finite x), m odd or 0."""
    import math
    if x == 0.0:
        return (0, 0)
    m, e = math.frexp(x)
    mi = int(m * (1 << 53))
    ee = e - 53
    while mi % 2 == 0:
        mi //= 2
        ee += 1
    return mi, ee


# --------------------------------------------------------------------------------------------
# implementation drivers (separate processes, PYTHONPATH = repo under test)


def driver_env(ctx: Ctx) -> dict:
    env = dict(os.environ)
    env["PYTHONPATH"] = os.pathsep.join([str(ctx.repo), str(VERIF / "probes"), str(VERIF)])
    env["PYTHONHASHSEED"] = "0"
    env["MPLBACKEND"] = "Agg"
    env["TQDM_DISABLE"] = "1"
    env["PYTHONDONTWRITEBYTECODE"] = "1"
    env["PYXEL_VERIF"] = "1"
    env["NUMBA_CACHE_DIR"] = str(ctx.build / "numba_cache")
    env.setdefault("OMP_NUM_THREADS", "1")
    return env


def run_driver(ctx: Ctx, module: str, payloads: list, workers: int | None = None, timeout: int = 900,
               chunk: int | None = None) -> list:
    """Run `python -m harness.drivers.<module>` on the payload list (JSON in / JSON out).

    The driver module exposes `handle(payload) -> result` and is executed through
    harness.drivers._main; payloads are split over worker processes.  A crashed worker yields
    {"crash": ...} for each of its payloads (the caller decides what that means).
    """
    if not payloads:
        return []
    workers = workers or min(NCPU, 12)
    n = len(payloads)
    chunk = chunk or max(1, (n + workers - 1) // workers)
    chunks = [payloads[i:i + chunk] for i in range(0, n, chunk)]
    d = ctx.build / "drv"
    d.mkdir(parents=True, exist_ok=True)
    ctx.work.mkdir(parents=True, exist_ok=True)
    env = driver_env(ctx)

    def one(k_chunk):
        k, ch = k_chunk
        fin, fout = d / f"{module}_{k}.in.json", d / f"{module}_{k}.out.json"
        fin.write_text(json.dumps(ch))
        if fout.exists():
            fout.unlink()
        wd = ctx.work / f"w{k}"
        wd.mkdir(parents=True, exist_ok=True)
        try:
            r = subprocess.run([PY, "-B", "-m", "harness.drivers._main", module, str(fin), str(fout)],
                               cwd=wd, env=env, capture_output=True, text=True, timeout=timeout)
            if fout.exists():
                res = json.loads(fout.read_text())
                if len(res) == len(ch):
                    return res
            return [{"crash": f"rc={r.returncode} {tail(r.stderr, 8)}"} for _ in ch]
        except subprocess.TimeoutExpired:
            return [{"crash": "timeout"} for _ in ch]

    out: list = []
    with ThreadPoolExecutor(workers) as ex:
        for res in ex.map(one, enumerate(chunks)):
            out.extend(res)
    return out


# --------------------------------------------------------------------------------------------
# known findings, replay, evidence


def load_findings(prop: str) -> list[dict]:
    f = VERIF / "known_findings.json"
    if not f.exists():
        return []
    data = json.loads(f.read_text())
    return [e for e in data.get("findings", []) if e.get("property") == prop]


def finding_matches(entry: dict, v: Violation) -> bool:
    if entry.get("status") != "open":
        return False
    want = entry.get("signature", {})
    if not want:
        return False
    for k, val in want.items():
        got = v.sig.get(k, v.clause if k == "clause" else None)
        if isinstance(val, list):
            if got not in val:
                return False
        elif got != val:
            return False
    return True


def write_replay(ctx: Ctx, tag: str, payload: dict) -> Path:
    d = replay_dir()
    d.mkdir(parents=True, exist_ok=True)
    p = d / f"{ctx.prop}_{tag}.json"
    payload = dict(property=ctx.prop, seed=ctx.seed, tier=ctx.tier, **payload)
    p.write_text(json.dumps(payload, indent=1, default=str))
    return p


def finish(ctx: Ctx, level_text: str = "") -> int:
    """Decision + evidence + exit code (DESIGN 2.1 steps 4-5)."""
    findings = load_findings(ctx.prop)
    new_viol, known_hits = [], {}
    for v in ctx.violations:
        hit = next((e for e in findings if finding_matches(e, v)), None)
        if hit is not None:
            known_hits.setdefault(hit["id"], (hit, []))[1].append(v)
        else:
            new_viol.append(v)
    lines = []
    for fid, (e, vs) in sorted(known_hits.items()):
        lines.append(f"KNOWN-FINDING: property={ctx.prop} {fid}: {e['what']} ({len(vs)} case(s) this run)")
    rc = 0
    seen_sig = set()
    for k, v in enumerate(new_viol):
        key = json.dumps(v.sig, sort_keys=True) + v.clause
        if key in seen_sig:
            continue
        seen_sig.add(key)
        if len(seen_sig) > ctx.max_reported:
            break
        p = write_replay(ctx, f"{v.clause}_{len(seen_sig)}", dict(
            kind="input", clause=v.clause, case=v.case, impl_observed=v.observed,
            spec_expected=v.expected, what=v.what, sig=v.sig))
        lines.append(f"VIOLATION property={ctx.prop} replay={p}")
        rc = 1
    if ctx.broken and rc == 0:
        b = ctx.broken[0]
        p = write_replay(ctx, "unchecked", dict(
            kind=b.kind, no_longer_checks=b.name, detail=b.detail, case=b.case,
            all_broken=[dict(kind=x.kind, name=x.name) for x in ctx.broken],
            note="no concrete failing input was found by the search; the property is no longer shown to hold"))
        lines.append(f"VIOLATION property={ctx.prop} replay={p} no-failing-input-found")
        rc = 1
    write_evidence(ctx, len(new_viol) + (1 if (ctx.broken and not new_viol) else 0), known_hits)
    for ln in lines:
        print(ln, flush=True)
    if rc == 0:
        print(f"[{ctx.prop}] OK tier={ctx.tier} obligations={len(ctx.obligations)} "
              f"evaluations={ctx.cov.get('evaluations', 0)} wall={time.time() - ctx.t0:.1f}s", flush=True)
    return rc


def write_evidence(ctx: Ctx, nviol: int, known_hits: dict):
    obl = [o for o in ctx.obligations]
    discharged = sum(1 for o in obl if o["status"] == "discharged")
    axioms = sorted({a for o in obl for a in (o.get("axioms") or [])})
    cov = dict(ctx.cov)
    cov.setdefault("evaluations", 0)
    cov.setdefault("distinct_nontrivial", 0)
    cov.setdefault("samples", [])
    cov["obligations"] = len(obl)
    cov["discharged"] = discharged
    cov["obligation_list"] = [
        dict(name=o["name"], file=o["file"], status=o["status"],
             axioms=("closed under the global context" if o["axioms"] == [] else o["axioms"]))
        for o in obl
    ]
    cov["checker_cmd"] = (
        f"coqc -R {THEORIES} PyxelV -Q build/{ctx.prop}/gen PyxelGen <Gen_{ctx.prop}.v, "
        f"Properties/{ctx.prop}.v> after `make` of coq/_CoqProject (full .vo); "
        "thorough tier adds coqchk -o"
    )
    cov["trusted_base"] = [
        "Coq 8.16.1 kernel; vm_compute (bytecode VM) for reflexive steps and for evaluating the model "
        "in the correspondence leg; no native_compute",
        "axioms reported by Print Assumptions in this run: " + (", ".join(axioms) if axioms else
                                                               "none (all theorems closed under the global context)"),
    ] + list(ctx.trusted)
    # keep the schema-typed keys well typed whatever a property module stored there
    if not isinstance(cov.get("exhaustive", False), bool):
        cov["exhaustive_note"] = str(cov["exhaustive"])
        cov["exhaustive"] = False
    for k in ("evaluations", "distinct_nontrivial", "states", "transitions", "traces_validated_against_impl",
              "programs", "disagreements_checked"):
        if k in cov and not isinstance(cov[k], int):
            try:
                cov[k] = int(cov[k])
            except (TypeError, ValueError):
                cov[k + "_note"] = str(cov.pop(k))
    if not isinstance(cov.get("samples"), list):
        cov["samples"] = [cov.get("samples")]
    if "rule" in cov and not isinstance(cov["rule"], str):
        cov["rule"] = str(cov["rule"])
    if "explanation" in cov and not isinstance(cov["explanation"], str):
        cov["explanation"] = str(cov["explanation"])
    cov["known_findings_hit"] = {k: len(v[1]) for k, v in known_hits.items()}
    cov["broken"] = [dict(kind=b.kind, name=b.name) for b in ctx.broken]
    cov["coq_seconds"] = round(ctx.coq_secs, 1)
    ev = dict(
        property_id=ctx.prop, tier=ctx.tier, seed=ctx.seed, level="proof", coverage=cov,
        assumptions=list(ctx.assumptions), wall_s=round(time.time() - ctx.t0, 2), violations=nviol,
    )
    if alt_tag():       # a run against another tree is not evidence about /repo
        (ctx.build / "evidence.json").write_text(json.dumps(ev, indent=1, default=str) + "\n")
        return
    d = VERIF / "evidence"
    d.mkdir(exist_ok=True)
    (d / f"{ctx.prop}.json").write_text(json.dumps(ev, indent=1, default=str) + "\n")


def coqchk(ctx: Ctx, vo_logical: str, timeout: int = 900) -> tuple[bool, str]:
    """Independent re-check of a compiled property file (thorough tier)."""
    t = time.time()
    cmd = ["timeout", str(timeout), "coqchk", "-silent", "-o"] + coq_flags([(ctx.build / "gen", "PyxelGen")]) + [vo_logical]
    r = subprocess.run(cmd, capture_output=True, text=True, cwd=ctx.build / "gen")
    ctx.coq_secs += time.time() - t
    return r.returncode == 0, r.stdout + r.stderr


def alt_tag() -> str:
    """Non-empty when the check is pointed at another tree than /repo (VERIF_REPO: mutant / seeded runs).
    Such runs get their own build directory, evidence file and replay directory so that they never
    disturb, or are mistaken for, the checks of /repo itself."""
    rp = repo_path()
    if rp == Path("/repo"):
        return ""
    return hashlib.sha1(str(rp).encode()).hexdigest()[:8]


def replay_dir() -> Path:
    tag = alt_tag()
    return VERIF / "out" / ("replays" if not tag else f"replays_alt/{tag}")


def make_ctx(prop: str, tier: str, seed: int) -> Ctx:
    tag = alt_tag()
    build = VERIF / "build" / (prop if not tag else f"{prop}@{tag}")
    work = build / "work"
    if work.exists():
        shutil.rmtree(work, ignore_errors=True)
    for sub in ("cases", "drv"):
        if (build / sub).exists():
            shutil.rmtree(build / sub, ignore_errors=True)
    work.mkdir(parents=True, exist_ok=True)
    rp = replay_dir()
    if rp.exists() and "VERIF_KEEP_REPLAYS" not in os.environ:
        for f in rp.glob(f"{prop}_*.json"):
            f.unlink()
    return Ctx(prop=prop, tier=tier, seed=seed, repo=repo_path(), build=build, work=work)
