"""Edit known_findings.json under a lock:
   python -m harness.findings add '<json object>'     (property,id,status,signature,what,where[,commit])
   python -m harness.findings list [PROP]
"""
import fcntl
import json
import sys

from .core import VERIF

F = VERIF / "known_findings.json"


def main():
    cmd = sys.argv[1]
    with open(VERIF / ".findings.lock", "w") as lk:
        fcntl.flock(lk, fcntl.LOCK_EX)
        data = json.loads(F.read_text()) if F.exists() else {"findings": []}
        if cmd == "add":
            e = json.loads(sys.argv[2])
            for k in ("property", "id", "status", "signature", "what"):
                assert k in e, f"missing {k}"
            data["findings"] = [x for x in data["findings"] if x["id"] != e["id"]] + [e]
            F.write_text(json.dumps(data, indent=1) + "\n")
            print("added", e["id"])
        elif cmd == "list":
            for e in data["findings"]:
                if len(sys.argv) < 3 or e["property"] == sys.argv[2]:
                    print(e["property"], e["id"], e["status"], e["signature"])


if __name__ == "__main__":
    main()
