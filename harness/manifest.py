"""Regenerate MANIFEST.json from the META of the property modules that exist:  python -m harness.manifest"""
from __future__ import annotations

import importlib
import json

from .core import VERIF

ALL = [f"C{n:02d}" for n in range(1, 21)]
BASELINE = ("cd /repo && env -u PYXEL_VERIF /venv/bin/python -m pytest -ra -q -p no:cacheprovider --timeout=900 "
            "--continue-on-collection-errors")

NOT_BUILT = "check not built yet in this round (planned with the same technique, see DESIGN.md section 6)"


def main():
    checks, na = [], []
    extra_na = {}
    f = VERIF / "not_applicable.json"
    if f.exists():
        extra_na = json.loads(f.read_text())
    for pid in ALL:
        if pid in extra_na:
            na.append(dict(property_id=pid, reason=extra_na[pid]))
            continue
        try:
            mod = importlib.import_module(f"harness.props.{pid.lower()}")
            meta = mod.META
        except (ImportError, AttributeError):
            na.append(dict(property_id=pid, reason=NOT_BUILT))
            continue
        checks.append(dict(
            property_id=pid,
            quick_cmd=f"./check {pid} --tier quick",
            thorough_cmd=f"./check {pid} --tier thorough",
            evidence_file=f"/verif/evidence/{pid}.json",
            replay_cmd_template=f"./check {pid} --replay {{path}}",
            engine="coq-proof+correspondence",
            level_claimed=dict(category="proof", text=meta["level_text"], design_ref=meta.get("design_ref", f"DESIGN.md section 6, {pid}")),
            level_note=meta["level_note"],
            technique=meta.get("technique", "machine-checked proof in Coq 8.16.1 over an executable Gallina model; model tied to the code by a regenerating translator and an in-Coq correspondence check"),
        ))
    man = dict(
        version=1,
        setup_cmd="./setup.sh",
        hooks=dict(guard="PYXEL_VERIF", enable="no source hooks: checks observe the implementation through probe model functions in /verif/probes, public attributes, returned DataTrees and files (PYXEL_VERIF=1 is exported to the drivers but nothing in /repo reads it)",
                   baseline_off_cmd=BASELINE, source_commits=[], add_only=True),
        engines=[dict(name="coq-proof+correspondence", path="/verif/check",
                      serves_properties=[c["property_id"] for c in checks],
                      kind_free_text="Coq 8.16.1 theorems over executable Gallina models (coq/theories); translator (translator/) regenerates table-shaped model parts from /repo on every run; correspondence leg evaluates the model inside Coq (vm_compute) against the implementation's outputs on generated cases (harness/)")],
        checks=checks,
        notes="See DESIGN.md. known_findings.json lists genuine defects of the unchanged tree found by the checks.",
        not_applicable=na,
    )
    (VERIF / "MANIFEST.json").write_text(json.dumps(man, indent=1) + "\n")
    print(f"{len(checks)} checks, {len(na)} not claimed")


if __name__ == "__main__":
    main()
