"""./check <ID> [--tier quick|thorough] [--replay <file>]"""
from __future__ import annotations

import argparse
import importlib
import json
import os
import sys
import traceback

from . import core


def main(argv=None) -> int:
    ap = argparse.ArgumentParser()
    ap.add_argument("prop")
    ap.add_argument("--tier", default=os.environ.get("VERIF_TIER", "quick"), choices=["quick", "thorough"])
    ap.add_argument("--replay", default=None)
    ap.add_argument("--seed", type=int, default=None)
    a = ap.parse_args(argv)
    prop = a.prop.upper()
    seed = a.seed if a.seed is not None else int(os.environ.get("VERIF_SEED", "0") or 0)
    mod = importlib.import_module(f"harness.props.{prop.lower()}")
    rp = json.loads(open(a.replay).read()) if a.replay else None  # read before make_ctx wipes old replays
    if a.replay:
        os.environ["VERIF_KEEP_REPLAYS"] = "1"
    ctx = core.make_ctx(prop, a.tier, seed)
    ctx.log(f"repo={ctx.repo} tier={ctx.tier} seed={ctx.seed}")
    if a.replay:
        return mod.replay(ctx, rp)
    try:
        mod.run(ctx)
    except Exception:  # a crash of the machinery is reported as a broken check, never as a pass
        tb = traceback.format_exc()
        ctx.log("harness error:\n" + tb)
        ctx.broken.append(core.Broken("correspondence", "harness crashed", tb[-2000:]))
    return core.finish(ctx)


if __name__ == "__main__":
    sys.exit(main())
