"""Probe model for C08 (importable from pipelines as `verif_probes_c08.record`).

`record(detector, **arguments)` only notes that a model was executed (and with which arguments): the C08 check uses it
to observe that a sweep with a bad key is refused BEFORE any pipeline runs.
"""
from __future__ import annotations

CALLS: list = []


def record(detector, **arguments):
    CALLS.append(sorted(arguments))
