"""Probe models for C08 (importable from pipelines as `verif_probes_c08.record` / `verif_probes_c08.rec__<tag>`).

`record(detector, **arguments)` only notes that a model was executed (and with which arguments): the C08 check uses it
to observe that a sweep with a bad key is refused BEFORE any pipeline runs.

`rec__<tag>(detector, **arguments)` (any tag: the functions are made on demand) notes in addition WHICH model was
executed — the check gives every model of a pipeline its own tag `<group>__<model name>` — and keeps the argument values
it received, so that the check can see whether a swept value arrived in the model the key addresses.
"""
from __future__ import annotations

import copy

CALLS: list = []       # one entry per executed model: the sorted names of its arguments (record) / [tag, arguments] (rec__)
_MADE: dict = {}


def record(detector, **arguments):
    CALLS.append(sorted(arguments))


def __getattr__(name: str):
    if not name.startswith("rec__"):
        raise AttributeError(name)
    if name not in _MADE:
        tag = name[len("rec__"):]

        def rec(detector, **arguments):
            CALLS.append([tag, copy.deepcopy(arguments)])

        rec.__name__ = name
        _MADE[name] = rec
    return _MADE[name]
