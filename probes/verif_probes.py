"""Probe model functions referenced by generated pipelines (importable as `verif_probes.<name>`).

They are ordinary pyxel model functions `f(detector, **arguments)`.  Everything they observe is
appended to the module-level TRACE (one process = one driver worker), which drivers reset and read.
"""
from __future__ import annotations

import copy
import hashlib
import time as _time

import numpy as np

TRACE: list = []          # appended by the probes, in execution order
RUN_TAG: list = [None]    # optional tag set by drivers (e.g. the index of the observation run)
COUNTERS: dict = {}

BUCKETS = ("photon", "charge", "pixel", "signal", "image")


def reset():
    TRACE.clear()
    COUNTERS.clear()
    RUN_TAG[0] = None


def _jsonable(v):
    if isinstance(v, np.ndarray):
        return {"ndarray": v.tolist()}
    if isinstance(v, (np.integer,)):
        return int(v)
    if isinstance(v, (np.floating,)):
        return float(v)
    if isinstance(v, (list, tuple)):
        return [_jsonable(x) for x in v]
    if isinstance(v, dict):
        return {str(k): _jsonable(x) for k, x in v.items()}
    if isinstance(v, (int, float, str, bool)) or v is None:
        return v
    return repr(v)


def fingerprint(a) -> str:
    a = np.ascontiguousarray(a)
    return hashlib.sha1(str(a.dtype).encode() + str(a.shape).encode() + a.tobytes()).hexdigest()[:12]


def bucket_state(detector, values: bool = False) -> dict:
    """State of the five array buckets: None = empty/uninitialised, else fingerprint (or values)."""
    out = {}
    for b in BUCKETS:
        try:
            if b == "charge":
                arr = np.asarray(detector.charge.array)
                empty = (detector.charge.frame.empty and not np.any(arr))
                out[b] = None if empty else (arr.tolist() if values else fingerprint(arr))
            elif b == "photon":
                ph = detector.photon
                if getattr(ph, "_array", None) is None:
                    out[b] = None
                else:
                    arr = np.asarray(ph._array)
                    out[b] = arr.tolist() if values else fingerprint(arr)
            else:
                obj = getattr(detector, b)
                if getattr(obj, "_array", None) is None:
                    out[b] = None
                else:
                    arr = np.asarray(obj._array)
                    if b == "pixel" and not np.any(arr):
                        out[b] = "zero"
                    else:
                        out[b] = arr.tolist() if values else fingerprint(arr)
        except Exception as ex:  # noqa: BLE001
            out[b] = f"error:{type(ex).__name__}"
    return out


def clock(detector) -> dict:
    rp = detector.readout_properties
    return dict(
        time=float(detector.time), time_step=float(detector.time_step),
        absolute_time=float(detector.absolute_time), pipeline_count=int(detector.pipeline_count),
        is_first_readout=bool(detector.is_first_readout), is_last_readout=bool(detector.is_last_readout),
        start_time=float(detector.start_time), non_destructive=bool(detector.non_destructive_readout),
        num_steps=int(rp.num_steps),
    )


def record(detector, tag=None, with_clock=False, with_buckets=False, values=False, **kwargs):
    """Append (model name, step, kwargs) to TRACE. kwargs are exactly what the pipeline passed."""
    e = dict(probe="record", name=detector.current_running_model_name, step=int(detector.pipeline_count),
             tag=tag, run=RUN_TAG[0], kwargs=_jsonable(copy.deepcopy(kwargs)), det_id=id(detector))
    if with_clock:
        e["clock"] = clock(detector)
    if with_buckets:
        e["buckets"] = bucket_state(detector, values=values)
    TRACE.append(e)


def write(detector, bucket="pixel", value=1.0, add=False, scale_by_step=False, per_step=None, dtype=None,
          wavelengths=None, tag=None):
    """Write a constant frame (or add to the existing one) into a bucket.

    per_step: optional list; the value used at step i is per_step[i].
    """
    geo = detector.geometry
    shape = (geo.row, geo.col)
    v = value if per_step is None else per_step[int(detector.pipeline_count)]
    if scale_by_step:
        v = v * float(detector.time_step)
    if bucket == "photon":
        if wavelengths:
            import xarray as xr
            arr = np.full((len(wavelengths),) + shape, float(v))
            arr = arr * (1 + np.arange(len(wavelengths)))[:, None, None]
            da = xr.DataArray(arr, dims=["wavelength", "y", "x"], coords={"wavelength": list(wavelengths)})
            detector.photon.array_3d = da
        else:
            arr = np.full(shape, float(v))
            if add and getattr(detector.photon, "_array", None) is not None:
                detector.photon.array = detector.photon.array + arr
            else:
                detector.photon.array = arr
    elif bucket == "charge":
        detector.charge.add_charge_array(np.full(shape, float(v)))
    elif bucket == "image":
        dt = np.dtype(dtype or "uint16")
        detector.image.array = np.full(shape, int(v), dtype=dt)
    else:
        obj = getattr(detector, bucket)
        dt = np.dtype(dtype or "float64")
        arr = np.full(shape, v, dtype=dt)
        if add and getattr(obj, "_array", None) is not None:
            obj.array = obj.array + arr
        else:
            obj.array = arr
    TRACE.append(dict(probe="write", name=detector.current_running_model_name, step=int(detector.pipeline_count),
                      bucket=bucket, value=_jsonable(v), tag=tag, run=RUN_TAG[0]))


class ProbeError(Exception):
    """Custom exception class with a non-string argument (C09)."""


EXC = {"ValueError": ValueError, "KeyError": KeyError, "ZeroDivisionError": ZeroDivisionError,
       "RuntimeError": RuntimeError, "TypeError": TypeError, "ProbeError": ProbeError,
       "FileNotFoundError": FileNotFoundError}


def fail(detector, cls="ValueError", msg="boom", at_step=None, at_run=None, at_call=None, when_arg=None, arg=None):
    """Raise `cls(msg)` when the position matches; otherwise record the call."""
    n = COUNTERS.get("fail_calls", 0)
    COUNTERS["fail_calls"] = n + 1
    hit = True
    if at_step is not None and int(detector.pipeline_count) != at_step:
        hit = False
    if at_run is not None and RUN_TAG[0] != at_run:
        hit = False
    if at_call is not None and n != at_call:
        hit = False
    if when_arg is not None and arg != when_arg:
        hit = False
    TRACE.append(dict(probe="fail", name=detector.current_running_model_name, step=int(detector.pipeline_count),
                      hit=hit, run=RUN_TAG[0], arg=_jsonable(arg)))
    if hit:
        if cls == "ProbeError":
            raise ProbeError({"code": 7, "msg": msg})
        raise EXC[cls](msg)


def delay(detector, seconds=0.0, by_arg=None):
    """Sleep (data-dependent completion order for the parallel paths)."""
    _time.sleep(float(seconds if by_arg is None else by_arg))


def stateful(detector, key="_verif_memory", inc=1.0):
    """A model that keeps memory on the detector object (like trapped charge / persistence)."""
    prev = getattr(detector, key, 0.0)
    setattr(detector, key, prev + inc)
    geo = detector.geometry
    detector.pixel.array = np.full((geo.row, geo.col), float(prev + inc)) + (
        detector.pixel.array if getattr(detector.pixel, "_array", None) is not None else 0.0)
    TRACE.append(dict(probe="stateful", step=int(detector.pipeline_count), seen=float(prev), run=RUN_TAG[0]))


def mutates_args(detector, items=None, scalar=0):
    """A model that mutates its own (mutable) argument object."""
    seen = list(items) if items is not None else None
    if items is not None:
        items.append(len(items))
    TRACE.append(dict(probe="mutates_args", step=int(detector.pipeline_count), seen=_jsonable(seen),
                      scalar=_jsonable(scalar), run=RUN_TAG[0]))
    geo = detector.geometry
    detector.pixel.array = np.full((geo.row, geo.col), float(len(seen) if seen is not None else 0) + float(scalar))


def args_to_pixel(detector, **kwargs):
    """Write a value derived from the received arguments into pixel (C05/C07: label -> data)."""
    flat = []

    def walk(v):
        if isinstance(v, (list, tuple, np.ndarray)):
            for x in v:
                walk(x)
        elif isinstance(v, (int, float, np.integer, np.floating)) and not isinstance(v, bool):
            flat.append(float(v))
        else:
            flat.append(float(int(hashlib.sha1(repr(v).encode()).hexdigest()[:6], 16)))

    for k in sorted(kwargs):
        walk(kwargs[k])
    val = 0.0
    for i, x in enumerate(flat):
        val += (i + 1) * x
    geo = detector.geometry
    detector.pixel.array = np.full((geo.row, geo.col), val)
    TRACE.append(dict(probe="args_to_pixel", step=int(detector.pipeline_count), kwargs=_jsonable(kwargs),
                      value=val, run=RUN_TAG[0]))


def rng_state_hash() -> str:
    st = np.random.get_state()
    return hashlib.sha1(st[1].tobytes() + str(st[2:]).encode()).hexdigest()[:12]


def rng_probe(detector, draw=0, tag=None):
    """Record the global generator's state (hashed) and optionally draw from it."""
    before = rng_state_hash()
    vals = [float(np.random.random()) for _ in range(int(draw))]
    TRACE.append(dict(probe="rng", tag=tag, step=int(detector.pipeline_count), before=before,
                      after=rng_state_hash(), draws=vals, run=RUN_TAG[0]))
    if draw:
        geo = detector.geometry
        base = detector.pixel.array if getattr(detector.pixel, "_array", None) is not None else 0.0
        detector.pixel.array = base + np.full((geo.row, geo.col), sum(vals))
