"""Probe model for C05 (importable from pipelines as `verif_probes_c05.observe`).

`observe(detector, slots=[...], base=0, **arguments)` reads the *slots* it is told to look at -- its own
keyword arguments ("arg:<name>") and detector attributes ("det:<dotted path below detector>") -- in the
given order, records the values it actually received, and adds a value derived from them to `pixel`:

    pixel += sum_i  (8 * x_i) * 64 ** (base + i)        over the flattened slot values x_0, x_1, ...

All values used by the C05 check are off + n/scale with integer |n| < 64 (off = 0, scale = 8: multiples of 1/8; "fine"
cases: off = 0.5, scale = 2**30), x_i stands for n/8, so every term is an integer below
64 ** (base + i + 1) and, with at most 8 flattened values per pipeline, the sum is exact in binary64 and
decodes uniquely (base-64 digits): the pixel value identifies the values the run received.
"""
from __future__ import annotations

import operator

import numpy as np

TRACE: list = []


def reset():
    TRACE.clear()


def _flat(v, out):
    if isinstance(v, (list, tuple, np.ndarray)):
        for x in v:
            _flat(x, out)
    else:
        out.append(v)
    return out


def _eighths(x, off=0.0, scale=8.0):
    """Exact integer n with x = off + n / scale (None if there is none or x is not a number).  The default is the
    numerator of x in eighths; "fine" cases use off = 0.5, scale = 2**30, so that a value needs 31 significant bits
    and any detour through float32 / float16 / int changes n."""
    if isinstance(x, (bool, np.bool_)) or not isinstance(x, (int, float, np.integer, np.floating)):
        return None
    y = (float(x) - off) * scale
    if y != int(y) or off + int(y) / scale != float(x):
        return None
    return int(y)


def observe(detector, slots=(), base=0, off=0.0, scale=8.0, **kwargs):
    received = []
    flat_all = []
    for s in slots:
        kind, _, name = s.partition(":")
        if kind == "arg":
            v = kwargs.get(name, "<missing>")
        else:
            try:
                v = operator.attrgetter(name)(detector)
            except Exception as ex:  # noqa: BLE001
                v = f"<{type(ex).__name__}>"
        is_vec = isinstance(v, (list, tuple, np.ndarray))
        fl = [_eighths(x, off, scale) for x in _flat(v, [])]
        received.append(dict(slot=s, vec=bool(is_vec), eighths=fl, raw=repr(v)[:60]))
        flat_all += fl
    val = 0.0
    for i, e in enumerate(flat_all):
        val += float(-1 if e is None else e) * float(64 ** (int(base) + i))
    geo = detector.geometry
    prev = detector.pixel.array if getattr(detector.pixel, "_array", None) is not None else 0.0
    detector.pixel.array = prev + np.full((geo.row, geo.col), val)
    TRACE.append(dict(step=int(detector.pipeline_count), base=int(base), received=received, value=val,
                      det_id=id(detector)))
