"""Probe model for C09: every model of a generated pipeline is `verif_probes_c09.node`.

It logs (model name, step, run identity) to `verif_probes.TRACE` and, when one of its `faults`
matches the current position, raises through `verif_probes.fail` (the shared fault injector).

The run identity is read from the detector itself, so that it needs no hook in pyxel:
  t = detector.environment.temperature, q = detector.characteristics.quantum_efficiency
(both are swept by the generated observations), plus a run tag: the `arg` argument (a swept string)
of the first model of the pipeline, which that model publishes in `verif_probes.RUN_TAG` when it
runs (`set_tag`; used in sequential modes only, where the first model of a run always runs first).  In calibration the identity is the number of times this very model has
been called (`count_key`), i.e. the evaluation number.
"""
from __future__ import annotations

import threading

import numpy as np

import verif_probes as vp

_LOCK = threading.Lock()


class BaseProbeError(BaseException):
    """Custom class that is NOT an `Exception` subclass (like KeyboardInterrupt / SystemExit)."""


# classes the shared injector `verif_probes.fail` does not know (round 2): BaseException subclasses
# that an `except Exception` handler does not see, and two Exception subclasses with a special role
# (StopIteration ends iterators, FloatingPointError is what numpy's errstate raises)
EXC_C09 = {"KeyboardInterrupt": KeyboardInterrupt, "SystemExit": SystemExit, "BaseProbeError": BaseProbeError,
           "StopIteration": StopIteration, "FloatingPointError": FloatingPointError}


def _raise(detector, cls, msg):
    if cls in EXC_C09:
        raise EXC_C09[cls](msg)
    vp.fail(detector, cls=cls, msg=msg)


def _inject(detector, f):
    """Raise the injected exception; `chained`: while another exception is being handled."""
    if f.get("chained"):
        try:
            raise LookupError("inner-" + f["msg"])
        except LookupError:
            _raise(detector, f["cls"], f["msg"])
    _raise(detector, f["cls"], f["msg"])


def node(detector, faults=None, arg=None, arg2=None, count_key=None, write_all=False, set_tag=False, case_id=None):
    step = int(detector.pipeline_count)
    name = detector.current_running_model_name
    t = float(detector.environment.temperature)
    q = float(detector.characteristics.quantum_efficiency)
    n = None
    if set_tag:           # the first model of the pipeline announces the run (sequential modes only)
        vp.RUN_TAG[0] = arg
    tag = vp.RUN_TAG[0]
    with _LOCK:
        if count_key is not None:
            n = vp.COUNTERS.get(count_key, 0)
            vp.COUNTERS[count_key] = n + 1
        # case_id: worker threads of an EARLIER case (dask keeps running the other cells after a failure)
        # may still be logging; the driver keeps only the entries of the case it is running
        vp.TRACE.append(dict(probe="node", name=name, step=step, t=t, q=q, n=n, tag=tag, arg=vp._jsonable(arg),
                             case=case_id))
    if write_all:
        geo = detector.geometry
        v = float(arg) if isinstance(arg, (int, float, np.floating)) else 1.0
        a = np.full((geo.row, geo.col), v)
        detector.photon.array = a
        detector.charge.add_charge_array(a)
        detector.pixel.array = a
        detector.signal.array = a
        detector.image.array = a.astype("uint16")
    for f in faults or []:
        if f.get("step") is not None and int(f["step"]) != step:
            continue
        if f.get("t") is not None and float(f["t"]) != t:
            continue
        if f.get("q") is not None and float(f["q"]) != q:
            continue
        if f.get("n") is not None and int(f["n"]) != n:
            continue
        if "tag" in f and f["tag"] != tag:
            continue
        if f.get("corrupt"):
            # no exception here: leave a bucket in a state the debug capture (Detector.to_xarray) cannot read
            detector.pixel._array = np.zeros((1, 1, 1, 1))
            continue
        _inject(detector, f)
