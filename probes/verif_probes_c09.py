"""Probe model for C09: every model of a generated pipeline is `verif_probes_c09.node`.

It logs (model name, step, run identity) to `verif_probes.TRACE` and, when one of its `faults`
matches the current position, raises through `verif_probes.fail` (the shared fault injector).

The run identity is read from the detector itself, so that it needs no hook in pyxel:
  t = detector.environment.temperature, q = detector.characteristics.quantum_efficiency
(both are swept by the generated observations), plus a run tag: the `arg` argument (a swept string)
of the first model of the pipeline, which that model publishes in `verif_probes.RUN_TAG` when it
runs (`set_tag`; used in sequential modes only, where the first model of a run always runs first).  In calibration the identity is the number of times this very model has
been called (`count_key`), i.e. the evaluation number.
"""
from __future__ import annotations

import threading

import numpy as np

import verif_probes as vp

_LOCK = threading.Lock()


def node(detector, faults=None, arg=None, arg2=None, count_key=None, write_all=False, set_tag=False):
    step = int(detector.pipeline_count)
    name = detector.current_running_model_name
    t = float(detector.environment.temperature)
    q = float(detector.characteristics.quantum_efficiency)
    n = None
    if set_tag:           # the first model of the pipeline announces the run (sequential modes only)
        vp.RUN_TAG[0] = arg
    tag = vp.RUN_TAG[0]
    with _LOCK:
        if count_key is not None:
            n = vp.COUNTERS.get(count_key, 0)
            vp.COUNTERS[count_key] = n + 1
        vp.TRACE.append(dict(probe="node", name=name, step=step, t=t, q=q, n=n, tag=tag, arg=vp._jsonable(arg)))
    if write_all:
        geo = detector.geometry
        v = float(arg) if isinstance(arg, (int, float, np.floating)) else 1.0
        a = np.full((geo.row, geo.col), v)
        detector.photon.array = a
        detector.charge.add_charge_array(a)
        detector.pixel.array = a
        detector.signal.array = a
        detector.image.array = a.astype("uint16")
    for f in faults or []:
        if f.get("step") is not None and int(f["step"]) != step:
            continue
        if f.get("t") is not None and float(f["t"]) != t:
            continue
        if f.get("q") is not None and float(f["q"]) != q:
            continue
        if f.get("n") is not None and int(f["n"]) != n:
            continue
        if "tag" in f and f["tag"] != tag:
            continue
        vp.fail(detector, cls=f["cls"], msg=f["msg"])
