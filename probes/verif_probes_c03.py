"""Probe models of the C03 check (importable from pipelines as `verif_probes_c03.<name>`).

`act`  : a writer model: performs a list of actions and records what the detector showed just before
         and just after it ran.
`last` : runs last in every step: records the absolute time and every container (dtype, shape, values),
         and the scene / data trees, exactly as the detector holds them at the end of the step.
"""
from __future__ import annotations

import numpy as np

TRACE: list = []

BUCKETS = ("photon", "charge", "pixel", "signal", "image")


def reset():
    TRACE.clear()


def _arr(a):
    a = np.asarray(a)
    return [str(a.dtype), [int(n) for n in a.shape], a.reshape(-1).tolist()]


def containers(detector) -> dict:
    """Every container: None if uninitialised, else [dtype, shape, flat values]."""
    out = {}
    for b in BUCKETS:
        obj = getattr(detector, b)
        if b == "charge":
            out[b] = _arr(np.array(obj.array, copy=True))
        elif getattr(obj, "_array", None) is None:
            out[b] = None
        else:
            raw = obj._array
            out[b] = _arr(np.array(getattr(raw, "values", raw), copy=True))
    return out


def visible(detector) -> list:
    """What a reader of the detector sees: initialised containers, charge only if not all zero."""
    c = containers(detector)
    out = []
    for b in BUCKETS:
        v = c[b]
        if v is None:
            continue
        if b == "charge" and not any(v[2]):
            continue
        out.append([b, v])
    return out


def tree_payload(tree) -> list:
    """[(path/var, flat values)] of every data variable of a DataTree, sorted by key."""
    out = []
    root = tree.path.rstrip("/")
    for node in tree.subtree:
        rel = node.path[len(root):] if root and node.path.startswith(root) else node.path
        rel = rel.rstrip("/")
        for name, var in node.dataset.data_vars.items():
            out.append([f"{rel}/{name}", np.asarray(var.values).reshape(-1).tolist()])
    return sorted(out)


def cube_coords(spec, waves, shape) -> dict:
    """Coordinates of a photon cube: always `wavelength`; per `spec` y / x labels, further coordinates (along y,
    along wavelength, over (y, x), a scalar), given in one of several orders."""
    spec = spec or {}
    wl_kind = spec.get("wl_kind", "default")
    if wl_kind == "decreasing":
        wl = [900.0 - 100.0 * k for k in range(waves)]
    elif wl_kind == "uneven":
        wl = [400.0 + 37.0 * k * k for k in range(waves)]
    else:
        wl = [500.0 + 100.0 * k for k in range(waves)]
    items = [("wavelength", wl)]
    if spec.get("y") is not None:
        items.append(("y", [float(v) if v != int(v) else int(v) for v in spec["y"]]))
    if spec.get("x") is not None:
        items.append(("x", [float(v) if v != int(v) else int(v) for v in spec["x"]]))
    for name in spec.get("extra", []):
        if name == "row_mm":
            items.append((name, ("y", [0.25 * (i + 1) for i in range(shape[0])])))
        elif name == "col_name":
            items.append((name, ("x", [f"c{i}" for i in range(shape[1])])))
        elif name == "band":
            items.append((name, ("wavelength", [f"b{i}" for i in range(waves)])))
        elif name == "mask":
            items.append((name, (("y", "x"), np.ones(shape, dtype=bool))))
        elif name == "exposure_id":
            items.append((name, 7))
        else:
            raise ValueError(name)
    order = int(spec.get("order", 0)) % 3
    if order == 1:
        items = items[::-1]
    elif order == 2:
        items = items[1:] + items[:1]
    return dict(items)


def _write(detector, a, step):
    """One writer action.  mode = "assign": a new buffer replaces the container's (`.array = new`,
    `.array_3d = new`; charge: `empty()` then `add_charge_array`).  mode = "iadd": the values are added to
    the container's buffer IN PLACE (`+=`, three idioms; charge: `add_charge_array`).  mode = "iset": the
    buffer is overwritten in place (`.array[...] = new`).  On an uninitialised container "iadd" / "iset" can
    only initialise it (a new buffer).
    `dtypes` (optional): the dtype written at each step (else `dtype` at every step).
    `cube` (optional, 3-D photon): the coordinates the DataArray handed to the container carries besides
    `wavelength`: y / x labels (any numbers), further coordinates, the order in which they are given."""
    import xarray as xr

    geo = detector.geometry
    shape = (geo.row, geo.col)
    b = a["bucket"]
    mode = a.get("mode", "assign")
    idiom = int(a.get("idiom", 0))
    v = a["per_step"][step]
    if v < 0:
        return                                  # the writer does nothing at this step
    waves = int(a.get("waves", 0))
    shp = ((waves,) + shape) if (b == "photon" and waves) else shape
    arr = (np.arange(int(np.prod(shp)), dtype=object) + int(v)).reshape(shp)
    dts = a.get("dtypes")
    want_dt = dts[step] if dts else a["dtype"]
    if b == "photon":
        cur = detector.photon._array
        dt = want_dt if (cur is None or mode == "assign") else cur.dtype
        val = arr.astype(dt)
        if waves:
            val = xr.DataArray(val, dims=["wavelength", "y", "x"], coords=cube_coords(a.get("cube"), waves, shape))
        if mode == "assign" or (cur is None and mode == "iset"):
            if waves:
                detector.photon.array_3d = val
            else:
                detector.photon.array = val
        elif mode == "iadd":
            detector.photon += val              # the documented idiom (Photon.__iadd__)
        elif mode == "iset":
            if waves:
                detector.photon.array_3d.values[...] = np.asarray(val)
            else:
                detector.photon.array[...] = val
        else:
            raise ValueError(mode)
    elif b == "charge":
        if mode == "assign":
            detector.charge.empty()
            detector.charge.add_charge_array(arr.astype(float))
        elif mode == "iadd":
            detector.charge.add_charge_array(arr.astype(float))
        elif mode == "iset":
            detector.charge.array[...] = arr.astype(float)
        else:
            raise ValueError(mode)
    else:
        obj = getattr(detector, b)
        cur = obj._array
        if mode == "assign" or cur is None:
            obj.array = arr.astype(want_dt)
        elif mode == "iadd":
            val = arr.astype(cur.dtype)
            if idiom == 1:
                obj += val                      # ArrayBase.__iadd__ ...
                setattr(detector, b, obj)       # ... as in `detector.pixel += val`
            elif idiom == 2:
                np.add(cur, val, out=cur)
            else:
                obj.array += val
        elif mode == "iset":
            obj.array[...] = arr.astype(cur.dtype)
        else:
            raise ValueError(mode)


def _do(detector, a):
    import xarray as xr

    step = int(detector.pipeline_count)
    kind = a["kind"]
    if kind == "write":
        _write(detector, a, step)
    elif kind == "data":
        detector.data[a["key"]] = xr.DataArray([int(a["per_step"][step])], dims="n")
    elif kind == "scene":
        detector.scene.data[a["key"]] = xr.DataArray([int(a["per_step"][step])], dims="n")
    elif kind == "nop":
        pass
    else:
        raise ValueError(kind)


def act(detector, actions=(), group="", name=""):
    before = visible(detector)
    for a in actions:
        _do(detector, a)
    TRACE.append(dict(kind="model", step=int(detector.pipeline_count), group=group, name=name,
                      before=before, after=visible(detector)))


def last(detector, group="", name=""):
    vis = visible(detector)
    TRACE.append(dict(kind="model", step=int(detector.pipeline_count), group=group, name=name,
                      before=vis, after=vis))
    raw = getattr(detector.photon, "_array", None)
    wl = np.asarray(raw.coords["wavelength"].values).reshape(-1).tolist() if hasattr(raw, "coords") and "wavelength" in raw.coords else []
    TRACE.append(dict(kind="snap", step=int(detector.pipeline_count), wavelengths=wl,
                      abs_time=float(detector.absolute_time), snap=containers(detector),
                      scene=tree_payload(detector.scene.data), data=tree_payload(detector.data)))
