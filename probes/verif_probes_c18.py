"""C18 probes: a structural (field-by-field) canonical form of a detector, and a model function that
records it from inside a pipeline.  Nothing here uses the library's `==`.

Canonical forms (plain JSON):
  arr    = {"dt": <dtype name>, "sh": [..shape..], "v": [ints]}   floats as the int64 bit pattern of the
           binary64 value (exact; -0.0/NaN distinguished), ints/bools as themselves, anything else hashed
  items  = sorted [[label, arr], ...]
  keyed  = sorted [[key, items], ...]
  payload= {"k": "arr", "a": arr} | {"k": "keyed", "m": keyed} | {"k": "frame", "i": [row labels], "c": items}
           | None (not initialised / no content)
"""
from __future__ import annotations

import hashlib
import struct

import numpy as np

TRACE: list = []

EMPTY = {"dt": "-", "sh": [], "v": []}


def reset():
    TRACE.clear()


def _bits(x: float) -> int:
    x = float(x)
    if x != x:          # every NaN is one value here (its payload is not an observable of the property)
        return 0x7FF8000000000000
    return struct.unpack(">q", struct.pack(">d", x))[0]


def _asc(s) -> str:
    """printable-ASCII, injective rendering of a name (non-ASCII characters as \\u{hex}, backslash doubled)."""
    out = []
    for ch in str(s):
        if ch == "\\":
            out.append("\\\\")
        elif 32 <= ord(ch) < 127:
            out.append(ch)
        else:
            out.append("\\u{%x}" % ord(ch))
    return "".join(out)


def _h(x) -> int:
    return int(hashlib.sha1(repr(x).encode()).hexdigest()[:10], 16)


def c_arr(a) -> dict:
    a = np.asarray(a)
    kind = a.dtype.kind
    flat = a.reshape(-1)
    if kind == "f":
        v = [_bits(x) for x in flat.astype(np.float64)]
    elif kind in "iu":
        v = [int(x) for x in flat]
    elif kind == "b":
        v = [int(bool(x)) for x in flat]
    elif kind == "c":       # complex: (re, im) bit patterns
        v = [b for x in flat.astype(np.complex128) for b in (_bits(x.real), _bits(x.imag))]
    elif kind in "mM":      # datetime64 / timedelta64: the instant in ns (the unit is part of the dtype name)
        try:
            v = [int(x) for x in flat.astype(f"{'datetime64' if kind == 'M' else 'timedelta64'}[ns]").view(np.int64)]
        except Exception:  # noqa: BLE001
            v = [_h(x) for x in flat.tolist()]
    else:
        v = [_h(x) for x in flat.tolist()]
    dt = a.dtype.name if kind in "fiubcmM" else ("str" if kind in "UO" else a.dtype.name)
    return {"dt": dt, "sh": [int(s) for s in a.shape], "v": v}


def c_scalar(v) -> dict:
    if v is None:
        return {"dt": "None", "sh": [], "v": []}
    if isinstance(v, (bool, np.bool_)):
        return {"dt": "bool", "sh": [], "v": [int(v)]}
    if isinstance(v, (int, np.integer)):
        return {"dt": "int", "sh": [], "v": [int(v)]}
    if isinstance(v, (float, np.floating)):
        return {"dt": "float", "sh": [], "v": [_bits(v)]}
    if isinstance(v, (tuple, list)) and all(isinstance(x, (int, float, np.integer, np.floating)) for x in v):
        return {"dt": "floats", "sh": [len(v)], "v": [_bits(x) for x in v]}
    if isinstance(v, np.ndarray):
        return c_arr(v)
    return {"dt": "repr", "sh": [], "v": [_h(v)]}


def _attr_val(v):
    """attribute value up to the container/scalar flavour (tuple = list = 1-D array; numpy scalar = Python scalar):
    what an attribute SAYS, not which Python type carries it."""
    if isinstance(v, np.ndarray):
        v = v.tolist()
    if isinstance(v, np.generic):
        v = v.item()
    if isinstance(v, (list, tuple)):
        return "[" + ",".join(_attr_val(x) for x in v) + "]"
    if isinstance(v, bool):
        return "b:" + str(v)
    if isinstance(v, int):
        return "i:" + str(v)
    if isinstance(v, float):
        return "f:" + str(_bits(v))
    if isinstance(v, str):
        return "s:" + v
    if v is None:
        return "None"
    if isinstance(v, dict):
        return "{" + ",".join(f"{k}:{_attr_val(x)}" for k, x in sorted(v.items(), key=lambda kv: str(kv[0]))) + "}"
    return "r:" + repr(v)


def _attrs(attrs) -> list:
    out = []
    for k, v in attrs.items():
        lab = _asc(f"attr:{k}={_attr_val(v)}")
        if len(lab) > 120:
            lab = lab[:100] + "..." + hashlib.sha1(lab.encode()).hexdigest()[:12]
        out.append([lab, EMPTY])
    return out


def _dims(v) -> str:
    return ",".join(map(str, v.dims))


def c_dataset(ds) -> list:
    """One group: every data variable and coordinate (name, dims IN ORDER, dtype, shape, values), every attribute of
    the group, of its variables and of its coordinates.  Labels are ASCII-safe and injective on names."""
    it = []
    for n, v in ds.data_vars.items():
        it.append([_asc(f"var:{n}|{_dims(v)}"), c_arr(v.values)])
        it += [[_asc(f"var:{n}|") + lab, a] for lab, a in _attrs(v.attrs)]
    for n, v in ds.coords.items():
        it.append([_asc(f"coord:{n}|{_dims(v)}"), c_arr(v.values)])
        it += [[_asc(f"coord:{n}|") + lab, a] for lab, a in _attrs(v.attrs)]
    it += _attrs(ds.attrs)
    return sorted(it, key=lambda x: x[0])


def _walk(node, path):
    """(path, own dataset) of a node and all its descendants, by walking `.children` (NOT through DataTree.to_dict):
    the own dataset excludes what is inherited from the parent."""
    yield path, node.to_dataset(inherit=False)
    for name, child in node.children.items():
        yield from _walk(child, (path if path != "/" else "") + "/" + str(name))


def c_tree(tree) -> dict | None:
    """xr.DataTree -> keyed (path -> dataset items).  EVERY group is an entry, also one that carries nothing (the
    group structure is an observable); a tree that is only an empty root is None (= not initialised)."""
    m = sorted(([_asc(p), c_dataset(ds)] for p, ds in _walk(tree, "/")), key=lambda x: x[0])
    if len(m) == 1 and not m[0][1]:
        return None
    return {"k": "keyed", "m": m}


def c_nested(tree) -> dict:
    """the tree as a NESTED value: {"items": own dataset items, "children": [[name, nested], ...]} (sorted by name)."""
    return {"items": c_dataset(tree.to_dataset(inherit=False)),
            "children": sorted(([_asc(n), c_nested(c)] for n, c in tree.children.items()), key=lambda x: x[0])}


def c_dataarray(da) -> dict:
    """3-D photon: the five top-level entries of a DataArray (dims, data, coords, attrs, name)."""
    coords = sorted(([_asc(f"{n}|{','.join(map(str, c.dims))}"), c_arr(c.values)] for n, c in da.coords.items()),
                    key=lambda x: x[0])
    m = [
        ["attrs", sorted(_attrs(da.attrs), key=lambda x: x[0])],
        ["coords", coords],
        ["data", [["", c_arr(da.values)]]],
        ["dims", [[_asc(",".join(map(str, da.dims))), EMPTY]]],
        ["name", [[_asc(str(da.name)), EMPTY]]],
    ]
    return {"k": "keyed", "m": m}


def c_frame(df) -> dict | None:
    if df is None or len(df) == 0:
        return None
    cols = [[str(c), c_arr(df[c].to_numpy())] for c in df.columns]
    idx = [int(i) if isinstance(i, (int, np.integer)) else _h(i) for i in df.index]
    return {"k": "frame", "i": idx, "c": sorted(cols, key=lambda x: x[0])}


def c_props(obj) -> list:
    """geometry / environment / characteristics: every instance attribute, by name."""
    it = []
    for k, v in sorted(vars(obj).items()):
        if k == "_numbytes":      # size cache, not a property of the detector
            continue
        if hasattr(v, "__dict__") and not isinstance(v, np.ndarray):
            for k2, v2 in sorted(vars(v).items()):
                it.append([f"{k}.{k2}", c_scalar(v2)])
        else:
            it.append([k, c_scalar(v)])
    return it


def _array_bucket(obj):
    if obj is None or getattr(obj, "_array", None) is None:
        return None
    return {"k": "arr", "a": c_arr(obj._array)}


def canon_detector(det) -> dict:
    import xarray as xr

    cont = {}
    ph = det._photon
    if ph is None or ph._array is None:
        cont["photon"] = None
    elif isinstance(ph._array, xr.DataArray):
        cont["photon"] = c_dataarray(ph._array)
    else:
        cont["photon"] = {"k": "arr", "a": c_arr(ph._array)}
    for b in ("pixel", "signal", "image"):
        cont[b] = _array_bucket(getattr(det, "_" + b))
    cont["phase"] = _array_bucket(getattr(det, "_phase", None))
    ch = det._charge
    if ch is None:
        cont["charge_array"] = cont["charge_frame"] = None
    else:
        arr = np.asarray(ch.array)
        cont["charge_array"] = {"k": "arr", "a": c_arr(arr)} if np.any(arr) else None
        cont["charge_frame"] = c_frame(ch.frame)
    cont["scene"] = None if det._scene is None else c_tree(det._scene.data)
    cont["data"] = None if det._data is None else c_tree(det._data)
    return dict(
        type=type(det).__name__,
        geometry=c_props(det.geometry), environment=c_props(det.environment),
        characteristics=c_props(det.characteristics),
        containers=cont,
    )


def record_canon(detector, tag=None):
    """Model function: record what a model at this pipeline position sees."""
    TRACE.append(dict(tag=tag, name=detector.current_running_model_name, step=int(detector.pipeline_count),
                      canon=canon_detector(detector)))


def fill_from_spec(detector, init=None):
    """Model function: initialise containers of the running detector from a plain spec (the same builder the driver
    uses outside pipelines), so that a later save_detector / load_detector meets a detector that is not empty."""
    from harness.drivers.c18 import fill

    fill(detector, init or {}, detector.geometry.row, detector.geometry.col)
