"""C18 probes: a structural (field-by-field) canonical form of a detector, and a model function that
records it from inside a pipeline.  Nothing here uses the library's `==`.

Canonical forms (plain JSON):
  arr    = {"dt": <dtype name>, "sh": [..shape..], "v": [ints]}   floats as the int64 bit pattern of the
           binary64 value (exact; -0.0/NaN distinguished), ints/bools as themselves, anything else hashed
  items  = sorted [[label, arr], ...]
  keyed  = sorted [[key, items], ...]
  payload= {"k": "arr", "a": arr} | {"k": "keyed", "m": keyed} | {"k": "frame", "i": [row labels], "c": items}
           | None (not initialised / no content)
"""
from __future__ import annotations

import hashlib
import struct

import numpy as np

TRACE: list = []

EMPTY = {"dt": "-", "sh": [], "v": []}


def reset():
    TRACE.clear()


def _bits(x: float) -> int:
    return struct.unpack(">q", struct.pack(">d", float(x)))[0]


def _h(x) -> int:
    return int(hashlib.sha1(repr(x).encode()).hexdigest()[:10], 16)


def c_arr(a) -> dict:
    a = np.asarray(a)
    kind = a.dtype.kind
    flat = a.reshape(-1)
    if kind == "f":
        v = [_bits(x) for x in flat.astype(np.float64)]
    elif kind in "iu":
        v = [int(x) for x in flat]
    elif kind == "b":
        v = [int(bool(x)) for x in flat]
    else:
        v = [_h(x) for x in flat.tolist()]
    dt = a.dtype.name if kind in "fiub" else ("str" if kind in "UO" else a.dtype.name)
    return {"dt": dt, "sh": [int(s) for s in a.shape], "v": v}


def c_scalar(v) -> dict:
    if v is None:
        return {"dt": "None", "sh": [], "v": []}
    if isinstance(v, (bool, np.bool_)):
        return {"dt": "bool", "sh": [], "v": [int(v)]}
    if isinstance(v, (int, np.integer)):
        return {"dt": "int", "sh": [], "v": [int(v)]}
    if isinstance(v, (float, np.floating)):
        return {"dt": "float", "sh": [], "v": [_bits(v)]}
    if isinstance(v, (tuple, list)) and all(isinstance(x, (int, float, np.integer, np.floating)) for x in v):
        return {"dt": "floats", "sh": [len(v)], "v": [_bits(x) for x in v]}
    if isinstance(v, np.ndarray):
        return c_arr(v)
    return {"dt": "repr", "sh": [], "v": [_h(v)]}


def _attrs(attrs) -> list:
    return [[f"attr:{k}={v!r}"[:80], EMPTY] for k, v in attrs.items()]


def c_dataset(ds) -> list:
    it = []
    for n, v in ds.data_vars.items():
        it.append([f"var:{n}|{','.join(map(str, v.dims))}", c_arr(v.values)])
        it += [[f"var:{n}|" + lab, a] for lab, a in _attrs(v.attrs)]
    for n, v in ds.coords.items():
        it.append([f"coord:{n}|{','.join(map(str, v.dims))}", c_arr(v.values)])
    it += _attrs(ds.attrs)
    return sorted(it, key=lambda x: x[0])


def c_tree(tree) -> dict | None:
    """xr.DataTree -> keyed (path -> dataset items); the empty tree is None."""
    m = sorted(([str(p), c_dataset(ds)] for p, ds in tree.to_dict().items()), key=lambda x: x[0])
    # groups without any content other than the root are structure implied by their descendants' paths
    m = [[p, it] for p, it in m if it or p == "/"]
    if all(not it for _, it in m):
        return None
    return {"k": "keyed", "m": m}


def c_dataarray(da) -> dict:
    """3-D photon: the five top-level entries of a DataArray (dims, data, coords, attrs, name)."""
    coords = sorted(([f"{n}|{','.join(map(str, c.dims))}", c_arr(c.values)] for n, c in da.coords.items()),
                    key=lambda x: x[0])
    m = [
        ["attrs", sorted(_attrs(da.attrs), key=lambda x: x[0])],
        ["coords", coords],
        ["data", [["", c_arr(da.values)]]],
        ["dims", [[",".join(map(str, da.dims)), EMPTY]]],
        ["name", [[str(da.name), EMPTY]]],
    ]
    return {"k": "keyed", "m": m}


def c_frame(df) -> dict | None:
    if df is None or len(df) == 0:
        return None
    cols = [[str(c), c_arr(df[c].to_numpy())] for c in df.columns]
    idx = [int(i) if isinstance(i, (int, np.integer)) else _h(i) for i in df.index]
    return {"k": "frame", "i": idx, "c": sorted(cols, key=lambda x: x[0])}


def c_props(obj) -> list:
    """geometry / environment / characteristics: every instance attribute, by name."""
    it = []
    for k, v in sorted(vars(obj).items()):
        if k == "_numbytes":      # size cache, not a property of the detector
            continue
        if hasattr(v, "__dict__") and not isinstance(v, np.ndarray):
            for k2, v2 in sorted(vars(v).items()):
                it.append([f"{k}.{k2}", c_scalar(v2)])
        else:
            it.append([k, c_scalar(v)])
    return it


def _array_bucket(obj):
    if obj is None or getattr(obj, "_array", None) is None:
        return None
    return {"k": "arr", "a": c_arr(obj._array)}


def canon_detector(det) -> dict:
    import xarray as xr

    cont = {}
    ph = det._photon
    if ph is None or ph._array is None:
        cont["photon"] = None
    elif isinstance(ph._array, xr.DataArray):
        cont["photon"] = c_dataarray(ph._array)
    else:
        cont["photon"] = {"k": "arr", "a": c_arr(ph._array)}
    for b in ("pixel", "signal", "image"):
        cont[b] = _array_bucket(getattr(det, "_" + b))
    cont["phase"] = _array_bucket(getattr(det, "_phase", None))
    ch = det._charge
    if ch is None:
        cont["charge_array"] = cont["charge_frame"] = None
    else:
        arr = np.asarray(ch.array)
        cont["charge_array"] = {"k": "arr", "a": c_arr(arr)} if np.any(arr) else None
        cont["charge_frame"] = c_frame(ch.frame)
    cont["scene"] = None if det._scene is None else c_tree(det._scene.data)
    cont["data"] = None if det._data is None else c_tree(det._data)
    return dict(
        type=type(det).__name__,
        geometry=c_props(det.geometry), environment=c_props(det.environment),
        characteristics=c_props(det.characteristics),
        containers=cont,
    )


def record_canon(detector, tag=None):
    """Model function: record what a model at this pipeline position sees."""
    TRACE.append(dict(tag=tag, name=detector.current_running_model_name, step=int(detector.pipeline_count),
                      canon=canon_detector(detector)))
