"""Probe model for C10: records the argument values a model actually receives.

`capture` is an ordinary pyxel model function.  What it sees is appended to the sink of the *current
thread* (set by the driver around each `fitness` call), so that evaluations running in parallel threads
(dask / pygmo islands) are never mixed up.
"""
from __future__ import annotations

import threading

import numpy as np

TLS = threading.local()
# runs of the pipeline outside any `fitness` call (the final application of the champions' parameters in
# run_evolve, executed by dask in other threads): recorded here when the driver sets GLOBAL to a list
GLOBAL = None
GLOCK = threading.Lock()


def _enc(v):
    if isinstance(v, np.ndarray):
        if v.ndim == 0:
            return ["s", [float(v).hex()]]
        return ["v", [float(x).hex() for x in v.reshape(-1)]] if v.ndim == 1 else ["other", [repr(v.shape)]]
    if isinstance(v, (list, tuple)):
        try:
            return ["v", [float(x).hex() for x in v]]
        except Exception:  # noqa: BLE001
            return ["other", [repr(v)[:80]]]
    if isinstance(v, (bool, str)) or v is None:
        return ["other", [repr(v)[:80]]]
    try:
        return ["s", [float(v).hex()]]
    except Exception:  # noqa: BLE001
        return ["other", [repr(v)[:80]]]


def capture(detector, tag="m", **kwargs):
    """Record kwargs as {"<tag>.<arg>": [kind, [hex, ...]]} and write a pixel frame that depends on them."""
    sink = getattr(TLS, "sink", None)
    rec = {f"{tag}.{k}": _enc(v) for k, v in kwargs.items()}
    if sink is not None:
        sink.append(rec)
    elif GLOBAL is not None:
        with GLOCK:
            GLOBAL.append((threading.get_ident(), rec))
    tot = 0.0
    for k in sorted(kwargs):
        v = kwargs[k]
        try:
            tot += float(np.sum(np.abs(np.asarray(v, dtype=float))))
        except Exception:  # noqa: BLE001
            pass
    geo = detector.geometry
    base = detector.pixel.array if getattr(detector.pixel, "_array", None) is not None else 0.0
    detector.pixel.array = base + np.full((geo.row, geo.col), min(tot, 1e12))
