"""C02 probes: observe the clock and ALL six buckets (scene included) first / last in a step, and a
writer that follows a per-step plan.  Built on verif_probes (clock, write)."""
from __future__ import annotations

import numpy as np

import verif_probes as vp

LOG: list = []      # observations, in execution order
EXEC: list = [0]    # number of model calls executed (any probe of this module)
KEEP: list = []     # the detector objects seen (kept alive so that id() identifies the run an observation belongs to)

SENTINEL = -1       # "holds something that is not a constant integer frame" (only expected in junk)


def reset():
    LOG.clear()
    KEEP.clear()
    EXEC[0] = 0


def _const(arr):
    a = np.asarray(arr)
    if a.size == 0:
        return SENTINEL
    v = a.reshape(-1)[0]
    try:
        if not bool(np.all(a == v)):
            return SENTINEL
        fv = float(v)
        if fv != int(fv):
            return SENTINEL
        return int(fv)
    except Exception:  # noqa: BLE001
        return SENTINEL


def buckets(detector) -> dict:
    """Per bucket: None = empty / uninitialised, else the value of the constant frame it holds."""
    out = {}
    # scene: number of sources
    try:
        data = detector.scene.data
        out["scene"] = len(data["list"].children) if "list" in data else (None if data.is_empty else SENTINEL)
    except Exception:  # noqa: BLE001
        out["scene"] = SENTINEL
    ph = detector.photon
    a = getattr(ph, "_array", None)
    out["photon"] = None if a is None else _const(getattr(a, "values", a))
    ch = detector.charge
    try:
        arr = np.asarray(ch._array)
        if ch._frame.empty:
            out["charge"] = None if not np.any(arr) else _const(arr)
        else:
            out["charge"] = SENTINEL
    except Exception:  # noqa: BLE001
        out["charge"] = SENTINEL
    for b in ("pixel", "signal", "image"):
        a = getattr(getattr(detector, b), "_array", None)
        out[b] = None if a is None else _const(a)
    return out


def clock_rp(detector) -> dict:
    """The same clock read through detector.readout_properties (a second public path)."""
    rp = detector.readout_properties
    return dict(time=float(rp.time), time_step=float(rp.time_step), absolute_time=float(rp.absolute_time),
                pipeline_count=int(rp.pipeline_count), is_first_readout=bool(rp.is_first_readout),
                is_last_readout=bool(rp.is_last_readout))


def _hx(v) -> str:
    v = float(v)
    return "nan" if v != v else v.hex()


def rp_public(detector):
    """Public state of the ReadoutProperties object the detector carries (None: no readout defined)."""
    if not detector.is_dynamic:
        return None
    rp = detector.readout_properties
    return dict(times=[_hx(t) for t in rp.times], steps=[_hx(t) for t in rp.steps], num=int(rp.num_steps),
                start=_hx(rp.start_time), nd=bool(rp.non_destructive), time=_hx(rp.time),
                step=_hx(rp.time_step), count=int(rp.pipeline_count))


def observe(detector, where="first"):
    EXEC[0] += 1
    if not any(d is detector for d in KEEP):
        KEEP.append(detector)
    LOG.append(dict(where=where, clock=vp.clock(detector), clock_rp=clock_rp(detector), buckets=buckets(detector),
                    det=id(detector), rp_times=[_hx(t) for t in detector.readout_properties.times]))


def _source():
    import xarray as xr

    ds = xr.Dataset(
        {"x": xr.DataArray([1.0], dims="ref"), "y": xr.DataArray([2.0], dims="ref"),
         "weight": xr.DataArray([3.0], dims="ref"),
         "flux": xr.DataArray([[1.0, 2.0]], dims=["ref", "wavelength"])},
        coords={"ref": [0], "wavelength": [500.0, 600.0]},
    )
    return ds


def add_scene_source(detector):
    detector.scene.add_source(_source())


def apply_write(detector, bucket, value, add):
    geo = detector.geometry
    shape = (geo.row, geo.col)
    if bucket == "scene":
        add_scene_source(detector)
    elif bucket == "charge":
        detector.charge.add_charge_array(np.full(shape, float(value)))
    else:
        vp.write(detector, bucket=bucket, value=value, add=bool(add))


def writer(detector, plan=None):
    """plan[i] = list of [bucket, value, add] applied at step i (indexed by detector.pipeline_count)."""
    EXEC[0] += 1
    i = int(detector.pipeline_count)
    ops = plan[i] if plan is not None and 0 <= i < len(plan) else []
    for bucket, value, add in ops:
        apply_write(detector, bucket, value, add)
