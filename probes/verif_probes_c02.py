"""C02 probes: observe the clock and ALL six buckets (scene included) first / last in a step, and a
writer that follows a per-step plan.  Built on verif_probes (clock, write)."""
from __future__ import annotations

import numpy as np

import verif_probes as vp

LOG: list = []      # observations, in execution order
EXEC: list = [0]    # number of model calls executed (any probe of this module)
KEEP: list = []     # the detector objects seen (kept alive so that id() identifies the run an observation belongs to)

SENTINEL = -1       # "holds something that is not a constant integer frame" (only expected in junk)


def reset():
    LOG.clear()
    KEEP.clear()
    EXEC[0] = 0


def _const(arr):
    a = np.asarray(arr)
    if a.size == 0:
        return SENTINEL
    v = a.reshape(-1)[0]
    try:
        if not bool(np.all(a == v)):
            return SENTINEL
        fv = float(v)
        if fv != int(fv):
            return SENTINEL
        return int(fv)
    except Exception:  # noqa: BLE001
        return SENTINEL


def _frame_const(detector):
    """The number of charges per pixel held in the particle dataframe, if it is the same in every pixel."""
    geo = detector.geometry
    fr = detector.charge._frame
    num = np.asarray(fr["number"], dtype=float)
    iv = np.floor_divide(np.asarray(fr["position_ver"], dtype=float), geo.pixel_vert_size).astype(int)
    ih = np.floor_divide(np.asarray(fr["position_hor"], dtype=float), geo.pixel_horz_size).astype(int)
    if np.any((iv < 0) | (iv >= geo.row) | (ih < 0) | (ih >= geo.col)):
        return SENTINEL
    tot = np.zeros((geo.row, geo.col))
    np.add.at(tot, (iv, ih), num)
    return _const(tot)


def buckets(detector) -> dict:
    """Per bucket: None = empty / uninitialised, else the value of the constant frame it holds."""
    out = {}
    # scene: number of sources
    try:
        data = detector.scene.data
        out["scene"] = len(data["list"].children) if "list" in data else (None if data.is_empty else SENTINEL)
    except Exception:  # noqa: BLE001
        out["scene"] = SENTINEL
    ph = detector.photon
    a = getattr(ph, "_array", None)
    out["photon"] = None if a is None else _const(getattr(a, "values", a))
    # the charge container holds two pieces of state: the 2-D array and the particle dataframe (read raw: the
    # public `array` property has a side effect on `_array`)
    ch = detector.charge
    try:
        arr = np.asarray(ch._array)
        out["charge"] = None if not np.any(arr) else _const(arr)
    except Exception:  # noqa: BLE001
        out["charge"] = SENTINEL
    try:
        out["cframe"] = None if ch._frame.empty else _frame_const(detector)
    except Exception:  # noqa: BLE001
        out["cframe"] = SENTINEL
    for b in ("pixel", "signal", "image"):
        a = getattr(getattr(detector, b), "_array", None)
        out[b] = None if a is None else _const(a)
    return out


def clock_rp(detector) -> dict:
    """The same clock read through detector.readout_properties (a second public path)."""
    rp = detector.readout_properties
    return dict(time=float(rp.time), time_step=float(rp.time_step), absolute_time=float(rp.absolute_time),
                pipeline_count=int(rp.pipeline_count), is_first_readout=bool(rp.is_first_readout),
                is_last_readout=bool(rp.is_last_readout))


def _hx(v) -> str:
    v = float(v)
    return "nan" if v != v else v.hex()


def rp_public(detector):
    """Public state of the ReadoutProperties object the detector carries (None: no readout defined)."""
    if not detector.is_dynamic:
        return None
    rp = detector.readout_properties
    return dict(times=[_hx(t) for t in rp.times], steps=[_hx(t) for t in rp.steps], num=int(rp.num_steps),
                start=_hx(rp.start_time), nd=bool(rp.non_destructive), time=_hx(rp.time),
                step=_hx(rp.time_step), count=int(rp.pipeline_count))


def observe(detector, where="first"):
    EXEC[0] += 1
    if not any(d is detector for d in KEEP):
        KEEP.append(detector)
    LOG.append(dict(where=where, clock=vp.clock(detector), clock_rp=clock_rp(detector), buckets=buckets(detector),
                    det=id(detector), rp_times=[_hx(t) for t in detector.readout_properties.times]))


def _source():
    import xarray as xr

    ds = xr.Dataset(
        {"x": xr.DataArray([1.0], dims="ref"), "y": xr.DataArray([2.0], dims="ref"),
         "weight": xr.DataArray([3.0], dims="ref"),
         "flux": xr.DataArray([[1.0, 2.0]], dims=["ref", "wavelength"])},
        coords={"ref": [0], "wavelength": [500.0, 600.0]},
    )
    return ds


def add_scene_source(detector):
    detector.scene.add_source(_source())


def _particles_kw(detector, value):
    """One cluster of `value` electrons at the centre of every pixel."""
    geo = detector.geometry
    n = geo.row * geo.col
    rr, cc = np.meshgrid(np.arange(geo.row), np.arange(geo.col), indexing="ij")
    z = np.zeros(n)
    return dict(particle_type="e", particles_per_cluster=np.full(n, float(value)), init_energy=z.copy(),
                init_ver_position=((rr.reshape(-1) + 0.5) * geo.pixel_vert_size).astype(float),
                init_hor_position=((cc.reshape(-1) + 0.5) * geo.pixel_horz_size).astype(float),
                init_z_position=z.copy(), init_ver_velocity=z.copy(), init_hor_velocity=z.copy(),
                init_z_velocity=z.copy())


def _cube(detector, value, dtype=None):
    import xarray as xr

    geo = detector.geometry
    return xr.DataArray(np.full((2, geo.row, geo.col), float(value), dtype=np.dtype(dtype or "float64")),
                        dims=["wavelength", "y", "x"],
                        coords={"wavelength": [500.0, 600.0]})


# the public ways of filling each container (the writer's plan names one per operation)
HOWS = {
    "scene": ("add_source",),
    "photon": ("array", "array_2d", "array_3d", "iadd", "iadd_3d", "array_iadd", "add_op"),
    "charge": ("array", "particles", "dataframe"),
    "pixel": ("array", "update", "iadd", "array_iadd", "inplace", "add_op"),
    "signal": ("array", "update", "iadd", "array_iadd", "inplace", "add_op"),
    "image": ("array", "update", "iadd", "array_iadd", "inplace", "add_op"),
}


def apply_write(detector, bucket, value, add, how=None, dtype=None):
    """Fill `bucket` with the constant `value` (or add it to what the bucket holds) through the public way `how`,
    as an array of `dtype` (default: float64, uint16 for the image)."""
    geo = detector.geometry
    shape = (geo.row, geo.col)
    if bucket == "scene":
        add_scene_source(detector)
        return
    if bucket == "charge":
        how = how or "array"
        if how == "array":
            detector.charge.add_charge_array(np.full(shape, float(value), dtype=np.dtype(dtype or "float64")))
        elif how == "particles":
            detector.charge.add_charge(**_particles_kw(detector, value))
        elif how == "dataframe":
            from pyxel.data_structure import Charge

            detector.charge.add_charge_dataframe(Charge.create_charges(**_particles_kw(detector, value)))
        else:
            raise RuntimeError(f"unknown way of filling charge: {how}")
        return
    if how is None:
        vp.write(detector, bucket=bucket, value=value, add=bool(add))
        return
    obj = getattr(detector, bucket)
    cur = getattr(obj, "_array", None)
    if bucket == "photon":
        if how in ("array_3d", "iadd_3d"):
            new = _cube(detector, value, dtype)
            if how == "iadd_3d":
                detector.photon += new          # (sets the cube when the container is empty)
            elif add and cur is not None:
                obj.array_3d = obj.array_3d + new
            else:
                obj.array_3d = new
            return
        new = np.full(shape, float(value), dtype=np.dtype(dtype or "float64"))
        if how == "iadd" or (how == "array_iadd" and cur is None):
            detector.photon += new
        elif how == "array_iadd":
            detector.photon.array += new
        elif how == "add_op":
            detector.photon + new               # Photon.__add__ modifies the container
        elif how == "array_2d":
            obj.array_2d = (obj.array_2d + new) if (add and cur is not None) else new
        elif how == "array":
            obj.array = (obj.array + new) if (add and cur is not None) else new
        else:
            raise RuntimeError(f"unknown way of filling photon: {how}")
        return
    dt = np.dtype(dtype or ("uint16" if bucket == "image" else "float64"))
    new = np.full(shape, value, dtype=dt)
    if how == "array":
        obj.array = (obj.array + new) if (add and cur is not None) else new
    elif how == "update":
        obj.update((obj.array + new) if (add and cur is not None) else new)
    elif how == "iadd" or (how in ("array_iadd", "inplace") and cur is None):
        if bucket == "pixel":
            detector.pixel += new
        elif bucket == "signal":
            detector.signal += new
        else:
            detector.image += new
    elif how == "array_iadd":
        obj.array += new
    elif how == "inplace":
        a = obj.array                           # the container's own array, modified in place
        np.add(a, new, out=a)
    elif how == "add_op":
        obj + new                               # ArrayBase.__add__ modifies the container
    else:
        raise RuntimeError(f"unknown way of filling {bucket}: {how}")


def writer(detector, plan=None):
    """plan[i] = list of [bucket, value, add(, how(, dtype))] applied at step i (indexed by detector.pipeline_count)."""
    EXEC[0] += 1
    i = int(detector.pipeline_count)
    ops = plan[i] if plan is not None and 0 <= i < len(plan) else []
    for op in ops:
        apply_write(detector, *op)
