"""Probe model for C19: writes a run-dependent constant into every array bucket.

value(run, bucket) = 16 * (run + 1) + index(bucket), index: photon 0, charge 1, pixel 2, signal 3, image 4
(the same formula is `val` in coq/theories/Model/Outputs.v)."""
import numpy as np

BUCKETS = ("photon", "charge", "pixel", "signal", "image")


def value(run: int, bucket: str) -> int:
    return 16 * (int(run) + 1) + BUCKETS.index(bucket)


def fill(detector, run=0):
    geo = detector.geometry
    shape = (geo.row, geo.col)
    r = int(run)
    detector.photon.array = np.full(shape, float(value(r, "photon")))
    detector.charge.add_charge_array(np.full(shape, float(value(r, "charge"))))
    detector.pixel.array = np.full(shape, float(value(r, "pixel")))
    detector.signal.array = np.full(shape, float(value(r, "signal")))
    detector.image.array = np.full(shape, value(r, "image"), dtype=np.uint16)
