"""Probe model for C19: writes a run-dependent constant into every array bucket.

value(run, bucket, epoch) = 256 * epoch + 16 * (run + 1) + index(bucket), index: photon 0, charge 1, pixel 2,
signal 3, image 4; epoch = which simulation of a history on one configuration object (0 for a single one)
(the same formula is `val` in coq/theories/Model/Outputs.v)."""
import numpy as np

BUCKETS = ("photon", "charge", "pixel", "signal", "image")


def value(run: int, bucket: str, epoch: int = 0) -> int:
    return 256 * int(epoch) + 16 * (int(run) + 1) + BUCKETS.index(bucket)


def fill(detector, run=0, epoch=0):
    geo = detector.geometry
    shape = (geo.row, geo.col)
    r, e = int(run), int(epoch)
    detector.photon.array = np.full(shape, float(value(r, "photon", e)))
    detector.charge.add_charge_array(np.full(shape, float(value(r, "charge", e))))
    detector.pixel.array = np.full(shape, float(value(r, "pixel", e)))
    detector.signal.array = np.full(shape, float(value(r, "signal", e)))
    detector.image.array = np.full(shape, value(r, "image", e), dtype=np.uint16)
