"""C06 probes: models that modify their own arguments in place, keep memory on the detector, draw random numbers."""
import numpy as np

import verif_probes


def mutates_array(detector, arr=None, scalar=0.0):
    """pixel := sum(arr) + scalar, then arr += 1 in place (when it is an ndarray)."""
    a = arr if isinstance(arr, np.ndarray) else np.array(arr, dtype=float)
    seen = float(np.sum(a))
    a += 1.0
    verif_probes.TRACE.append(dict(probe="mutates_array", step=int(detector.pipeline_count), seen=seen,
                                   run=verif_probes.RUN_TAG[0]))
    geo = detector.geometry
    detector.pixel.array = np.full((geo.row, geo.col), seen + float(scalar))


def _flatten(v, out):
    if isinstance(v, dict):
        for k in sorted(v, key=str):
            _flatten(v[k], out)
    elif isinstance(v, (list, tuple, np.ndarray)):
        for x in v:
            _flatten(x, out)
    elif v is not None:
        out.append(float(v))


def _bump(v):
    """Size-preserving in-place change of every MUTABLE container reachable from v (tuples are walked, not changed)."""
    if isinstance(v, np.ndarray):
        v += 1.0
    elif isinstance(v, list):
        for i, x in enumerate(v):
            if isinstance(x, (int, float)) and not isinstance(x, bool):
                v[i] = x + 1.0
            else:
                _bump(x)
    elif isinstance(v, dict):
        for k in list(v):
            x = v[k]
            if isinstance(x, (int, float)) and not isinstance(x, bool):
                v[k] = x + 1.0
            else:
                _bump(x)
    elif isinstance(v, tuple):
        for x in v:
            _bump(x)


def mutates_container(detector, seq=None, table=None, scalar=0.0):
    """pixel := sum of all numbers in `seq` and `table` + scalar; then every mutable container reachable from the
    two arguments (plain list, nested lists, lists inside a tuple, dict, ndarray) is modified IN PLACE
    (a model that normalises / consumes / sorts its own argument)."""
    flat = []
    _flatten(seq, flat)
    _flatten(table, flat)
    seen = float(sum(flat))
    _bump(seq)
    _bump(table)
    verif_probes.TRACE.append(dict(probe="mutates_container", step=int(detector.pipeline_count), seen=seen,
                                   run=verif_probes.RUN_TAG[0]))
    geo = detector.geometry
    base = detector.pixel.array if getattr(detector.pixel, "_array", None) is not None else 0.0
    detector.pixel.array = np.full((geo.row, geo.col), seen + float(scalar)) + base


def memory(detector, key="trap", inc=1.0):
    """A model that keeps state in the detector's OWN memory: the `_memory` dict ("the memory of the detector where
    trapped charges will be saved") and, when the detector has one, its persistence object (trapped charge).
    pixel += memory[key] + 2 * sum(trapped) + inc; then memory[key] += inc and trapped += inc."""
    mem = detector._memory
    prev = float(np.sum(mem[key])) if key in mem else 0.0
    pers = 0.0
    if detector.has_persistence():
        trapped = np.asarray(detector.persistence.trapped_charge_array, dtype=float)
        pers = float(trapped.reshape(-1)[0]) if trapped.size else 0.0
        detector.persistence.trapped_charge_array = trapped + float(inc)
    mem[key] = np.asarray(mem.get(key, np.zeros(1)), dtype=float) + float(inc)
    verif_probes.TRACE.append(dict(probe="memory", step=int(detector.pipeline_count), seen=prev, trapped=pers,
                                   run=verif_probes.RUN_TAG[0]))
    geo = detector.geometry
    base = detector.pixel.array if getattr(detector.pixel, "_array", None) is not None else 0.0
    detector.pixel.array = np.full((geo.row, geo.col), prev + 2.0 * pers + float(inc)) + base


def draws(detector, n=2, hi=4096):
    """A STOCHASTIC model without a seed of its own: it draws `n` integers below `hi` from numpy's global generator
    (the stream that `pipeline_seed` seeds) and adds their sum / 4 (a dyadic number: exact comparison) to the pixel bucket.
    How far the stream has moved when it returns depends on `n` - a parameter a sweep may vary."""
    vals = [int(v) for v in np.random.randint(0, int(hi), size=int(n))]
    verif_probes.TRACE.append(dict(probe="draws", step=int(detector.pipeline_count), draws=vals,
                                   run=verif_probes.RUN_TAG[0]))
    geo = detector.geometry
    base = detector.pixel.array if getattr(detector.pixel, "_array", None) is not None else 0.0
    detector.pixel.array = np.full((geo.row, geo.col), float(sum(vals)) / 4.0) + base


def photon_to_pixel(detector):
    """pixel += photon (so that the noise a photon-collection model added is visible in the compared bucket)."""
    base = detector.pixel.array if getattr(detector.pixel, "_array", None) is not None else 0.0
    detector.pixel.array = np.asarray(detector.photon.array, dtype=float) + base
