"""C06 probe: a model that modifies its own numpy-array argument in place."""
import numpy as np

import verif_probes


def mutates_array(detector, arr=None, scalar=0.0):
    """pixel := sum(arr) + scalar, then arr += 1 in place (when it is an ndarray)."""
    a = arr if isinstance(arr, np.ndarray) else np.array(arr, dtype=float)
    seen = float(np.sum(a))
    a += 1.0
    verif_probes.TRACE.append(dict(probe="mutates_array", step=int(detector.pipeline_count), seen=seen,
                                   run=verif_probes.RUN_TAG[0]))
    geo = detector.geometry
    detector.pixel.array = np.full((geo.row, geo.col), seen + float(scalar))
