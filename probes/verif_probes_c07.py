"""Probe models for C07 (importable from pipelines as `verif_probes_c07.<name>`).

`enc` writes an injective code of the argument values it RECEIVED into `pixel` (so the data under a
parameter label tells which run produced it, in any worker process), the number of earlier runs that
left a trace on the detector object it works on into `signal`, and sleeps for a data-dependent time
(completion order differs from submission order).

Code: the slots p0..p{nslots-1} are flattened to base-16 digits, least significant first:
    number v (integer 0..12)  -> digit v+1
    vector [v...]             -> 15, v+1 ..., 14
With at most 12 digits the code is < 2^48 and exact in binary64.

`draw` draws from numpy's process-wide generator (like every stochastic pyxel model does inside the
`set_random_seed` bracket) and writes the numbers drawn into `pixel`; with `sync` the runs executing in
pool threads rendezvous so that the second enters its seeded block while the first is still inside
(the witness schedule of C07_seeded_threads_refuted).
"""
from __future__ import annotations

import threading
import time

import numpy as np

_LOCK = threading.Condition()
_ARRIVED: dict = {}


EXEC = {"n": 0}          # executions of enc / encs in THIS process (threads included) since reset()


def reset():
    with _LOCK:
        _ARRIVED.clear()
        EXEC["n"] = 0


def _count():
    with _LOCK:
        EXEC["n"] += 1


def _arrive(name: str):
    with _LOCK:
        _ARRIVED[name] = _ARRIVED.get(name, 0) + 1
        _LOCK.notify_all()


def _wait(name: str, n: int, timeout: float) -> bool:
    end = time.time() + timeout
    with _LOCK:
        while _ARRIVED.get(name, 0) < n:
            left = end - time.time()
            if left <= 0:
                return False
            _LOCK.wait(left)
    return True


def encode(vals) -> tuple[int, int]:
    digits, total = [], 0
    for v in vals:
        if isinstance(v, (list, tuple, np.ndarray)):
            digits.append(15)
            for x in v:
                digits.append(int(round(float(x))) + 1)
                total += int(round(float(x)))
            digits.append(14)
        else:
            digits.append(int(round(float(v))) + 1)
            total += int(round(float(v)))
    code = 0
    for i, d in enumerate(digits):
        if not 1 <= d <= 15:
            d = 13  # out-of-alphabet value: visible as a wrong digit
        code += d * 16 ** i
    return code, total


def decode(code: int):
    """-> list of numbers / lists (the inverse of encode), or None if malformed."""
    out, cur = [], None
    code = int(code)
    while code > 0:
        d = code % 16
        code //= 16
        if d == 15:
            if cur is not None:
                return None
            cur = []
        elif d == 14:
            if cur is None:
                return None
            out.append(cur)
            cur = None
        elif d == 0:
            return None
        else:
            (out if cur is None else cur).append(d - 1)
    return out if cur is None else None


def enc(detector, p0=0.0, p1=0.0, p2=0.0, nslots=1, sleep_scale=0.0, sleep_mult=1, slow_sum=None):
    _count()
    vals = [p0, p1, p2][: int(nslots)]
    code, total = encode(vals)
    mem = getattr(detector, "_c07_mem", 0)
    detector._c07_mem = mem + 1
    geo = detector.geometry
    detector.pixel.array = np.full((geo.row, geo.col), float(code))
    detector.signal.array = np.full((geo.row, geo.col), float(mem))
    _aux(detector, float(code), total)
    if sleep_scale:
        if slow_sum is not None:
            s = sleep_scale if total == int(slow_sum) else 0.0
        else:
            s = sleep_scale * ((int(sleep_mult) * total) % 5) / 4.0
        time.sleep(s)


def _aux(detector, code, total):
    """the same code in one more bucket (photon), so that a result whose buckets are mixed up between runs or
    between variables is visible"""
    geo = detector.geometry
    try:
        detector.photon.array = np.full((geo.row, geo.col), float(code))
    except Exception:  # noqa: BLE001  (a detector type without this bucket)
        pass


def encs(detector, ident=0, slots="", a=0.0, b=0.0, c=0.0, d=0.0, sleep_scale=0.0, sleep_mult=1, slow_sum=None,
         trace=-1):
    """One of SEVERAL probe instances in a pipeline (parameters with the same short name live in different
    model instances).  `slots` = "a:0,c:2": the value RECEIVED for argument `a` is written (as the injective
    code of `encode([value])`) into pixel[0, 0], the one for `c` into pixel[0, 2]; the other columns are left
    as they are.  signal[0, slot] = how many runs had executed THIS instance on the detector object before.
    `trace` >= 0: column `trace` of pixel is the EXECUTION TRACE of the run: every instance that executes (whether it
    owns a slot or not) appends the base-16 digit ident+1, so the column tells which model instances ran in this run
    and in which order -- in any worker process (a model that is switched off must not show up)."""
    _count()
    got = dict(a=a, b=b, c=c, d=d)
    geo = detector.geometry
    try:
        pix = np.array(detector.pixel.array, dtype=float)
    except Exception:  # noqa: BLE001  (not initialised yet)
        pix = np.zeros((geo.row, geo.col))
    try:
        sig = np.array(detector.signal.array, dtype=float)
    except Exception:  # noqa: BLE001
        sig = np.zeros((geo.row, geo.col))
    mems = getattr(detector, "_c07_mems", None)
    if mems is None:
        mems = {}
        detector._c07_mems = mems
    mem = mems.get(int(ident), 0)
    mems[int(ident)] = mem + 1
    total = 0
    for item in str(slots).split(","):
        if not item:
            continue
        name, slot = item.split(":")
        # "T": not an argument of this model but a setting of the detector (swept with a 'detector.*' key)
        value = detector.environment.temperature if name == "T" else got[name]
        code, t = encode([value])
        total += t
        pix[:, int(slot)] = float(code)
        sig[:, int(slot)] = float(mem)
    if int(trace) >= 0:
        pix[:, int(trace)] = pix[:, int(trace)] * 16.0 + float(int(ident) % 13 + 1)
        if pix.shape[1] > int(trace) + 1:
            # one more column: the SETTINGS of the detector this run works on (small integers), as one code
            pix[:, int(trace) + 1] = float(encode(detector_settings(detector))[0])
    detector.pixel.array = pix
    detector.signal.array = sig
    try:
        detector.photon.array = pix.copy()
    except Exception:  # noqa: BLE001
        pass
    if sleep_scale:
        if slow_sum is not None:
            s = sleep_scale if total == int(slow_sum) else 0.0
        else:
            s = sleep_scale * ((int(sleep_mult) * total) % 5) / 4.0
        time.sleep(s)


def detector_settings(detector):
    """settings of the sub-objects of the detector (characteristics, geometry) and of the readout a model may read"""
    out = []
    for get in (lambda: detector.characteristics.pre_amplification, lambda: detector.characteristics.full_well_capacity,
                lambda: detector.characteristics.adc_bit_resolution, lambda: detector.geometry.total_thickness,
                lambda: detector.geometry.pixel_vert_size, lambda: detector.geometry.pixel_horz_size,
                # ... and of the readout this run was started with (time of the only step, destructive or not)
                lambda: detector.time, lambda: 1.0 if detector.non_destructive_readout else 0.0):
        try:
            out.append(float(get()))
        except Exception:  # noqa: BLE001  (setting lost)
            out.append(12.0)
    return out


def draw(detector, p0=0.0, n=1, sync=False, first=0.0, pause=0.0):
    """Draw n numbers from the process-wide generator; pixel = d0 + d1 * 2^20."""
    threaded = threading.current_thread() is not threading.main_thread()
    if sync and threaded:
        _arrive("inside")
        _wait("inside", 2, 3.0)          # both runs are inside their seeded block
        if float(p0) != float(first):
            _wait("first_drawn", 1, 3.0)  # the other run draws first
    vals = []
    for _ in range(int(n)):
        vals.append(int(np.random.randint(0, 2 ** 20)))
        if pause:
            time.sleep(pause)
    if sync and threaded and float(p0) == float(first):
        _arrive("first_drawn")
    code = 0
    for i, v in enumerate(vals[:2]):
        code += v * (2 ** 20) ** i
    geo = detector.geometry
    detector.pixel.array = np.full((geo.row, geo.col), float(code))
    detector.signal.array = np.zeros((geo.row, geo.col))


def calprobe(detector, pattern, gain=1.0, bias=0.0):
    """pixel += gain * pattern + bias (calibration cases: `gain` and `bias` are the fitted variables; an instance
    that is switched off must leave no trace in the simulated data)"""
    p = np.array(pattern, dtype=float)
    try:
        prev = np.array(detector.pixel.array, dtype=float)
    except Exception:  # noqa: BLE001  (not initialised yet)
        prev = np.zeros(p.shape)
    detector.pixel.array = prev + float(gain) * p + float(bias)


def absdiff(simulated, target, weighting=None):
    """figure of merit of the calibration cases: sum |target - simulated| (exact on dyadic data)"""
    return float(np.nansum(np.abs(np.asarray(target, dtype=float) - np.asarray(simulated, dtype=float))))


class SlowProblem:
    """A tiny pygmo problem whose evaluation time depends on the candidate (C07 islands / DaskBFE)."""

    def __init__(self, scale=0.0):
        self.scale = scale

    def fitness(self, x):
        if self.scale:
            time.sleep(self.scale * (int(x[0] * 997) % 5))
        return [float(int(x[0] * 1024) + 3 * int(x[1] * 1024))]

    def get_bounds(self):
        return ([0.0, 0.0], [1.0, 1.0])
