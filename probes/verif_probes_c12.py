"""Probes of property C12: a fitness function that takes extra arguments (so that a configuration file can carry
`fitness_function.arguments`)."""
import numpy as np


def fitness(simulated, target, weighting=None, scale: float = 1.0, offset: float = 0.0, tag: str = "") -> float:
    """sum of absolute residuals, scaled and shifted by the configured arguments"""
    diff = np.abs(np.asarray(simulated, dtype=float) - np.asarray(target, dtype=float))
    if weighting is not None:
        diff = diff * weighting
    return float(np.sum(diff)) * scale + offset
