"""Probe model for C11: writes a non-uniform, parameter-dependent frame into a bucket.

    frame[y, x] = gain * pattern[y][x] * (step + 1) + offset + bias

`gain` and `bias` are the calibrated parameters, `offset` is the per-target input argument, `pattern` is a fixed
integer-valued 2-D list of the detector's shape.  With integer (or dyadic) gain/offset every value is
exactly representable, so fitness values are exact rationals.
"""
from __future__ import annotations

import numpy as np


def pattern(detector, pattern, gain=1.0, offset=0.0, bias=0.0, bucket="pixel", per_step=True):
    p = np.array(pattern, dtype=float)
    k = float(int(detector.pipeline_count) + 1) if per_step else 1.0
    arr = float(gain) * p * k + float(offset) + float(bias)
    if bucket == "image":
        detector.image.array = arr.astype(np.uint64)
    else:
        getattr(detector, bucket).array = arr
