"""Probe model functions of C01 (importable as `verif_probes_c01.<name>` from generated pipelines)."""
from __future__ import annotations

import verif_probes as vp


def grow(detector, **kwargs):
    """Record the call exactly like `verif_probes.record`, then change the container arguments IN PLACE:
    every list-valued argument, and every list directly inside a dict-valued argument, gets its own
    length appended (Model/Pipeline.v: grow_kwargs).  A model working in place on its arguments is
    legal pyxel usage; what it must never do is change what ANOTHER pipeline object's models receive."""
    vp.record(detector, **kwargs)          # deep-copies kwargs before they are touched below
    for v in kwargs.values():
        if isinstance(v, list):
            v.append(len(v))
        elif isinstance(v, dict):
            for x in v.values():
                if isinstance(x, list):
                    x.append(len(x))
