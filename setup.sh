#!/bin/bash
# MANIFEST.setup_cmd: build the static Coq library (Lib, Model, Proofs) with a full .vo make. Offline.
set -e
cd "$(dirname "${BASH_SOURCE[0]}")"
export PYTHONDONTWRITEBYTECODE=1
/venv/bin/python -B - <<'PY'
import sys
sys.path.insert(0, ".")
from harness import core
ok, out = core.ensure_lib()
print(out[-3000:])
sys.exit(0 if ok else 1)
PY
# warm numba / import caches are not needed; checks rebuild what they need from /repo's working tree
echo "setup done"
