"""pyxel/util/image.py + pyxel/inputs/loader.py -> Gen_C20.v

Extracted (fail closed on any other shape).  The reading is by NORMALISATION, not by statement shape: private helper
functions of the same module are inlined, single-assignment local aliases and names bound once at module level are
substituted, tests are decided (if/elif == guard clauses with early returns == match == dispatch dict == conditional
expression), docstrings / annotations / logging / late imports / message texts are never read.
  * class Alignment(Enum): value string -> member                      -> src_align_names
  * _set_relative_position: for EACH member the body is partially evaluated with `alignment` = that member (_AlignEval);
    the pair of integer expressions over array_x/array_y/output_x/output_y that is returned   -> src_align
    (parameters may be renamed: their roles are then read from the one call in fit_into_array)
  * load_cropped_and_aligned_image: is it decorated with lru_cache, its maxsize, its parameter list
    (= the memoisation key)                                             -> src_memoised, src_memo_maxsize, src_memo_key
  * load_image: the separators tried for .txt/.data, in order = what the one loop around
    np.loadtxt(delimiter=<loop variable>) iterates over — in load_image or in a private helper it calls; the list may be
    written in place, bound once locally / at module level, or handed to the helper as an argument  -> src_delims
    (how the loop stops and how failure is reported is behaviour: judged by the correspondence, not read)
  * what could keep loaded content between two calls, in pyxel/inputs/loader.py, pyxel/util/image.py and the two
    loading models: caching decorators on any function, module-level containers that a function mutates
    (subscript store / del, mutating method call, `global`), mutable default arguments, attributes stored on
    functions                                                            -> src_loader_state (names; [] = none)
  * the call sites of the two loading models (photon_collection.load_image, charge_generation.load_charge): an abstract
    evaluation (_ModelEval) of the body with the optional features at their defaults: what reaches
    load_cropped_and_aligned_image as shape / filename / position_x / position_y / align / allow_smaller_array, the
    scaling factor as exponents of (detector.time_step, time_scale, multiplier), and that the scaled array is
    added to the bucket                                                  -> src_photon_call, src_charge_call
"""
from __future__ import annotations

import ast
from pathlib import Path

from .common import HEADER, body_no_doc, fail, find_func, parse

MEMBERS = {"center": "Center", "top_left": "TopLeft", "top_right": "TopRight",
           "bottom_left": "BottomLeft", "bottom_right": "BottomRight"}
VARS = {"array_x": "ax", "array_y": "ay", "output_x": "ox", "output_y": "oy"}
KEYS = {"shape": "KShape", "filename": "KFile", "position_x": "KPosX", "position_y": "KPosY",
        "align": "KAlign", "allow_smaller_array": "KAllow"}
DELIMS = {"\t": "DTab", " ": "DSpace", ",": "DComma", "|": "DBar", ";": "DSemicolon"}

PRELUDE = (HEADER +
           "From Coq Require Import ZArith List String.\n"
           "From PyxelV Require Import Model.Placement Model.Memo Model.Delim.\n"
           "Import ListNotations.\nOpen Scope Z_scope.\n")


def _posint(node) -> int:
    if isinstance(node, ast.Constant) and isinstance(node.value, int) and not isinstance(node.value, bool) \
            and node.value > 0:
        return node.value
    fail(node, "expected a positive integer literal")


def expr(node: ast.AST) -> str:
    """Integer expression -> Gallina (Z).  int(e / c) truncates toward zero = Z.quot; e // c = Z.div."""
    if isinstance(node, ast.Name):
        if node.id not in VARS:
            fail(node, "unknown variable in an alignment expression")
        return VARS[node.id]
    if isinstance(node, ast.Constant) and isinstance(node.value, int) and not isinstance(node.value, bool):
        return f"({node.value})"
    if isinstance(node, ast.UnaryOp) and isinstance(node.op, ast.USub):
        return f"(- {expr(node.operand)})"
    if isinstance(node, ast.BinOp):
        if isinstance(node.op, (ast.Add, ast.Sub, ast.Mult)):
            op = {ast.Add: "+", ast.Sub: "-", ast.Mult: "*"}[type(node.op)]
            return f"({expr(node.left)} {op} {expr(node.right)})"
        if isinstance(node.op, ast.FloorDiv):
            return f"(Z.div {expr(node.left)} {_posint(node.right)})"
        fail(node, "operator not accepted in an alignment expression")
    if (isinstance(node, ast.Call) and ast.unparse(node.func) in ("int", "math.trunc", "trunc")
            and len(node.args) == 1 and not node.keywords):
        a = node.args[0]
        if isinstance(a, ast.BinOp) and isinstance(a.op, ast.Div):
            return f"(Z.quot {expr(a.left)} {_posint(a.right)})"
        return expr(a)
    fail(node, "expression shape not accepted")


def _enum(tree) -> list[tuple[str, str]]:
    cls = [n for n in tree.body if isinstance(n, ast.ClassDef) and n.name == "Alignment"]
    if len(cls) != 1:
        fail(None, "class Alignment not found once")
    out = []
    for st in body_no_doc(cls[0]):  # type: ignore[arg-type]
        if (isinstance(st, ast.Assign) and len(st.targets) == 1 and isinstance(st.targets[0], ast.Name)
                and isinstance(st.value, ast.Constant) and isinstance(st.value.value, str)):
            nm = st.targets[0].id
            if nm not in MEMBERS:
                fail(st, "unknown Alignment member")
            out.append((st.value.value, MEMBERS[nm]))
        else:
            fail(st, "Alignment body must be `name = \"string\"` lines")
    if sorted(m for _, m in out) != sorted(MEMBERS.values()):
        fail(cls[0], "Alignment must have exactly the five members")
    return out


# ------------------------------------------------------------------------------ general normalisations
LOG_HEADS = {"logging", "logger", "log", "_logger", "_log", "LOGGER", "LOG", "warnings", "print"}


def _module_funcs(tree) -> dict:
    return {n.name: n for n in tree.body if isinstance(n, ast.FunctionDef)}


def _stores(scope, name) -> int:
    """How often `name` is bound inside `scope` (assignment targets, loop / with / except / walrus targets, global)."""
    k = 0
    for n in ast.walk(scope):
        if isinstance(n, ast.Name) and n.id == name and isinstance(n.ctx, (ast.Store, ast.Del)):
            k += 1
        elif isinstance(n, (ast.Global, ast.Nonlocal)) and name in n.names:
            k += 2
        elif isinstance(n, ast.ExceptHandler) and n.name == name:
            k += 1
        elif isinstance(n, (ast.Import, ast.ImportFrom)) and any((al.asname or al.name.split(".")[0]) == name for al in n.names):
            k += 1
        elif isinstance(n, (ast.FunctionDef, ast.AsyncFunctionDef, ast.ClassDef)) and n is not scope and n.name == name:
            k += 1
    return k


def module_const(tree, name):
    """The value of a name bound exactly once in the whole module, at module level (a constant moved out of a
    function); None if there is no such binding."""
    binds = [st for st in tree.body
             if (isinstance(st, ast.Assign) and len(st.targets) == 1 and isinstance(st.targets[0], ast.Name)
                 and st.targets[0].id == name)
             or (isinstance(st, ast.AnnAssign) and isinstance(st.target, ast.Name) and st.target.id == name
                 and st.value is not None)]
    if len(binds) != 1 or _stores(tree, name) != 1:
        return None
    return binds[0].value


def _params(fn) -> list[str]:
    if fn.args.vararg or fn.args.kwarg:
        fail(fn, "*args / **kwargs not accepted")
    return [a.arg for a in fn.args.posonlyargs + fn.args.args + fn.args.kwonlyargs]


def _defaults(fn) -> dict:
    pos = fn.args.posonlyargs + fn.args.args
    out = dict(zip([a.arg for a in pos[len(pos) - len(fn.args.defaults):]], fn.args.defaults))
    out.update({a.arg: d for a, d in zip(fn.args.kwonlyargs, fn.args.kw_defaults) if d is not None})
    return out


def bind_call(fn, call: ast.Call) -> dict:
    """parameter name -> argument node of `call` (defaults filled in); fails closed on * / ** arguments."""
    names = [a.arg for a in fn.args.posonlyargs + fn.args.args]
    _params(fn)
    if any(isinstance(a, ast.Starred) for a in call.args) or any(k.arg is None for k in call.keywords) \
            or len(call.args) > len(names):
        fail(call, "call shape not accepted")
    out = dict(zip(names, call.args))
    for k in call.keywords:
        if k.arg in out or k.arg not in names + [a.arg for a in fn.args.kwonlyargs]:
            fail(call, "keyword not accepted")
        out[k.arg] = k.value
    for p, d in _defaults(fn).items():
        out.setdefault(p, d)
    if sorted(out) != sorted(_params(fn)):
        fail(call, "missing argument")
    return out


class _Subst(ast.NodeTransformer):
    def __init__(self, env):
        self.env = env

    def visit_Name(self, node):
        if isinstance(node.ctx, ast.Load) and node.id in self.env:
            return self.env[node.id]
        return node


def subst(node, env):
    import copy
    return _Subst(env).visit(copy.deepcopy(node)) if env else node


def _is_doc_or_noise(st) -> bool:
    """Statements without effect on what is extracted: docstrings / bare constants, pass, late imports, logging /
    warnings / print calls."""
    if isinstance(st, (ast.Pass, ast.Import, ast.ImportFrom)):
        return True
    if isinstance(st, ast.Expr):
        if isinstance(st.value, ast.Constant):
            return True
        if isinstance(st.value, ast.Call):
            head = _attr_chain(st.value.func)
            if head is not None and head.split(".")[0] in LOG_HEADS:
                return True
    return False


# ------------------------------------------------------------------------------ _set_relative_position
class _AlignEval:
    """Partial evaluation of `_set_relative_position` (and the private helpers it calls) for ONE known member of
    Alignment: which pair of integer expressions is returned.  Accepts any mix of if/elif chains, guard clauses with
    early returns, inverted tests, `match`, `in (..)` tests, conditional expressions, dispatch dicts built in the
    function or bound once at module level, local aliases, and calls of private helper functions of the module
    (inlined).  Every test must be decidable from the member alone; anything else fails closed."""

    def __init__(self, tree, enum_values: dict, member: str, depth=0):
        self.tree, self.values, self.member = tree, enum_values, member
        self.funcs = _module_funcs(tree)
        self.depth = depth

    # -- values that a test may compare: ('m', member) / ('s', string)
    def aval(self, node):
        if isinstance(node, ast.Constant) and isinstance(node.value, str):
            return ("s", node.value)
        if isinstance(node, ast.Attribute) and isinstance(node.value, ast.Name) and node.value.id == "Alignment" \
                and node.attr in MEMBERS:
            return ("m", node.attr)
        if isinstance(node, ast.Name) and node.id == "\0member":
            return ("m", self.member)
        if isinstance(node, ast.Attribute) and node.attr in ("value", "name"):
            b = self.aval(node.value)
            if b and b[0] == "m":
                return ("s", self.values[b[1]] if node.attr == "value" else b[1])
        if isinstance(node, ast.Call) and isinstance(node.func, ast.Name) and node.func.id == "Alignment" \
                and len(node.args) == 1 and not node.keywords:
            b = self.aval(node.args[0])
            if b and b[0] == "m":
                return b
            if b and b[0] == "s":
                hit = [m for m, v in self.values.items() if v == b[1]]
                if len(hit) == 1:
                    return ("m", hit[0])
        return None

    def cond(self, node):
        if isinstance(node, ast.Constant) and isinstance(node.value, bool):
            return node.value
        if isinstance(node, ast.UnaryOp) and isinstance(node.op, ast.Not):
            return not self.cond(node.operand)
        if isinstance(node, ast.BoolOp):
            vals = [self.cond(v) for v in node.values]
            return all(vals) if isinstance(node.op, ast.And) else any(vals)
        if isinstance(node, ast.Compare):
            left, res = node.left, True
            for op, right in zip(node.ops, node.comparators):
                a = self.aval(left)
                if a is None:
                    fail(node, "test is not decided by the alignment member alone")
                if isinstance(op, (ast.In, ast.NotIn)):
                    if not isinstance(right, (ast.Tuple, ast.List, ast.Set)):
                        fail(node, "membership test shape")
                    bs = [self.aval(e) for e in right.elts]
                    if any(b is None for b in bs):
                        fail(node, "membership test shape")
                    r = a in bs
                    r = r if isinstance(op, ast.In) else not r
                else:
                    b = self.aval(right)
                    if b is None or b[0] != a[0] or not isinstance(op, (ast.Eq, ast.Is, ast.NotEq, ast.IsNot)):
                        fail(node, "test is not decided by the alignment member alone")
                    r = (a == b) if isinstance(op, (ast.Eq, ast.Is)) else (a != b)
                res, left = res and r, right
            return res
        fail(node, "test is not decided by the alignment member alone")

    # -- expressions: reduce dispatch dicts, conditional expressions, helper calls; the rest is left to expr()
    def reduce(self, node):
        if isinstance(node, ast.IfExp):
            return self.reduce(node.body if self.cond(node.test) else node.orelse)
        if isinstance(node, ast.Name) and isinstance(node.ctx, ast.Load) and node.id not in VARS and node.id != "\0member":
            v = module_const(self.tree, node.id)
            if v is not None:
                return self.reduce(v)
        if isinstance(node, ast.Subscript) and isinstance(self.reduce(node.value), ast.Dict):
            d, key = self.reduce(node.value), self.aval(node.slice)
            if key is None or any(k is None or self.aval(k) is None for k in d.keys):
                fail(node, "dispatch dict shape")
            for v in d.values:                 # every entry is evaluated when the dict is built: none may raise
                self.pair(v)
            hit = [v for k, v in zip(d.keys, d.values) if self.aval(k) == key]
            if not hit:
                return None                    # KeyError
            return self.reduce(hit[-1])
        if isinstance(node, ast.Subscript) and isinstance(node.slice, ast.Constant) and node.slice.value in (0, 1):
            base = self.reduce(node.value)
            if isinstance(base, ast.Tuple) and len(base.elts) == 2:
                return self.reduce(base.elts[node.slice.value])
        if isinstance(node, ast.Call) and isinstance(node.func, ast.Name) and node.func.id in self.funcs \
                and node.func.id != "_set_relative_position":
            if self.depth > 6:
                fail(node, "helper calls nested too deeply")
            fn = self.funcs[node.func.id]
            env = {p: self.reduce(a) for p, a in bind_call(fn, node).items()}
            if any(v is None for v in env.values()):
                return None
            kind, val = _AlignEval(self.tree, self.values, self.member, self.depth + 1).block(body_no_doc(fn), env)
            if kind != "return":
                return None if kind == "raise" else fail(node, "helper does not return a value")
            return val
        if isinstance(node, ast.Tuple):
            elts = [self.reduce(e) for e in node.elts]
            if any(e is None for e in elts):
                return None
            return ast.Tuple(elts=elts, ctx=ast.Load())
        if isinstance(node, ast.BinOp):
            l, r = self.reduce(node.left), self.reduce(node.right)
            if l is None or r is None:
                return None
            return ast.BinOp(left=l, op=node.op, right=r)
        if isinstance(node, ast.UnaryOp):
            o = self.reduce(node.operand)
            return None if o is None else ast.UnaryOp(op=node.op, operand=o)
        if isinstance(node, ast.Call) and ast.unparse(node.func) in ("int", "math.trunc", "trunc") \
                and len(node.args) == 1 and not node.keywords:
            a = self.reduce(node.args[0])
            return None if a is None else ast.Call(func=node.func, args=[a], keywords=[])
        return node

    def pair(self, node):
        node = self.reduce(node)
        if node is None:
            return None
        if not isinstance(node, ast.Tuple) or len(node.elts) != 2:
            fail(node, "the result must be a pair `<y>, <x>`")
        return expr(node.elts[0]), expr(node.elts[1])

    # -- statements
    def block(self, stmts, env):
        """-> ('return', node) | ('raise', None) | ('fall', env)."""
        env = dict(env)
        for st in stmts:
            if _is_doc_or_noise(st):
                continue
            if isinstance(st, ast.AnnAssign) and st.value is not None:
                st = ast.Assign(targets=[st.target], value=st.value, lineno=st.lineno)
            if isinstance(st, ast.Assign) and len(st.targets) == 1:
                tgt, val = st.targets[0], subst(st.value, env)
                if isinstance(tgt, ast.Name):
                    env[tgt.id] = val
                    continue
                if isinstance(tgt, ast.Tuple) and isinstance(val, ast.Tuple) and len(tgt.elts) == len(val.elts) \
                        and all(isinstance(e, ast.Name) for e in tgt.elts):
                    env.update({e.id: v for e, v in zip(tgt.elts, val.elts)})
                    continue
                fail(st, "assignment shape")
            if isinstance(st, ast.Return):
                if st.value is None:
                    fail(st, "bare return")
                return "return", subst(st.value, env)
            if isinstance(st, ast.Raise):
                return "raise", None
            if isinstance(st, ast.If):
                branch = st.body if self.cond(subst(st.test, env)) else st.orelse
                kind, val = self.block(branch, env)
                if kind != "fall":
                    return kind, val
                env = val
                continue
            if isinstance(st, ast.Match):
                subj = self.aval(subst(st.subject, env))
                if subj is None:
                    fail(st, "match subject is not the alignment member")
                chosen = None
                for case in st.cases:
                    if case.guard is not None and not self.cond(subst(case.guard, env)):
                        continue
                    if self.pattern(case.pattern, subj):
                        chosen = case
                        break
                if chosen is None:
                    continue
                kind, val = self.block(chosen.body, env)
                if kind != "fall":
                    return kind, val
                env = val
                continue
            if isinstance(st, ast.Assert):
                if self.cond(subst(st.test, env)):
                    continue
                return "raise", None
            fail(st, "statement not accepted in _set_relative_position")
        return "fall", env

    def pattern(self, pat, subj) -> bool:
        if isinstance(pat, ast.MatchAs) and pat.pattern is None and pat.name is None:
            return True
        if isinstance(pat, ast.MatchOr):
            return any(self.pattern(p, subj) for p in pat.patterns)
        if isinstance(pat, ast.MatchValue):
            b = self.aval(pat.value)
            if b is None or b[0] != subj[0]:
                fail(pat, "case pattern must be an Alignment member")
            return b == subj
        fail(pat, "case pattern not accepted")


def _roles(tree, fn) -> dict:
    """parameter of _set_relative_position -> role (array_x/array_y/output_x/output_y/alignment).  The documented
    names are taken as they are; renamed parameters are followed to the one call in fit_into_array."""
    names = _params(fn)
    if sorted(names) == sorted(list(VARS) + ["alignment"]):
        return {n: n for n in names}
    caller = find_func(tree, "fit_into_array")
    calls = [c for c in ast.walk(caller) if isinstance(c, ast.Call) and isinstance(c.func, ast.Name)
             and c.func.id == "_set_relative_position"]
    users = [c for c in ast.walk(tree) if isinstance(c, ast.Name) and c.id == "_set_relative_position"]
    if len(calls) != 1 or len(users) != 1 or len(caller.args.args) < 2:
        fail(fn, "_set_relative_position: renamed parameters need exactly one call, in fit_into_array")
    p_arr, p_shape = caller.args.args[0].arg, caller.args.args[1].arg
    local = {}
    for st in ast.walk(caller):
        if isinstance(st, ast.Assign) and len(st.targets) == 1 and isinstance(st.targets[0], ast.Tuple) \
                and len(st.targets[0].elts) == 2 and all(isinstance(e, ast.Name) for e in st.targets[0].elts):
            a, b = (e.id for e in st.targets[0].elts)
            src = ast.unparse(st.value)
            kinds = {f"{p_arr}.shape": ("array_y", "array_x"), p_shape: ("output_y", "output_x"),
                     "output.shape": ("output_y", "output_x")}
            if src in kinds and _stores(caller, a) == 1 and _stores(caller, b) == 1:
                local[a], local[b] = kinds[src]
    direct = {f"{p_arr}.shape[0]": "array_y", f"{p_arr}.shape[1]": "array_x",
              f"{p_shape}[0]": "output_y", f"{p_shape}[1]": "output_x"}
    out = {}
    for p, a in bind_call(fn, calls[0]).items():
        if isinstance(a, ast.Name) and a.id in local:
            out[p] = local[a.id]
        elif ast.unparse(a) in direct:
            out[p] = direct[ast.unparse(a)]
        elif isinstance(a, ast.Call) and ast.unparse(a.func) == "Alignment" and len(a.args) == 1:
            out[p] = "alignment"
        else:
            fail(a, "argument of _set_relative_position not understood")
    if sorted(out.values()) != sorted(list(VARS) + ["alignment"]):
        fail(calls[0], "_set_relative_position must receive the two array sizes, the two output sizes and the member")
    return out


def _align(tree, names=None) -> dict[str, tuple[str, str]]:
    fn = find_func(tree, "_set_relative_position")
    if fn.decorator_list:
        fail(fn, "decorator on _set_relative_position")
    roles = _roles(tree, fn)
    values = {m: s for s, mm in (names or []) for m, g in MEMBERS.items() if g == mm}
    res = {}
    for mem, gal in MEMBERS.items():
        ev = _AlignEval(tree, values, mem)
        env = {p: ast.Name(id="\0member" if r == "alignment" else r, ctx=ast.Load()) for p, r in roles.items()}
        kind, val = ev.block(body_no_doc(fn), env)
        if kind != "return":
            fail(fn, f"Alignment.{mem}: no pair of offsets is returned")
        pr = ev.pair(val)
        if pr is None:
            fail(fn, f"Alignment.{mem}: no pair of offsets is returned")
        res[gal] = pr
    return res


def _memo(tree) -> tuple[bool, int, list[str]]:
    fn = find_func(tree, "load_cropped_and_aligned_image")
    if fn.args.vararg or fn.args.kwarg or fn.args.posonlyargs:
        fail(fn, "load_cropped_and_aligned_image parameter kinds")
    params = [a.arg for a in fn.args.args + fn.args.kwonlyargs]
    for p in params:
        if p not in KEYS:
            fail(fn, f"parameter {p!r} is not a known key field")
    memo, maxsize = False, 0
    for d in fn.decorator_list:
        if isinstance(d, ast.Call):
            f, kws, args = ast.unparse(d.func), d.keywords, d.args
        else:
            f, kws, args = ast.unparse(d), [], []
        if f in ("lru_cache", "functools.lru_cache"):
            memo, maxsize = True, 128
            if args:
                fail(d, "lru_cache positional argument")
            for kw in kws:
                if kw.arg == "maxsize" and isinstance(kw.value, ast.Constant) and isinstance(kw.value.value, int):
                    maxsize = kw.value.value
                elif kw.arg == "typed":
                    continue
                else:
                    fail(d, "lru_cache argument shape")
        elif f in ("cache", "functools.cache"):
            memo, maxsize = True, 4000
        else:
            fail(d, "decorator not accepted")
    if not (0 < maxsize < 5000) and memo:
        fail(fn, "maxsize out of the accepted range")
    return memo, maxsize, [KEYS[p] for p in params]


def _reachable(tree, fn) -> list:
    """fn and the module-level functions of the same file it calls by name (transitively): the code a reader sees
    after inlining private helpers."""
    funcs, out, todo = _module_funcs(tree), [], [fn]
    while todo:
        f = todo.pop()
        if any(f is g for g in out):
            continue
        out.append(f)
        for c in ast.walk(f):
            if isinstance(c, ast.Call) and isinstance(c.func, ast.Name) and c.func.id in funcs:
                todo.append(funcs[c.func.id])
    return out


LOADTXT = ("np.loadtxt", "numpy.loadtxt", "loadtxt")


def _resolve_iter(tree, fns, fn, node, depth=0):
    """The literal a loop iterates over: written in place, a local / module-level name bound once, or a parameter of
    a private helper (followed to the argument of its one call, or its default)."""
    if depth > 6:
        fail(node, "separator list: too many indirections")
    if isinstance(node, (ast.Tuple, ast.List)):
        return list(node.elts)
    if isinstance(node, ast.Constant) and isinstance(node.value, str):
        return [ast.Constant(value=ch) for ch in node.value]
    if isinstance(node, ast.Call) and ast.unparse(node.func) in ("tuple", "list", "iter") and len(node.args) == 1 \
            and not node.keywords:
        return _resolve_iter(tree, fns, fn, node.args[0], depth + 1)
    if isinstance(node, ast.Name):
        if node.id in _params(fn):
            if _stores(fn, node.id):
                fail(node, "separator parameter is reassigned")
            calls = [(g, c) for g in fns for c in ast.walk(g)
                     if isinstance(c, ast.Call) and isinstance(c.func, ast.Name) and c.func.id == fn.name]
            refs = [n for n in ast.walk(tree) if isinstance(n, ast.Name) and n.id == fn.name]
            if len(calls) != 1 or len(refs) != 1:
                fail(node, "the helper holding the separator loop must be called exactly once")
            g, c = calls[0]
            return _resolve_iter(tree, fns, g, bind_call(fn, c)[node.id], depth + 1)
        local = [st for st in ast.walk(fn)
                 if (isinstance(st, ast.Assign) and len(st.targets) == 1 and isinstance(st.targets[0], ast.Name)
                     and st.targets[0].id == node.id)
                 or (isinstance(st, ast.AnnAssign) and isinstance(st.target, ast.Name) and st.target.id == node.id
                     and st.value is not None)]
        if local:
            if len(local) != 1 or _stores(fn, node.id) != 1:
                fail(node, "separator list is bound more than once")
            return _resolve_iter(tree, fns, fn, local[0].value, depth + 1)
        v = module_const(tree, node.id)
        if v is None:
            fail(node, "separator list must be a literal or a name bound exactly once")
        return _resolve_iter(tree, fns, fn, v, depth + 1)
    fail(node, "separator list shape")


def _delims(repo: Path) -> list[str]:
    """The separators load_image tries on a text file, in order: the one loop (in load_image or in a private helper
    it calls) whose body calls np.loadtxt(delimiter=<loop variable>).  How the loop stops and how failure is
    reported is behaviour — judged by the correspondence (texts against `detect src_delims`), not read here."""
    tree = parse(repo, "pyxel/inputs/loader.py")
    fns = _reachable(tree, find_func(tree, "load_image"))
    funcs = _module_funcs(tree)

    def reads_with(scope, fn, names, depth=0):
        """np.loadtxt calls under `scope` (a loop body, or a whole helper) whose delimiter is one of `names` — directly,
        or inside a private helper that receives such a name as an argument."""
        if depth > 4:
            fail(scope, "separator handed through too many helpers")
        names = set(names)
        for st in ast.walk(scope):                        # `delimiter = sep`
            if isinstance(st, ast.Assign) and len(st.targets) == 1 and isinstance(st.targets[0], ast.Name) \
                    and isinstance(st.value, ast.Name) and st.value.id in names and _stores(fn, st.targets[0].id) == 1:
                names.add(st.targets[0].id)
        hits = []
        for c in ast.walk(scope):
            if not isinstance(c, ast.Call):
                continue
            if ast.unparse(c.func) in LOADTXT:
                if any(k.arg == "delimiter" and isinstance(k.value, ast.Name) and k.value.id in names for k in c.keywords):
                    hits.append(c)
            elif isinstance(c.func, ast.Name) and c.func.id in funcs and funcs[c.func.id] is not fn:
                g = funcs[c.func.id]
                passed = [p for p, a in bind_call(g, c).items() if isinstance(a, ast.Name) and a.id in names]
                passed = [p for p in passed if _stores(g, p) == 0]
                if passed:
                    hits += reads_with(g, g, passed, depth + 1)
        return hits

    found, n_calls = [], 0
    for fn in fns:
        inside = set()
        for lp in [n for n in ast.walk(fn) if isinstance(n, ast.For)]:
            if not isinstance(lp.target, ast.Name):
                continue
            for c in reads_with(lp, fn, {lp.target.id}):
                if id(c) not in inside:
                    found.append((fn, lp, c))
                inside.add(id(c))
        n_calls += sum(1 for c in ast.walk(fn) if isinstance(c, ast.Call) and ast.unparse(c.func) in LOADTXT)
    if len(found) != 1 or n_calls != 1:
        fail(fns[0], f"load_image: expected one np.loadtxt call, inside one loop over the separators "
                     f"(found {n_calls} calls, {len(found)} in such a loop)")
    fn, lp, _ = found[0]
    if _stores(fn, lp.target.id) != 1:
        fail(lp, "the loop variable is reassigned")
    out = []
    for e in _resolve_iter(tree, fns, fn, lp.iter):
        if not (isinstance(e, ast.Constant) and isinstance(e.value, str) and e.value in DELIMS):
            fail(e, "unknown separator")
        out.append(DELIMS[e.value])
    return out


STATE_FILES = ("pyxel/inputs/loader.py", "pyxel/util/image.py", "pyxel/models/photon_collection/load_image.py",
               "pyxel/models/charge_generation/load_charge.py")
CONTAINER_CALLS = {"dict", "list", "set", "OrderedDict", "defaultdict", "WeakValueDictionary", "deque", "Counter",
                   "collections.OrderedDict", "collections.defaultdict", "collections.deque",
                   "weakref.WeakValueDictionary", "LRUCache", "TTLCache"}
MUTATORS = {"pop", "popitem", "update", "setdefault", "append", "add", "clear", "insert", "extend", "remove",
            "discard", "move_to_end", "appendleft", "__setitem__", "__delitem__"}
# decorators that do not keep results (anything else on a function of these files fails closed)
PLAIN_DECORATORS = {"staticmethod", "classmethod", "property", "overload", "typing.overload", "deprecated",
                    "typing.no_type_check", "no_type_check", "final", "typing.final", "wraps", "functools.wraps",
                    "contextmanager", "contextlib.contextmanager", "typing_extensions.deprecated",
                    "warnings.deprecated", "typing_extensions.override", "override"}


def _is_container(v: ast.AST) -> bool:
    if isinstance(v, (ast.Dict, ast.List, ast.Set, ast.DictComp, ast.ListComp, ast.SetComp)):
        return True
    return isinstance(v, ast.Call) and ast.unparse(v.func) in CONTAINER_CALLS


def _state(repo: Path) -> list[str]:
    """Names of everything that could carry loaded content from one call to the next."""
    found: list[str] = []
    for rel in STATE_FILES:
        tree = parse(repo, rel)
        short = rel.rsplit("/", 1)[1][:-3]
        module_containers, func_names = set(), set()
        for st in tree.body:
            tgt = None
            if isinstance(st, ast.Assign) and len(st.targets) == 1 and isinstance(st.targets[0], ast.Name):
                tgt, val = st.targets[0].id, st.value
            elif isinstance(st, ast.AnnAssign) and isinstance(st.target, ast.Name) and st.value is not None:
                tgt, val = st.target.id, st.value
            if tgt is not None and _is_container(val):
                module_containers.add(tgt)
            if isinstance(st, (ast.FunctionDef, ast.AsyncFunctionDef)):
                func_names.add(st.name)
        for fn in [n for n in ast.walk(tree) if isinstance(n, (ast.FunctionDef, ast.AsyncFunctionDef))]:
            if fn.name == "load_cropped_and_aligned_image" and short == "image":
                decos = []                               # read by _memo (src_memoised)
            else:
                decos = fn.decorator_list
            for d in decos:
                name = ast.unparse(d.func if isinstance(d, ast.Call) else d)
                if "cache" in name.lower() or "memo" in name.lower():
                    found.append(f"{short}.{fn.name}@{name}")
                elif name not in PLAIN_DECORATORS:
                    fail(d, f"decorator on {fn.name} not accepted")
            for dflt in list(fn.args.defaults) + [x for x in fn.args.kw_defaults if x is not None]:
                if _is_container(dflt):
                    found.append(f"{short}.{fn.name}(mutable default)")
            for n in ast.walk(fn):
                if isinstance(n, ast.Global):
                    found += [f"{short}.{g} (global in {fn.name})" for g in n.names]
                tgts = []
                if isinstance(n, ast.Assign):
                    tgts = n.targets
                elif isinstance(n, (ast.AugAssign, ast.AnnAssign)):
                    tgts = [n.target]
                elif isinstance(n, ast.Delete):
                    tgts = n.targets
                for t in tgts:
                    if isinstance(t, ast.Subscript) and isinstance(t.value, ast.Name) and t.value.id in module_containers:
                        found.append(f"{short}.{t.value.id} (stored in {fn.name})")
                    if isinstance(t, ast.Attribute) and isinstance(t.value, ast.Name) and t.value.id in func_names:
                        found.append(f"{short}.{t.value.id}.{t.attr} (function attribute set in {fn.name})")
                if (isinstance(n, ast.Call) and isinstance(n.func, ast.Attribute) and n.func.attr in MUTATORS
                        and isinstance(n.func.value, ast.Name) and n.func.value.id in module_containers):
                    found.append(f"{short}.{n.func.value.id} (.{n.func.attr} in {fn.name})")
    out = []
    for f in found:
        if f not in out:
            out.append(f)
    for f in out:
        if not all(32 <= ord(c) < 127 and c != '"' for c in f):
            fail(None, "state name not printable")
    return out


LCAI_PARAMS = ["shape", "filename", "position_x", "position_y", "align", "allow_smaller_array"]


def _attr_chain(node) -> str | None:
    parts = []
    while isinstance(node, ast.Attribute):
        parts.append(node.attr)
        node = node.value
    if isinstance(node, ast.Name):
        parts.append(node.id)
        return ".".join(reversed(parts))
    return None


MODELLED = ("detector", "position", "align", "time_scale", "multiplier")
OPAQUE = ("opaque",)
IDENTITY_CALLS = {"str", "Path", "pathlib.Path", "float", "int", "tuple"}


class _ModelEval:
    """Abstract reading of a loading model with its optional features at their defaults: what reaches
    load_cropped_and_aligned_image and what is added to the bucket.  Values: ('chain', 'detector.geometry.row'),
    ('tuple', [..]), ('pos', k), ('mono', is_image, (e_step, e_scale, e_mult)), ('const', v), OPAQUE (anything else —
    harmless unless it reaches the call or the sink).  Private helpers of the same module are inlined; local aliases,
    tuple unpacking, augmented assignments, conditional expressions and guard clauses on the optional parameters are
    followed; statements that cannot touch the detector (logging, late imports, annotations) are skipped."""

    def __init__(self, tree, fname, file_param, sink):
        self.tree, self.file_param, self.sink = tree, file_param, sink
        self.funcs = _module_funcs(tree)
        self.top = find_func(tree, fname)
        self.params = _params(self.top)
        self.defaults = _defaults(self.top)
        for need in ("detector", file_param, "position", "align", "time_scale"):
            if need not in self.params:
                fail(self.top, f"{fname}: parameter {need!r} missing")
        self.call = None
        self.sunk = None
        self.depth = 0

    # -- values
    def mono(self, v):
        if v[0] == "mono":
            return v[1], v[2]
        if v == ("chain", "detector.time_step"):
            return 0, (1, 0, 0)
        if v == ("chain", "time_scale"):
            return 0, (0, 1, 0)
        if v == ("chain", "multiplier"):
            return 0, (0, 0, 1)
        if v[0] == "const" and v[1] in (1, 1.0) and not isinstance(v[1], bool):
            return 0, (0, 0, 0)
        return None

    def ev(self, node, env):
        if isinstance(node, ast.Constant):
            return ("const", node.value)
        if isinstance(node, ast.Name):
            if node.id in env:
                return env[node.id]
            return OPAQUE
        if isinstance(node, ast.Attribute):
            b = self.ev(node.value, env)
            if b[0] == "chain":
                c = b[1] + "." + node.attr
                if c == "detector.geometry.shape":
                    return ("tuple", [("chain", "detector.geometry.row"), ("chain", "detector.geometry.col")])
                return ("chain", c)
            return OPAQUE
        if isinstance(node, ast.Tuple) or isinstance(node, ast.List):
            return ("tuple", [self.ev(e, env) for e in node.elts])
        if isinstance(node, ast.Subscript) and isinstance(node.slice, ast.Constant) and isinstance(node.slice.value, int):
            b, k = self.ev(node.value, env), node.slice.value
            if b[0] == "tuple" and -len(b[1]) <= k < len(b[1]):
                return b[1][k]
            if b == ("chain", "position") and k in (0, 1, -1, -2):
                return ("pos", k % 2)
            return OPAQUE
        if isinstance(node, ast.BinOp) and isinstance(node.op, (ast.Mult, ast.Div)):
            l, r = self.mono(self.ev(node.left, env)), self.mono(self.ev(node.right, env))
            if l is None or r is None:
                return OPAQUE
            sg = 1 if isinstance(node.op, ast.Mult) else -1
            return ("mono", l[0] + sg * r[0], tuple(x + sg * y for x, y in zip(l[1], r[1])))
        if isinstance(node, ast.IfExp):
            t = self.test(node.test, env)
            if t is None:
                return OPAQUE
            return self.ev(node.body if t else node.orelse, env)
        if isinstance(node, ast.NamedExpr):
            return OPAQUE
        if isinstance(node, ast.Call):
            f = ast.unparse(node.func)
            if f in ("load_cropped_and_aligned_image", "util.load_cropped_and_aligned_image",
                     "pyxel.util.load_cropped_and_aligned_image"):
                if self.call is not None:
                    fail(node, "second call of load_cropped_and_aligned_image")
                if any(isinstance(a, ast.Starred) for a in node.args) or any(k.arg is None for k in node.keywords) \
                        or len(node.args) > len(LCAI_PARAMS):
                    fail(node, "call shape of load_cropped_and_aligned_image")
                args = {n: self.ev(a, env) for n, a in zip(LCAI_PARAMS, node.args)}
                for kw in node.keywords:
                    if kw.arg not in LCAI_PARAMS or kw.arg in args:
                        fail(node, "keyword of load_cropped_and_aligned_image")
                    args[kw.arg] = self.ev(kw.value, env)
                self.call = (node, args)
                return ("mono", 1, (0, 0, 0))
            if isinstance(node.func, ast.Name) and node.func.id in self.funcs and node.func.id not in env:
                fn = self.funcs[node.func.id]
                if self.depth > 6 or fn is self.top:
                    fail(node, "helper calls nested too deeply")
                if fn.decorator_list:
                    fail(node, "decorated helper")
                child = {p: self.ev(a, env) for p, a in bind_call(fn, node).items()}
                self.depth += 1
                kind, val = self.block(body_no_doc(fn), child)
                self.depth -= 1
                if kind == "return":
                    return val
                if kind == "fall":
                    return ("const", None)
                fail(node, "helper raises on the default path")
            if f in IDENTITY_CALLS and len(node.args) == 1 and not node.keywords:
                return self.ev(node.args[0], env)
            # any other call: its arguments are still evaluated (a load hidden in an argument must be seen)
            for a in list(node.args) + [k.value for k in node.keywords]:
                self.ev(a.value if isinstance(a, ast.Starred) else a, env)
            head = self.ev(node.func, env) if isinstance(node.func, (ast.Attribute, ast.Name)) else OPAQUE
            if head[0] == "chain" and head[1].split(".")[0] == "detector":
                if self.sink == "charge" and head[1] == "detector.charge.add_charge_array" and len(node.args) == 1 \
                        and not node.keywords:
                    self.add_sink(node, self.ev(node.args[0], env))
                    return ("const", None)
                fail(node, "call on the detector not accepted")
            return OPAQUE
        for sub in ast.iter_child_nodes(node):            # other expression kinds: look inside for calls, result unknown
            if isinstance(sub, ast.expr):
                self.ev(sub, env)
        return OPAQUE

    def test(self, node, env):
        """True / False when decided by the optional (not modelled) parameters at their defaults and constants; None
        when it depends on anything else."""
        if isinstance(node, ast.UnaryOp) and isinstance(node.op, ast.Not):
            t = self.test(node.operand, env)
            return None if t is None else not t
        if isinstance(node, ast.BoolOp):
            vals = [self.test(v, env) for v in node.values]
            if isinstance(node.op, ast.And):
                return False if False in vals else (None if None in vals else True)
            return True if True in vals else (None if None in vals else False)
        if isinstance(node, ast.Compare) and len(node.ops) == 1:
            a, b = self.ev(node.left, env), self.ev(node.comparators[0], env)
            if a[0] == "const" and b[0] == "const":
                op = node.ops[0]
                if isinstance(op, (ast.Is, ast.IsNot)) and (a[1] is None or b[1] is None or isinstance(a[1], bool)):
                    r = a[1] is b[1]
                    return r if isinstance(op, ast.Is) else not r
                if isinstance(op, (ast.Eq, ast.NotEq)):
                    r = a[1] == b[1]
                    return r if isinstance(op, ast.Eq) else not r
            return None
        v = self.ev(node, env)
        if v[0] == "const":
            return bool(v[1])
        return None

    def add_sink(self, node, v):
        if self.sunk is not None:
            fail(node, "second sink")
        m = self.mono(v)
        if m is None:
            fail(node, "what is added to the bucket is not the loaded image times a factor")
        self.sunk = m

    # -- statements
    def block(self, stmts, env):
        for st in stmts:
            if _is_doc_or_noise(st):
                continue
            if isinstance(st, ast.AnnAssign):
                if st.value is None:
                    continue
                st = ast.Assign(targets=[st.target], value=st.value, lineno=st.lineno)
            if isinstance(st, ast.Assign):
                val = self.ev(st.value, env)
                for tgt in st.targets:
                    self.assign(st, tgt, val, env, st.value)
                continue
            if isinstance(st, ast.AugAssign):
                if isinstance(st.target, ast.Name):
                    cur = env.get(st.target.id, OPAQUE)
                    if cur[0] == "mono" and cur[1] != 0:
                        fail(st, "in-place operation on the loaded array (not the same as rebinding: the array is "
                                 "read-only and may be shared)")
                    env[st.target.id] = self.ev(ast.BinOp(left=ast.Name(id=st.target.id, ctx=ast.Load()), op=st.op,
                                                          right=st.value), env)
                    continue
                tv = self.ev(st.target, env) if isinstance(st.target, ast.Attribute) else OPAQUE
                if self.sink == "photon" and tv == ("chain", "detector.photon") and isinstance(st.op, ast.Add):
                    self.add_sink(st, self.ev(st.value, env))
                    continue
                fail(st, "augmented assignment not accepted")
            if isinstance(st, ast.Expr):
                self.ev(st.value, env)
                continue
            if isinstance(st, ast.Return):
                return "return", (("const", None) if st.value is None else self.ev(st.value, env))
            if isinstance(st, ast.Raise):
                return "raise", None
            if isinstance(st, ast.If):
                t = self.test(st.test, env)
                if t is None:
                    if all(isinstance(x, ast.Raise) or _is_doc_or_noise(x) for x in st.body) and not st.orelse:
                        continue                      # a validation guard: refuses some inputs, changes no result
                    fail(st, "conditional not decided by the optional parameters at their defaults")
                kind, val = self.block(st.body if t else st.orelse, env)
                if kind != "fall":
                    return kind, val
                continue
            if isinstance(st, ast.Assert):
                continue
            fail(st, "statement not accepted in a loading model")
        return "fall", None

    def assign(self, st, tgt, val, env, src):
        if isinstance(tgt, ast.Name):
            env[tgt.id] = val
            return
        if isinstance(tgt, (ast.Tuple, ast.List)) and all(isinstance(e, ast.Name) for e in tgt.elts):
            if val[0] == "tuple" and len(val[1]) == len(tgt.elts):
                for e, v in zip(tgt.elts, val[1]):
                    env[e.id] = v
            elif val == ("chain", "position") and len(tgt.elts) == 2:
                env[tgt.elts[0].id], env[tgt.elts[1].id] = ("pos", 0), ("pos", 1)
            else:
                for e in tgt.elts:
                    env[e.id] = OPAQUE
            return
        if isinstance(tgt, ast.Attribute):
            tv = self.ev(tgt, env)
            if self.sink == "photon" and tv == ("chain", "detector.photon") and isinstance(src, ast.BinOp) \
                    and isinstance(src.op, ast.Add):
                l, r = self.ev_pure(src.left, env), self.ev_pure(src.right, env)
                other = r if l == tv else (l if r == tv else None)
                if other is not None:
                    self.add_sink(st, other)
                    return
            if tv[0] == "chain" and tv[1].split(".")[0] == "detector":
                fail(st, "store on the detector not accepted")
            return
        fail(st, "assignment shape")

    def ev_pure(self, node, env):
        saved = self.call
        v = self.ev(node, env)
        if self.call is not saved:
            self.call = saved
        return v


def _model_call(repo: Path, rel: str, fname: str, file_param: str, sink: str) -> dict:
    tree = parse(repo, rel)
    me = _ModelEval(tree, fname, file_param, sink)
    env = {}
    for p in me.params:
        d = me.defaults.get(p)
        if p in MODELLED or p == file_param:
            env[p] = ("chain", p)
        elif isinstance(d, ast.Constant):
            env[p] = ("const", d.value)                # an optional feature, read at its default
        else:
            env[p] = OPAQUE
    kind, _ = me.block(body_no_doc(me.top), env)
    if kind == "raise":
        fail(me.top, f"{fname}: raises on the default path")
    if me.call is None or me.sunk is None:
        fail(me.top, f"{fname}: call of load_cropped_and_aligned_image or sink not found")
    call, args = me.call
    for need in ("shape", "filename", "position_x", "position_y"):
        if need not in args:
            fail(call, f"argument {need} missing")
    rc = {("chain", "detector.geometry.row"): "GRow", ("chain", "detector.geometry.col"): "GCol"}
    sh = args["shape"]
    if sh[0] != "tuple" or len(sh[1]) != 2 or any(x not in rc for x in sh[1]):
        fail(call, "shape argument must be made of detector.geometry.row / .col")
    out = dict(shape=tuple(rc[x] for x in sh[1]))
    out["file"] = args["filename"] == ("chain", file_param)
    for k, name in (("py", "position_y"), ("px", "position_x")):
        if args[name][0] != "pos":
            fail(call, f"{name} must be a component of `position`")
        out[k] = args[name][1]
    out["align"] = args.get("align") == ("chain", "align")
    allow = args.get("allow_smaller_array", ("const", True))
    if allow[0] != "const" or not isinstance(allow[1], bool):
        fail(call, "allow_smaller_array must be a literal")
    out["allow"] = allow[1]
    if me.sunk[0] != 1:
        fail(me.top, "the array added to the bucket must be the loaded image times a factor")
    out["factor"] = me.sunk[1]
    out["adds"] = True
    return out


def _render_call(name: str, c: dict) -> str:
    b = lambda x: "true" if x else "false"
    return (f"Definition {name} : model_call :=\n"
            f"  {{| mc_shape := ({c['shape'][0]}, {c['shape'][1]}); mc_py := {c['py']}%nat; mc_px := {c['px']}%nat;\n"
            f"     mc_file := {b(c['file'])}; mc_align := {b(c['align'])}; mc_allow := {b(c['allow'])};\n"
            f"     mc_factor := (({c['factor'][0]}), ({c['factor'][1]}), ({c['factor'][2]})); mc_adds := {b(c['adds'])} |}}.\n")


PHOTON_CALL = dict(shape=("GRow", "GCol"), py=0, px=1, file=True, align=True, allow=True, factor=(1, -1, 1), adds=True)
CHARGE_CALL = dict(shape=("GRow", "GCol"), py=0, px=1, file=True, align=True, allow=True, factor=(1, -1, 0), adds=True)


def render(names, align, memo, maxsize, key, delims, state=(), photon=PHOTON_CALL, charge=CHARGE_CALL) -> str:
    nm = "; ".join('("%s"%%string, %s)' % (s.replace('"', '""'), m) for s, m in names)
    br = "\n".join(f"  | {m} => ({align[m][0]}, {align[m][1]})" for m in MEMBERS.values())
    return (PRELUDE +
            f"Definition src_align_names : align_names := [{nm}].\n"
            "Definition src_align (kw : align_kw) (ax ay ox oy : Z) : Z * Z :=\n  match kw with\n"
            f"{br}\n  end.\n"
            f"Definition src_memoised : bool := {'true' if memo else 'false'}.\n"
            f"Definition src_memo_maxsize : nat := {maxsize}%nat.\n"
            f"Definition src_memo_key : list key_field := [{'; '.join(key)}].\n"
            f"Definition src_delims : list delim := [{'; '.join(delims)}].\n"
            "Definition src_loader_state : list string := [" + "; ".join('"%s"%%string' % x for x in state) + "].\n"
            + _render_call("src_photon_call", photon) + _render_call("src_charge_call", charge))


def translate(repo: Path) -> str:
    tree = parse(repo, "pyxel/util/image.py")
    names = _enum(tree)
    for s, _ in names:
        if not all(32 <= ord(c) < 127 for c in s):
            fail(None, "non-ASCII alignment keyword")
    align = _align(tree, names)
    memo, maxsize, key = _memo(tree)
    delims = _delims(repo)
    photon = _model_call(repo, "pyxel/models/photon_collection/load_image.py", "load_image", "image_file", "photon")
    charge = _model_call(repo, "pyxel/models/charge_generation/load_charge.py", "load_charge", "filename", "charge")
    return render(names, align, memo, maxsize, key, delims, _state(repo), photon, charge)


# the last accepted shape (unchanged tree); keeps a model available for the failing-input search
FALLBACK = render(
    [("center", "Center"), ("top_left", "TopLeft"), ("top_right", "TopRight"),
     ("bottom_left", "BottomLeft"), ("bottom_right", "BottomRight")],
    {"Center": ("(Z.quot (oy - ay) 2)", "(Z.quot (ox - ax) 2)"), "TopLeft": ("(oy - ay)", "(0)"),
     "TopRight": ("(oy - ay)", "(ox - ax)"), "BottomLeft": ("(0)", "(0)"), "BottomRight": ("(0)", "(ox - ax)")},
    False, 0, ["KShape", "KFile", "KPosX", "KPosY", "KAlign", "KAllow"],
    ["DTab", "DSpace", "DComma", "DBar", "DSemicolon"])
