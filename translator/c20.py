"""pyxel/util/image.py + pyxel/inputs/loader.py -> Gen_C20.v

Extracted (fail closed on any other shape):
  * class Alignment(Enum): value string -> member                      -> src_align_names
  * _set_relative_position: one `alignment == Alignment.<m>` branch per member, each returning a pair
    of integer expressions over array_x/array_y/output_x/output_y        -> src_align
  * load_cropped_and_aligned_image: is it decorated with lru_cache, its maxsize, its parameter list
    (= the memoisation key)                                             -> src_memoised, src_memo_maxsize, src_memo_key
  * load_image: the tuple of separators tried for .txt/.data, in order  -> src_delims
  * what could keep loaded content between two calls, in pyxel/inputs/loader.py, pyxel/util/image.py and the two
    loading models: caching decorators on any function, module-level containers that a function mutates
    (subscript store / del, mutating method call, `global`), mutable default arguments, attributes stored on
    functions                                                            -> src_loader_state (names; [] = none)
  * the call sites of the two loading models (photon_collection.load_image, charge_generation.load_charge): what
    each passes to load_cropped_and_aligned_image as shape / filename / position_x / position_y / align /
    allow_smaller_array (names followed through single assignments and the tuple unpacking of `position`), the
    scaling factor as exponents of (detector.time_step, time_scale, multiplier), and whether the scaled array is
    added to the bucket                                                  -> src_photon_call, src_charge_call
"""
from __future__ import annotations

import ast
from pathlib import Path

from .common import HEADER, body_no_doc, fail, find_func, parse

MEMBERS = {"center": "Center", "top_left": "TopLeft", "top_right": "TopRight",
           "bottom_left": "BottomLeft", "bottom_right": "BottomRight"}
VARS = {"array_x": "ax", "array_y": "ay", "output_x": "ox", "output_y": "oy"}
KEYS = {"shape": "KShape", "filename": "KFile", "position_x": "KPosX", "position_y": "KPosY",
        "align": "KAlign", "allow_smaller_array": "KAllow"}
DELIMS = {"\t": "DTab", " ": "DSpace", ",": "DComma", "|": "DBar", ";": "DSemicolon"}

PRELUDE = (HEADER +
           "From Coq Require Import ZArith List String.\n"
           "From PyxelV Require Import Model.Placement Model.Memo Model.Delim.\n"
           "Import ListNotations.\nOpen Scope Z_scope.\n")


def _posint(node) -> int:
    if isinstance(node, ast.Constant) and isinstance(node.value, int) and not isinstance(node.value, bool) \
            and node.value > 0:
        return node.value
    fail(node, "expected a positive integer literal")


def expr(node: ast.AST) -> str:
    """Integer expression -> Gallina (Z).  int(e / c) truncates toward zero = Z.quot; e // c = Z.div."""
    if isinstance(node, ast.Name):
        if node.id not in VARS:
            fail(node, "unknown variable in an alignment expression")
        return VARS[node.id]
    if isinstance(node, ast.Constant) and isinstance(node.value, int) and not isinstance(node.value, bool):
        return f"({node.value})"
    if isinstance(node, ast.UnaryOp) and isinstance(node.op, ast.USub):
        return f"(- {expr(node.operand)})"
    if isinstance(node, ast.BinOp):
        if isinstance(node.op, (ast.Add, ast.Sub, ast.Mult)):
            op = {ast.Add: "+", ast.Sub: "-", ast.Mult: "*"}[type(node.op)]
            return f"({expr(node.left)} {op} {expr(node.right)})"
        if isinstance(node.op, ast.FloorDiv):
            return f"(Z.div {expr(node.left)} {_posint(node.right)})"
        fail(node, "operator not accepted in an alignment expression")
    if (isinstance(node, ast.Call) and ast.unparse(node.func) in ("int", "math.trunc", "trunc")
            and len(node.args) == 1 and not node.keywords):
        a = node.args[0]
        if isinstance(a, ast.BinOp) and isinstance(a.op, ast.Div):
            return f"(Z.quot {expr(a.left)} {_posint(a.right)})"
        return expr(a)
    fail(node, "expression shape not accepted")


def _enum(tree) -> list[tuple[str, str]]:
    cls = [n for n in tree.body if isinstance(n, ast.ClassDef) and n.name == "Alignment"]
    if len(cls) != 1:
        fail(None, "class Alignment not found once")
    out = []
    for st in body_no_doc(cls[0]):  # type: ignore[arg-type]
        if (isinstance(st, ast.Assign) and len(st.targets) == 1 and isinstance(st.targets[0], ast.Name)
                and isinstance(st.value, ast.Constant) and isinstance(st.value.value, str)):
            nm = st.targets[0].id
            if nm not in MEMBERS:
                fail(st, "unknown Alignment member")
            out.append((st.value.value, MEMBERS[nm]))
        else:
            fail(st, "Alignment body must be `name = \"string\"` lines")
    if sorted(m for _, m in out) != sorted(MEMBERS.values()):
        fail(cls[0], "Alignment must have exactly the five members")
    return out


def _align(tree) -> dict[str, tuple[str, str]]:
    fn = find_func(tree, "_set_relative_position")
    names = [a.arg for a in fn.args.args + fn.args.kwonlyargs]
    if sorted(names) != sorted(list(VARS) + ["alignment"]):
        fail(fn, "_set_relative_position parameters")
    body = body_no_doc(fn)
    if len(body) in (1, 2) and isinstance(body[0], ast.Match):
        return _align_match(fn, body)
    if len(body) != 1 or not isinstance(body[0], ast.If):
        fail(fn, "_set_relative_position body must be one if/elif chain or one match statement")
    node, res = body[0], {}
    while True:
        t = node.test
        if not (isinstance(t, ast.Compare) and len(t.ops) == 1 and isinstance(t.ops[0], (ast.Eq, ast.Is))
                and isinstance(t.left, ast.Name) and t.left.id == "alignment"
                and isinstance(t.comparators[0], ast.Attribute)
                and isinstance(t.comparators[0].value, ast.Name) and t.comparators[0].value.id == "Alignment"):
            fail(t, "branch test must be `alignment == Alignment.<member>`")
        mem = t.comparators[0].attr
        if mem not in MEMBERS or MEMBERS[mem] in res:
            fail(t, "unknown or repeated member")
        if len(node.body) != 1 or not isinstance(node.body[0], ast.Return) \
                or not isinstance(node.body[0].value, ast.Tuple) or len(node.body[0].value.elts) != 2:
            fail(node, "branch must be a single `return <y>, <x>`")
        y, x = node.body[0].value.elts
        res[MEMBERS[mem]] = (expr(y), expr(x))
        if len(node.orelse) == 1 and isinstance(node.orelse[0], ast.If):
            node = node.orelse[0]
            continue
        if len(node.orelse) == 1 and isinstance(node.orelse[0], ast.Raise):
            break
        fail(node, "chain must end with `else: raise ...`")
    if sorted(res) != sorted(MEMBERS.values()):
        fail(fn, "every member needs a branch")
    return res


def _align_match(fn, body) -> dict[str, tuple[str, str]]:
    """`match alignment: case Alignment.<m>: return <y>, <x> ... [case _: raise ...]` (+ an optional final raise)."""
    m = body[0]
    if not (isinstance(m.subject, ast.Name) and m.subject.id == "alignment"):
        fail(m, "match subject must be `alignment`")
    if len(body) == 2 and not isinstance(body[1], ast.Raise):
        fail(body[1], "only a `raise` may follow the match statement")
    res = {}
    for case in m.cases:
        pat = case.pattern
        if case.guard is not None:
            fail(case.pattern, "guarded case not accepted")
        if isinstance(pat, ast.MatchAs) and pat.pattern is None:          # case _:
            if len(case.body) != 1 or not isinstance(case.body[0], ast.Raise):
                fail(pat, "the default case must raise")
            continue
        if not (isinstance(pat, ast.MatchValue) and isinstance(pat.value, ast.Attribute)
                and isinstance(pat.value.value, ast.Name) and pat.value.value.id == "Alignment"):
            fail(pat, "case pattern must be `Alignment.<member>`")
        mem = pat.value.attr
        if mem not in MEMBERS or MEMBERS[mem] in res:
            fail(pat, "unknown or repeated member")
        if len(case.body) != 1 or not isinstance(case.body[0], ast.Return) \
                or not isinstance(case.body[0].value, ast.Tuple) or len(case.body[0].value.elts) != 2:
            fail(pat, "case must be a single `return <y>, <x>`")
        y, x = case.body[0].value.elts
        res[MEMBERS[mem]] = (expr(y), expr(x))
    if sorted(res) != sorted(MEMBERS.values()):
        fail(fn, "every member needs a case")
    return res


def _memo(tree) -> tuple[bool, int, list[str]]:
    fn = find_func(tree, "load_cropped_and_aligned_image")
    if fn.args.vararg or fn.args.kwarg or fn.args.posonlyargs:
        fail(fn, "load_cropped_and_aligned_image parameter kinds")
    params = [a.arg for a in fn.args.args + fn.args.kwonlyargs]
    for p in params:
        if p not in KEYS:
            fail(fn, f"parameter {p!r} is not a known key field")
    memo, maxsize = False, 0
    for d in fn.decorator_list:
        if isinstance(d, ast.Call):
            f, kws, args = ast.unparse(d.func), d.keywords, d.args
        else:
            f, kws, args = ast.unparse(d), [], []
        if f in ("lru_cache", "functools.lru_cache"):
            memo, maxsize = True, 128
            if args:
                fail(d, "lru_cache positional argument")
            for kw in kws:
                if kw.arg == "maxsize" and isinstance(kw.value, ast.Constant) and isinstance(kw.value.value, int):
                    maxsize = kw.value.value
                elif kw.arg == "typed":
                    continue
                else:
                    fail(d, "lru_cache argument shape")
        elif f in ("cache", "functools.cache"):
            memo, maxsize = True, 4000
        else:
            fail(d, "decorator not accepted")
    if not (0 < maxsize < 5000) and memo:
        fail(fn, "maxsize out of the accepted range")
    return memo, maxsize, [KEYS[p] for p in params]


def _delims(repo: Path) -> list[str]:
    tree = parse(repo, "pyxel/inputs/loader.py")
    fn = find_func(tree, "load_image")
    loops = [n for n in ast.walk(fn) if isinstance(n, ast.For)]
    if len(loops) != 1:
        fail(fn, "load_image must contain exactly one `for sep in (...)` loop")
    lp = loops[0]
    it = lp.iter
    if isinstance(it, ast.Name):             # a module-level constant tuple, bound once
        binds = [st for st in tree.body
                 if (isinstance(st, ast.Assign) and any(isinstance(t, ast.Name) and t.id == it.id for t in st.targets))
                 or (isinstance(st, ast.AnnAssign) and isinstance(st.target, ast.Name) and st.target.id == it.id)]
        stores = [n for n in ast.walk(tree) if isinstance(n, ast.Name) and n.id == it.id and isinstance(n.ctx, ast.Store)]
        if len(binds) != 1 or len(stores) != 1 or binds[0].value is None:
            fail(lp, "separator constant must be bound exactly once at module level")
        it = binds[0].value
    if not (isinstance(lp.target, ast.Name) and isinstance(it, (ast.Tuple, ast.List))):
        fail(lp, "separator loop shape")
    out = []
    for e in it.elts:
        if not (isinstance(e, ast.Constant) and e.value in DELIMS):
            fail(e, "unknown separator")
        out.append(DELIMS[e.value])
    # the loop must try np.loadtxt(..., delimiter=<loop variable>) and stop at the first success
    calls = [c for c in ast.walk(lp) if isinstance(c, ast.Call) and ast.unparse(c.func) == "np.loadtxt"]
    if len(calls) != 1 or not any(k.arg == "delimiter" and isinstance(k.value, ast.Name) and k.value.id == lp.target.id
                                  for k in calls[0].keywords):
        fail(lp, "loop must call np.loadtxt(delimiter=<loop variable>)")
    if not any(isinstance(n, ast.Break) for n in ast.walk(lp)) or not lp.orelse:
        fail(lp, "loop must break at the first success and raise in its else clause")
    return out


STATE_FILES = ("pyxel/inputs/loader.py", "pyxel/util/image.py", "pyxel/models/photon_collection/load_image.py",
               "pyxel/models/charge_generation/load_charge.py")
CONTAINER_CALLS = {"dict", "list", "set", "OrderedDict", "defaultdict", "WeakValueDictionary", "deque", "Counter",
                   "collections.OrderedDict", "collections.defaultdict", "collections.deque",
                   "weakref.WeakValueDictionary", "LRUCache", "TTLCache"}
MUTATORS = {"pop", "popitem", "update", "setdefault", "append", "add", "clear", "insert", "extend", "remove",
            "discard", "move_to_end", "appendleft", "__setitem__", "__delitem__"}
# decorators that do not keep results (anything else on a function of these files fails closed)
PLAIN_DECORATORS = {"staticmethod", "classmethod", "property", "overload", "typing.overload", "deprecated",
                    "typing.no_type_check", "no_type_check"}


def _is_container(v: ast.AST) -> bool:
    if isinstance(v, (ast.Dict, ast.List, ast.Set, ast.DictComp, ast.ListComp, ast.SetComp)):
        return True
    return isinstance(v, ast.Call) and ast.unparse(v.func) in CONTAINER_CALLS


def _state(repo: Path) -> list[str]:
    """Names of everything that could carry loaded content from one call to the next."""
    found: list[str] = []
    for rel in STATE_FILES:
        tree = parse(repo, rel)
        short = rel.rsplit("/", 1)[1][:-3]
        module_containers, func_names = set(), set()
        for st in tree.body:
            tgt = None
            if isinstance(st, ast.Assign) and len(st.targets) == 1 and isinstance(st.targets[0], ast.Name):
                tgt, val = st.targets[0].id, st.value
            elif isinstance(st, ast.AnnAssign) and isinstance(st.target, ast.Name) and st.value is not None:
                tgt, val = st.target.id, st.value
            if tgt is not None and _is_container(val):
                module_containers.add(tgt)
            if isinstance(st, (ast.FunctionDef, ast.AsyncFunctionDef)):
                func_names.add(st.name)
        for fn in [n for n in ast.walk(tree) if isinstance(n, (ast.FunctionDef, ast.AsyncFunctionDef))]:
            if fn.name == "load_cropped_and_aligned_image" and short == "image":
                decos = []                               # read by _memo (src_memoised)
            else:
                decos = fn.decorator_list
            for d in decos:
                name = ast.unparse(d.func if isinstance(d, ast.Call) else d)
                if "cache" in name.lower() or "memo" in name.lower():
                    found.append(f"{short}.{fn.name}@{name}")
                elif name not in PLAIN_DECORATORS:
                    fail(d, f"decorator on {fn.name} not accepted")
            for dflt in list(fn.args.defaults) + [x for x in fn.args.kw_defaults if x is not None]:
                if _is_container(dflt):
                    found.append(f"{short}.{fn.name}(mutable default)")
            for n in ast.walk(fn):
                if isinstance(n, ast.Global):
                    found += [f"{short}.{g} (global in {fn.name})" for g in n.names]
                tgts = []
                if isinstance(n, ast.Assign):
                    tgts = n.targets
                elif isinstance(n, (ast.AugAssign, ast.AnnAssign)):
                    tgts = [n.target]
                elif isinstance(n, ast.Delete):
                    tgts = n.targets
                for t in tgts:
                    if isinstance(t, ast.Subscript) and isinstance(t.value, ast.Name) and t.value.id in module_containers:
                        found.append(f"{short}.{t.value.id} (stored in {fn.name})")
                    if isinstance(t, ast.Attribute) and isinstance(t.value, ast.Name) and t.value.id in func_names:
                        found.append(f"{short}.{t.value.id}.{t.attr} (function attribute set in {fn.name})")
                if (isinstance(n, ast.Call) and isinstance(n.func, ast.Attribute) and n.func.attr in MUTATORS
                        and isinstance(n.func.value, ast.Name) and n.func.value.id in module_containers):
                    found.append(f"{short}.{n.func.value.id} (.{n.func.attr} in {fn.name})")
    out = []
    for f in found:
        if f not in out:
            out.append(f)
    for f in out:
        if not all(32 <= ord(c) < 127 and c != '"' for c in f):
            fail(None, "state name not printable")
    return out


LCAI_PARAMS = ["shape", "filename", "position_x", "position_y", "align", "allow_smaller_array"]


def _attr_chain(node) -> str | None:
    parts = []
    while isinstance(node, ast.Attribute):
        parts.append(node.attr)
        node = node.value
    if isinstance(node, ast.Name):
        parts.append(node.id)
        return ".".join(reversed(parts))
    return None


def _model_call(repo: Path, rel: str, fname: str, file_param: str, sink: str) -> dict:
    """Straight-line reading of a loading model: bindings, the one call of load_cropped_and_aligned_image, the
    scaling of its result, the sink.  `if <flag parameter whose default is False/None>:` blocks are skipped (the
    model is read for its default flags); anything else fails closed."""
    tree = parse(repo, rel)
    fn = find_func(tree, fname)
    params = [a.arg for a in fn.args.args + fn.args.kwonlyargs]
    defaults = {}
    pos_defaults = fn.args.defaults
    for a, d in zip(fn.args.args[len(fn.args.args) - len(pos_defaults):], pos_defaults):
        defaults[a.arg] = d
    for a, d in zip(fn.args.kwonlyargs, fn.args.kw_defaults):
        if d is not None:
            defaults[a.arg] = d
    for need in ("detector", file_param, "position", "align", "time_scale"):
        if need not in params:
            fail(fn, f"{fname}: parameter {need!r} missing")
    alias = {}            # name -> attribute chain it stands for (geo = detector.geometry)
    unpack = {}           # name -> index into `position`
    shape_of = {}         # name -> (GRow|GCol, GRow|GCol)
    mono = {}             # name -> (is_image, (e_step, e_scale, e_mult))
    call = None
    sunk = None

    def chain(node):
        c = _attr_chain(node)
        if c is None:
            return None
        head, _, rest = c.partition(".")
        if head in alias:
            c = alias[head] + ("." + rest if rest else "")
        return c

    def shape_expr(node):
        if isinstance(node, ast.Name) and node.id in shape_of:
            return shape_of[node.id]
        if isinstance(node, ast.Tuple) and len(node.elts) == 2:
            out = []
            for e in node.elts:
                c = chain(e)
                if c == "detector.geometry.row":
                    out.append("GRow")
                elif c == "detector.geometry.col":
                    out.append("GCol")
                else:
                    fail(e, "shape component must be detector.geometry.row / .col")
            return tuple(out)
        fail(node, "shape argument shape")

    def pos_expr(node):
        if isinstance(node, ast.Name) and node.id in unpack:
            return unpack[node.id]
        if (isinstance(node, ast.Subscript) and isinstance(node.value, ast.Name) and node.value.id == "position"
                and isinstance(node.slice, ast.Constant) and node.slice.value in (0, 1)):
            return node.slice.value
        fail(node, "position argument must be a component of `position`")

    def monomial(node):
        """(is_image, exponents) of a product / quotient expression."""
        if isinstance(node, ast.Name):
            if node.id in mono:
                return mono[node.id]
            if node.id == "time_scale":
                return (0, (0, 1, 0))
            if node.id == "multiplier" and "multiplier" in params:
                return (0, (0, 0, 1))
            fail(node, "unknown factor")
        if chain(node) == "detector.time_step":
            return (0, (1, 0, 0))
        if isinstance(node, ast.Constant) and node.value in (1, 1.0) and not isinstance(node.value, bool):
            return (0, (0, 0, 0))
        if isinstance(node, ast.BinOp) and isinstance(node.op, (ast.Mult, ast.Div)):
            (ia, ea), (ib, eb) = monomial(node.left), monomial(node.right)
            sg = 1 if isinstance(node.op, ast.Mult) else -1
            return (ia + sg * ib, tuple(x + sg * y for x, y in zip(ea, eb)))
        fail(node, "scaling expression shape")

    def is_lcai(node):
        return isinstance(node, ast.Call) and ast.unparse(node.func) == "load_cropped_and_aligned_image"

    for st in body_no_doc(fn):
        if isinstance(st, ast.If):
            t = st.test
            flag = t.id if isinstance(t, ast.Name) else None
            d = defaults.get(flag)
            if flag in params and isinstance(d, ast.Constant) and d.value in (False, None) and not st.orelse:
                continue                                   # an optional feature, off by default
            fail(st, "conditional not accepted")
        if isinstance(st, ast.AnnAssign) and st.value is not None and isinstance(st.target, ast.Name):
            st = ast.Assign(targets=[st.target], value=st.value, lineno=st.lineno)
        if isinstance(st, ast.Assign) and len(st.targets) == 1:
            tgt, val = st.targets[0], st.value
            if isinstance(tgt, ast.Tuple) and isinstance(val, ast.Name) and val.id == "position" \
                    and len(tgt.elts) == 2 and all(isinstance(e, ast.Name) for e in tgt.elts):
                for k, e in enumerate(tgt.elts):
                    unpack[e.id] = k
                continue
            if isinstance(tgt, ast.Name):
                new_alias = new_shape = new_mono = None
                if is_lcai(val):
                    if call is not None:
                        fail(val, "second call of load_cropped_and_aligned_image")
                    call = val
                    new_mono = (1, (0, 0, 0))
                else:
                    c = chain(val)
                    if c is not None and c.startswith("detector") and c != "detector.time_step":
                        new_alias = c
                    elif isinstance(val, ast.Tuple):
                        new_shape = shape_expr(val)
                    else:
                        new_mono = monomial(val)
                for dct in (alias, unpack, shape_of, mono):
                    dct.pop(tgt.id, None)
                if new_alias is not None:
                    alias[tgt.id] = new_alias
                if new_shape is not None:
                    shape_of[tgt.id] = new_shape
                if new_mono is not None:
                    mono[tgt.id] = new_mono
                continue
            fail(st, "assignment shape")
        if sink == "photon" and isinstance(st, ast.AugAssign) and isinstance(st.op, ast.Add) \
                and chain(st.target) == "detector.photon":
            if sunk is not None:
                fail(st, "second sink")
            sunk = monomial(st.value)
            continue
        if sink == "charge" and isinstance(st, ast.Expr) and isinstance(st.value, ast.Call) \
                and chain(st.value.func) == "detector.charge.add_charge_array" and len(st.value.args) == 1:
            if sunk is not None:
                fail(st, "second sink")
            sunk = monomial(st.value.args[0])
            continue
        fail(st, f"{fname}: statement not accepted")
    if call is None or sunk is None:
        fail(fn, f"{fname}: call of load_cropped_and_aligned_image or sink not found")
    args = {}
    if len(call.args) > len(LCAI_PARAMS):
        fail(call, "too many positional arguments")
    for name, a in zip(LCAI_PARAMS, call.args):
        args[name] = a
    for kw in call.keywords:
        if kw.arg not in LCAI_PARAMS or kw.arg in args:
            fail(call, "keyword of load_cropped_and_aligned_image")
        args[kw.arg] = kw.value
    for need in ("shape", "filename"):
        if need not in args:
            fail(call, f"argument {need} missing")
    out = dict(shape=shape_expr(args["shape"]))
    out["file"] = isinstance(args["filename"], ast.Name) and args["filename"].id == file_param
    out["py"] = pos_expr(args["position_y"]) if "position_y" in args else None
    out["px"] = pos_expr(args["position_x"]) if "position_x" in args else None
    if out["py"] is None or out["px"] is None:
        fail(call, "position_x / position_y must be passed")
    out["align"] = "align" in args and isinstance(args["align"], ast.Name) and args["align"].id == "align"
    allow = args.get("allow_smaller_array")
    if allow is None:
        out["allow"] = True
    elif isinstance(allow, ast.Constant) and isinstance(allow.value, bool):
        out["allow"] = allow.value
    else:
        fail(allow, "allow_smaller_array must be a literal")
    if sunk[0] != 1:
        fail(fn, "the array added to the bucket must be the loaded image times a factor")
    out["factor"] = sunk[1]
    out["adds"] = True
    return out


def _render_call(name: str, c: dict) -> str:
    b = lambda x: "true" if x else "false"
    return (f"Definition {name} : model_call :=\n"
            f"  {{| mc_shape := ({c['shape'][0]}, {c['shape'][1]}); mc_py := {c['py']}%nat; mc_px := {c['px']}%nat;\n"
            f"     mc_file := {b(c['file'])}; mc_align := {b(c['align'])}; mc_allow := {b(c['allow'])};\n"
            f"     mc_factor := (({c['factor'][0]}), ({c['factor'][1]}), ({c['factor'][2]})); mc_adds := {b(c['adds'])} |}}.\n")


PHOTON_CALL = dict(shape=("GRow", "GCol"), py=0, px=1, file=True, align=True, allow=True, factor=(1, -1, 1), adds=True)
CHARGE_CALL = dict(shape=("GRow", "GCol"), py=0, px=1, file=True, align=True, allow=True, factor=(1, -1, 0), adds=True)


def render(names, align, memo, maxsize, key, delims, state=(), photon=PHOTON_CALL, charge=CHARGE_CALL) -> str:
    nm = "; ".join('("%s"%%string, %s)' % (s.replace('"', '""'), m) for s, m in names)
    br = "\n".join(f"  | {m} => ({align[m][0]}, {align[m][1]})" for m in MEMBERS.values())
    return (PRELUDE +
            f"Definition src_align_names : align_names := [{nm}].\n"
            "Definition src_align (kw : align_kw) (ax ay ox oy : Z) : Z * Z :=\n  match kw with\n"
            f"{br}\n  end.\n"
            f"Definition src_memoised : bool := {'true' if memo else 'false'}.\n"
            f"Definition src_memo_maxsize : nat := {maxsize}%nat.\n"
            f"Definition src_memo_key : list key_field := [{'; '.join(key)}].\n"
            f"Definition src_delims : list delim := [{'; '.join(delims)}].\n"
            "Definition src_loader_state : list string := [" + "; ".join('"%s"%%string' % x for x in state) + "].\n"
            + _render_call("src_photon_call", photon) + _render_call("src_charge_call", charge))


def translate(repo: Path) -> str:
    tree = parse(repo, "pyxel/util/image.py")
    names = _enum(tree)
    for s, _ in names:
        if not all(32 <= ord(c) < 127 for c in s):
            fail(None, "non-ASCII alignment keyword")
    align = _align(tree)
    memo, maxsize, key = _memo(tree)
    delims = _delims(repo)
    photon = _model_call(repo, "pyxel/models/photon_collection/load_image.py", "load_image", "image_file", "photon")
    charge = _model_call(repo, "pyxel/models/charge_generation/load_charge.py", "load_charge", "filename", "charge")
    return render(names, align, memo, maxsize, key, delims, _state(repo), photon, charge)


# the last accepted shape (unchanged tree); keeps a model available for the failing-input search
FALLBACK = render(
    [("center", "Center"), ("top_left", "TopLeft"), ("top_right", "TopRight"),
     ("bottom_left", "BottomLeft"), ("bottom_right", "BottomRight")],
    {"Center": ("(Z.quot (oy - ay) 2)", "(Z.quot (ox - ax) 2)"), "TopLeft": ("(oy - ay)", "(0)"),
     "TopRight": ("(oy - ay)", "(ox - ax)"), "BottomLeft": ("(0)", "(0)"), "BottomRight": ("(0)", "(ox - ax)")},
    False, 0, ["KShape", "KFile", "KPosX", "KPosY", "KAlign", "KAllow"],
    ["DTab", "DSpace", "DComma", "DBar", "DSemicolon"])
