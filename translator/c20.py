"""pyxel/util/image.py + pyxel/inputs/loader.py -> Gen_C20.v

Extracted (fail closed on any other shape):
  * class Alignment(Enum): value string -> member                      -> src_align_names
  * _set_relative_position: one `alignment == Alignment.<m>` branch per member, each returning a pair
    of integer expressions over array_x/array_y/output_x/output_y        -> src_align
  * load_cropped_and_aligned_image: is it decorated with lru_cache, its maxsize, its parameter list
    (= the memoisation key)                                             -> src_memoised, src_memo_maxsize, src_memo_key
  * load_image: the tuple of separators tried for .txt/.data, in order  -> src_delims
  * what could keep loaded content between two calls, in pyxel/inputs/loader.py, pyxel/util/image.py and the two
    loading models: caching decorators on any function, module-level containers that a function mutates
    (subscript store / del, mutating method call, `global`), mutable default arguments, attributes stored on
    functions                                                            -> src_loader_state (names; [] = none)
"""
from __future__ import annotations

import ast
from pathlib import Path

from .common import HEADER, body_no_doc, fail, find_func, parse

MEMBERS = {"center": "Center", "top_left": "TopLeft", "top_right": "TopRight",
           "bottom_left": "BottomLeft", "bottom_right": "BottomRight"}
VARS = {"array_x": "ax", "array_y": "ay", "output_x": "ox", "output_y": "oy"}
KEYS = {"shape": "KShape", "filename": "KFile", "position_x": "KPosX", "position_y": "KPosY",
        "align": "KAlign", "allow_smaller_array": "KAllow"}
DELIMS = {"\t": "DTab", " ": "DSpace", ",": "DComma", "|": "DBar", ";": "DSemicolon"}

PRELUDE = (HEADER +
           "From Coq Require Import ZArith List String.\n"
           "From PyxelV Require Import Model.Placement Model.Memo Model.Delim.\n"
           "Import ListNotations.\nOpen Scope Z_scope.\n")


def _posint(node) -> int:
    if isinstance(node, ast.Constant) and isinstance(node.value, int) and not isinstance(node.value, bool) \
            and node.value > 0:
        return node.value
    fail(node, "expected a positive integer literal")


def expr(node: ast.AST) -> str:
    """Integer expression -> Gallina (Z).  int(e / c) truncates toward zero = Z.quot; e // c = Z.div."""
    if isinstance(node, ast.Name):
        if node.id not in VARS:
            fail(node, "unknown variable in an alignment expression")
        return VARS[node.id]
    if isinstance(node, ast.Constant) and isinstance(node.value, int) and not isinstance(node.value, bool):
        return f"({node.value})"
    if isinstance(node, ast.UnaryOp) and isinstance(node.op, ast.USub):
        return f"(- {expr(node.operand)})"
    if isinstance(node, ast.BinOp):
        if isinstance(node.op, (ast.Add, ast.Sub, ast.Mult)):
            op = {ast.Add: "+", ast.Sub: "-", ast.Mult: "*"}[type(node.op)]
            return f"({expr(node.left)} {op} {expr(node.right)})"
        if isinstance(node.op, ast.FloorDiv):
            return f"(Z.div {expr(node.left)} {_posint(node.right)})"
        fail(node, "operator not accepted in an alignment expression")
    if (isinstance(node, ast.Call) and ast.unparse(node.func) in ("int", "math.trunc", "trunc")
            and len(node.args) == 1 and not node.keywords):
        a = node.args[0]
        if isinstance(a, ast.BinOp) and isinstance(a.op, ast.Div):
            return f"(Z.quot {expr(a.left)} {_posint(a.right)})"
        return expr(a)
    fail(node, "expression shape not accepted")


def _enum(tree) -> list[tuple[str, str]]:
    cls = [n for n in tree.body if isinstance(n, ast.ClassDef) and n.name == "Alignment"]
    if len(cls) != 1:
        fail(None, "class Alignment not found once")
    out = []
    for st in body_no_doc(cls[0]):  # type: ignore[arg-type]
        if (isinstance(st, ast.Assign) and len(st.targets) == 1 and isinstance(st.targets[0], ast.Name)
                and isinstance(st.value, ast.Constant) and isinstance(st.value.value, str)):
            nm = st.targets[0].id
            if nm not in MEMBERS:
                fail(st, "unknown Alignment member")
            out.append((st.value.value, MEMBERS[nm]))
        else:
            fail(st, "Alignment body must be `name = \"string\"` lines")
    if sorted(m for _, m in out) != sorted(MEMBERS.values()):
        fail(cls[0], "Alignment must have exactly the five members")
    return out


def _align(tree) -> dict[str, tuple[str, str]]:
    fn = find_func(tree, "_set_relative_position")
    names = [a.arg for a in fn.args.args + fn.args.kwonlyargs]
    if sorted(names) != sorted(list(VARS) + ["alignment"]):
        fail(fn, "_set_relative_position parameters")
    body = body_no_doc(fn)
    if len(body) in (1, 2) and isinstance(body[0], ast.Match):
        return _align_match(fn, body)
    if len(body) != 1 or not isinstance(body[0], ast.If):
        fail(fn, "_set_relative_position body must be one if/elif chain or one match statement")
    node, res = body[0], {}
    while True:
        t = node.test
        if not (isinstance(t, ast.Compare) and len(t.ops) == 1 and isinstance(t.ops[0], (ast.Eq, ast.Is))
                and isinstance(t.left, ast.Name) and t.left.id == "alignment"
                and isinstance(t.comparators[0], ast.Attribute)
                and isinstance(t.comparators[0].value, ast.Name) and t.comparators[0].value.id == "Alignment"):
            fail(t, "branch test must be `alignment == Alignment.<member>`")
        mem = t.comparators[0].attr
        if mem not in MEMBERS or MEMBERS[mem] in res:
            fail(t, "unknown or repeated member")
        if len(node.body) != 1 or not isinstance(node.body[0], ast.Return) \
                or not isinstance(node.body[0].value, ast.Tuple) or len(node.body[0].value.elts) != 2:
            fail(node, "branch must be a single `return <y>, <x>`")
        y, x = node.body[0].value.elts
        res[MEMBERS[mem]] = (expr(y), expr(x))
        if len(node.orelse) == 1 and isinstance(node.orelse[0], ast.If):
            node = node.orelse[0]
            continue
        if len(node.orelse) == 1 and isinstance(node.orelse[0], ast.Raise):
            break
        fail(node, "chain must end with `else: raise ...`")
    if sorted(res) != sorted(MEMBERS.values()):
        fail(fn, "every member needs a branch")
    return res


def _align_match(fn, body) -> dict[str, tuple[str, str]]:
    """`match alignment: case Alignment.<m>: return <y>, <x> ... [case _: raise ...]` (+ an optional final raise)."""
    m = body[0]
    if not (isinstance(m.subject, ast.Name) and m.subject.id == "alignment"):
        fail(m, "match subject must be `alignment`")
    if len(body) == 2 and not isinstance(body[1], ast.Raise):
        fail(body[1], "only a `raise` may follow the match statement")
    res = {}
    for case in m.cases:
        pat = case.pattern
        if case.guard is not None:
            fail(case.pattern, "guarded case not accepted")
        if isinstance(pat, ast.MatchAs) and pat.pattern is None:          # case _:
            if len(case.body) != 1 or not isinstance(case.body[0], ast.Raise):
                fail(pat, "the default case must raise")
            continue
        if not (isinstance(pat, ast.MatchValue) and isinstance(pat.value, ast.Attribute)
                and isinstance(pat.value.value, ast.Name) and pat.value.value.id == "Alignment"):
            fail(pat, "case pattern must be `Alignment.<member>`")
        mem = pat.value.attr
        if mem not in MEMBERS or MEMBERS[mem] in res:
            fail(pat, "unknown or repeated member")
        if len(case.body) != 1 or not isinstance(case.body[0], ast.Return) \
                or not isinstance(case.body[0].value, ast.Tuple) or len(case.body[0].value.elts) != 2:
            fail(pat, "case must be a single `return <y>, <x>`")
        y, x = case.body[0].value.elts
        res[MEMBERS[mem]] = (expr(y), expr(x))
    if sorted(res) != sorted(MEMBERS.values()):
        fail(fn, "every member needs a case")
    return res


def _memo(tree) -> tuple[bool, int, list[str]]:
    fn = find_func(tree, "load_cropped_and_aligned_image")
    if fn.args.vararg or fn.args.kwarg or fn.args.posonlyargs:
        fail(fn, "load_cropped_and_aligned_image parameter kinds")
    params = [a.arg for a in fn.args.args + fn.args.kwonlyargs]
    for p in params:
        if p not in KEYS:
            fail(fn, f"parameter {p!r} is not a known key field")
    memo, maxsize = False, 0
    for d in fn.decorator_list:
        if isinstance(d, ast.Call):
            f, kws, args = ast.unparse(d.func), d.keywords, d.args
        else:
            f, kws, args = ast.unparse(d), [], []
        if f in ("lru_cache", "functools.lru_cache"):
            memo, maxsize = True, 128
            if args:
                fail(d, "lru_cache positional argument")
            for kw in kws:
                if kw.arg == "maxsize" and isinstance(kw.value, ast.Constant) and isinstance(kw.value.value, int):
                    maxsize = kw.value.value
                elif kw.arg == "typed":
                    continue
                else:
                    fail(d, "lru_cache argument shape")
        elif f in ("cache", "functools.cache"):
            memo, maxsize = True, 4000
        else:
            fail(d, "decorator not accepted")
    if not (0 < maxsize < 5000) and memo:
        fail(fn, "maxsize out of the accepted range")
    return memo, maxsize, [KEYS[p] for p in params]


def _delims(repo: Path) -> list[str]:
    tree = parse(repo, "pyxel/inputs/loader.py")
    fn = find_func(tree, "load_image")
    loops = [n for n in ast.walk(fn) if isinstance(n, ast.For)]
    if len(loops) != 1:
        fail(fn, "load_image must contain exactly one `for sep in (...)` loop")
    lp = loops[0]
    it = lp.iter
    if isinstance(it, ast.Name):             # a module-level constant tuple, bound once
        binds = [st for st in tree.body
                 if (isinstance(st, ast.Assign) and any(isinstance(t, ast.Name) and t.id == it.id for t in st.targets))
                 or (isinstance(st, ast.AnnAssign) and isinstance(st.target, ast.Name) and st.target.id == it.id)]
        stores = [n for n in ast.walk(tree) if isinstance(n, ast.Name) and n.id == it.id and isinstance(n.ctx, ast.Store)]
        if len(binds) != 1 or len(stores) != 1 or binds[0].value is None:
            fail(lp, "separator constant must be bound exactly once at module level")
        it = binds[0].value
    if not (isinstance(lp.target, ast.Name) and isinstance(it, (ast.Tuple, ast.List))):
        fail(lp, "separator loop shape")
    out = []
    for e in it.elts:
        if not (isinstance(e, ast.Constant) and e.value in DELIMS):
            fail(e, "unknown separator")
        out.append(DELIMS[e.value])
    # the loop must try np.loadtxt(..., delimiter=<loop variable>) and stop at the first success
    calls = [c for c in ast.walk(lp) if isinstance(c, ast.Call) and ast.unparse(c.func) == "np.loadtxt"]
    if len(calls) != 1 or not any(k.arg == "delimiter" and isinstance(k.value, ast.Name) and k.value.id == lp.target.id
                                  for k in calls[0].keywords):
        fail(lp, "loop must call np.loadtxt(delimiter=<loop variable>)")
    if not any(isinstance(n, ast.Break) for n in ast.walk(lp)) or not lp.orelse:
        fail(lp, "loop must break at the first success and raise in its else clause")
    return out


STATE_FILES = ("pyxel/inputs/loader.py", "pyxel/util/image.py", "pyxel/models/photon_collection/load_image.py",
               "pyxel/models/charge_generation/load_charge.py")
CONTAINER_CALLS = {"dict", "list", "set", "OrderedDict", "defaultdict", "WeakValueDictionary", "deque", "Counter",
                   "collections.OrderedDict", "collections.defaultdict", "collections.deque",
                   "weakref.WeakValueDictionary", "LRUCache", "TTLCache"}
MUTATORS = {"pop", "popitem", "update", "setdefault", "append", "add", "clear", "insert", "extend", "remove",
            "discard", "move_to_end", "appendleft", "__setitem__", "__delitem__"}
# decorators that do not keep results (anything else on a function of these files fails closed)
PLAIN_DECORATORS = {"staticmethod", "classmethod", "property", "overload", "typing.overload", "deprecated",
                    "typing.no_type_check", "no_type_check"}


def _is_container(v: ast.AST) -> bool:
    if isinstance(v, (ast.Dict, ast.List, ast.Set, ast.DictComp, ast.ListComp, ast.SetComp)):
        return True
    return isinstance(v, ast.Call) and ast.unparse(v.func) in CONTAINER_CALLS


def _state(repo: Path) -> list[str]:
    """Names of everything that could carry loaded content from one call to the next."""
    found: list[str] = []
    for rel in STATE_FILES:
        tree = parse(repo, rel)
        short = rel.rsplit("/", 1)[1][:-3]
        module_containers, func_names = set(), set()
        for st in tree.body:
            tgt = None
            if isinstance(st, ast.Assign) and len(st.targets) == 1 and isinstance(st.targets[0], ast.Name):
                tgt, val = st.targets[0].id, st.value
            elif isinstance(st, ast.AnnAssign) and isinstance(st.target, ast.Name) and st.value is not None:
                tgt, val = st.target.id, st.value
            if tgt is not None and _is_container(val):
                module_containers.add(tgt)
            if isinstance(st, (ast.FunctionDef, ast.AsyncFunctionDef)):
                func_names.add(st.name)
        for fn in [n for n in ast.walk(tree) if isinstance(n, (ast.FunctionDef, ast.AsyncFunctionDef))]:
            if fn.name == "load_cropped_and_aligned_image" and short == "image":
                decos = []                               # read by _memo (src_memoised)
            else:
                decos = fn.decorator_list
            for d in decos:
                name = ast.unparse(d.func if isinstance(d, ast.Call) else d)
                if "cache" in name.lower() or "memo" in name.lower():
                    found.append(f"{short}.{fn.name}@{name}")
                elif name not in PLAIN_DECORATORS:
                    fail(d, f"decorator on {fn.name} not accepted")
            for dflt in list(fn.args.defaults) + [x for x in fn.args.kw_defaults if x is not None]:
                if _is_container(dflt):
                    found.append(f"{short}.{fn.name}(mutable default)")
            for n in ast.walk(fn):
                if isinstance(n, ast.Global):
                    found += [f"{short}.{g} (global in {fn.name})" for g in n.names]
                tgts = []
                if isinstance(n, ast.Assign):
                    tgts = n.targets
                elif isinstance(n, (ast.AugAssign, ast.AnnAssign)):
                    tgts = [n.target]
                elif isinstance(n, ast.Delete):
                    tgts = n.targets
                for t in tgts:
                    if isinstance(t, ast.Subscript) and isinstance(t.value, ast.Name) and t.value.id in module_containers:
                        found.append(f"{short}.{t.value.id} (stored in {fn.name})")
                    if isinstance(t, ast.Attribute) and isinstance(t.value, ast.Name) and t.value.id in func_names:
                        found.append(f"{short}.{t.value.id}.{t.attr} (function attribute set in {fn.name})")
                if (isinstance(n, ast.Call) and isinstance(n.func, ast.Attribute) and n.func.attr in MUTATORS
                        and isinstance(n.func.value, ast.Name) and n.func.value.id in module_containers):
                    found.append(f"{short}.{n.func.value.id} (.{n.func.attr} in {fn.name})")
    out = []
    for f in found:
        if f not in out:
            out.append(f)
    for f in out:
        if not all(32 <= ord(c) < 127 and c != '"' for c in f):
            fail(None, "state name not printable")
    return out


def render(names, align, memo, maxsize, key, delims, state=()) -> str:
    nm = "; ".join('("%s"%%string, %s)' % (s.replace('"', '""'), m) for s, m in names)
    br = "\n".join(f"  | {m} => ({align[m][0]}, {align[m][1]})" for m in MEMBERS.values())
    return (PRELUDE +
            f"Definition src_align_names : align_names := [{nm}].\n"
            "Definition src_align (kw : align_kw) (ax ay ox oy : Z) : Z * Z :=\n  match kw with\n"
            f"{br}\n  end.\n"
            f"Definition src_memoised : bool := {'true' if memo else 'false'}.\n"
            f"Definition src_memo_maxsize : nat := {maxsize}%nat.\n"
            f"Definition src_memo_key : list key_field := [{'; '.join(key)}].\n"
            f"Definition src_delims : list delim := [{'; '.join(delims)}].\n"
            "Definition src_loader_state : list string := [" + "; ".join('"%s"%%string' % x for x in state) + "].\n")


def translate(repo: Path) -> str:
    tree = parse(repo, "pyxel/util/image.py")
    names = _enum(tree)
    for s, _ in names:
        if not all(32 <= ord(c) < 127 for c in s):
            fail(None, "non-ASCII alignment keyword")
    align = _align(tree)
    memo, maxsize, key = _memo(tree)
    delims = _delims(repo)
    return render(names, align, memo, maxsize, key, delims, _state(repo))


# the last accepted shape (unchanged tree); keeps a model available for the failing-input search
FALLBACK = render(
    [("center", "Center"), ("top_left", "TopLeft"), ("top_right", "TopRight"),
     ("bottom_left", "BottomLeft"), ("bottom_right", "BottomRight")],
    {"Center": ("(Z.quot (oy - ay) 2)", "(Z.quot (ox - ax) 2)"), "TopLeft": ("(oy - ay)", "(0)"),
     "TopRight": ("(oy - ay)", "(ox - ax)"), "BottomLeft": ("(0)", "(0)"), "BottomRight": ("(0)", "(ox - ax)")},
    False, 0, ["KShape", "KFile", "KPosX", "KPosY", "KAlign", "KAllow"],
    ["DTab", "DSpace", "DComma", "DBar", "DSemicolon"])
