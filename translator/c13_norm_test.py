"""Self-test of translator/c13_norm.py: classes of equivalent spellings must get ONE canonical form, look-alikes that
change behaviour must get another one or fail closed.  Run by harness/props/c13.py on every check (milliseconds) and by
`/venv/bin/python -m translator.c13_norm_test`."""
from __future__ import annotations

import ast

from harness.core import TranslationError

from . import c13_norm as N

# a second module of the same code base: helpers imported from it are followed and read in ITS vocabulary
OTHER = '''
import numpy as np
_KIND = np.ndarray
_RANK = 2
def _far_is_nd(value, *, cls_name):
    """doc"""
    if not isinstance(value, np.ndarray):
        raise TypeError(f"{cls_name} no array")
def _far_rank(value, *, cls_name, rank=_RANK):
    if value.ndim != _RANK:
        raise ValueError(f"{cls_name}: {rank}")
def _far_text(*, cls_name, what):
    return f"{cls_name} has no {what}"
def _far_text_effect(*, cls_name, what):
    what.clear()
    return f"{cls_name} has no {what}"
'''
# ... and one that spells numpy differently: its helpers are not followed
ODD = '''
import numpy.ma as np
def _odd_is_nd(value, *, cls_name):
    if not isinstance(value, np.ndarray):
        raise TypeError(f"{cls_name} no array")
'''

MODULE = '''
import numpy as np
from pkg.other import _far_is_nd, _far_rank, _far_text, _far_text_effect
from pkg.odd import _odd_is_nd
def _chk_nd(value, *, cls_name):
    if not isinstance(value, np.ndarray):
        raise TypeError(f"{cls_name} array should be a numpy.ndarray")
def _chk_rank(value, *, cls_name, rank):
    if value.ndim != rank:
        raise ValueError(f"{cls_name}: expected {rank}")
def _pick(*, first, second):
    return first
_DIMS = ("wavelength", "y", "x")
_LIMIT: int = 3
def _is_set(data):
    """doc"""
    return data is not None
def _clip(v):
    if np.any(v < 0):
        v = np.clip(v, 0, None)
        warnings.warn("clipped")
    return v
class K:
    def _acc(self, other):
        """doc"""
        cur = self._array
        if cur is None:
            self.array = other
            return
        tmp = cur.copy()
        tmp += other
        self.array = tmp
    def _acc_inplace(self, other):
        cur = self._array
        if cur is None:
            self.array = other
            return
        cur += other
        self.array = cur
    def _acc_dropped(self, other):
        if self._array is None:
            self.array = None
            return
        tmp = self._array.copy()
        tmp += other
        self.array = tmp
    @staticmethod
    def _nd(x):
        return isinstance(x, np.ndarray)
    def _msg(self):
        name = "k"
        return f"{name} is empty"
'''

# (name, [equivalent bodies of `def f(self, other)` ...])
SAME = [
    ("guard clause / if-else / inverted / helper / alias", [
        "if self._array is not None:\n    new = self._array.copy()\n    new += other\n    self.array = new\nelse:\n    self.array = other\nreturn self",
        "if self._array is None:\n    self.array = other\n    return self\nsummed = self._array.copy()\nsummed += other\nself.array = summed\nreturn self",
        "self._acc(other)\nreturn self",
        "cur = self._array\nif not (cur is not None):\n    self.array = other\nelse:\n    t: np.ndarray = cur.copy()\n    t += other\n    self.array = t\nreturn self",
    ]),
    ("raise guards: else after raise, inverted test, message text, message locals, logging", [
        "if not isinstance(other, np.ndarray):\n    raise TypeError('a')\nif other.ndim != 2:\n    raise ValueError('b')\nself._array = other",
        "if isinstance(other, np.ndarray):\n    if other.ndim == 2:\n        self._array = other\n    else:\n        raise ValueError(f'{other.ndim}')\nelse:\n    m = self._msg()\n    raise TypeError(m)",
        "if not self._nd(other):\n    raise TypeError()\nelif other.ndim != 2:\n    logging.debug('x')\n    names = ', '.join([str(d) for d in self.TYPE_LIST])\n    raise ValueError(names)\nelse:\n    self._array = other\n    return",
    ]),
    ("chained comparison / is None / De Morgan / and == nested ifs", [
        "if self._array is other._array is None:\n    return True\nif self._n != other._n or self._m != other._m:\n    return False\nreturn 1",
        "a = self._array\nb = other._array\nif a is None and b is None:\n    return True\nif not (self._n == other._n and self._m == other._m):\n    return False\nreturn 1",
        "if self._array is None:\n    if other._array is None:\n        return True\nif self._n != other._n:\n    return False\nif self._m != other._m:\n    return False\nreturn 1",
    ]),
    ("module constant / expression helper / conditional expression / named result", [
        "if other.dims != ('wavelength', 'y', 'x'):\n    raise ValueError()\nif not _is_set(self._array):\n    return 0\nreturn self._n if other.k == 3 else self._m",
        "if other.dims != _DIMS:\n    raise ValueError('dims')\nif self._array is None:\n    return 0\nif other.k == _LIMIT:\n    res = self._n\nelse:\n    res = self._m\nreturn res",
    ]),
    ("match == if/elif", [
        "if other._array is None:\n    self.p.empty()\nelif isinstance(other._array, np.ndarray):\n    self.p.array = other.array\nelse:\n    self.p.array_3d = other.array_3d",
        "match other._array:\n    case None:\n        self.p.empty()\n    case np.ndarray():\n        self.p.array = other.array\n    case _:\n        self.p.array_3d = other.array_3d",
        "c = other._array\nif c is None:\n    self.p.empty()\n    return\nif isinstance(c, np.ndarray):\n    self.p.array = other.array\n    return\nself.p.array_3d = other.array_3d",
    ]),
    ("raise X == raise X(...); tuple unpacking; staticmethod helper; argument of the call that stores", [
        "if not isinstance(other, np.ndarray):\n    raise TypeError\nsuper().__init__(shape=(other.row, other.col))",
        "if not self._nd(other):\n    raise TypeError('no array')\nr, c = other.row, other.col\nsuper().__init__(shape=(r, c))",
    ]),
    ("phases as module-level functions with keyword-only parameters (same module / imported from another module)", [
        "if not isinstance(other, np.ndarray):\n    raise TypeError('a')\nif other.ndim != 2:\n    raise ValueError('b')\nself._array = other",
        "name = self.__class__.__name__\n_chk_nd(other, cls_name=name)\n_chk_rank(other, cls_name=name, rank=2)\nself._array = other",
        "name = self.__class__.__name__\n_chk_nd(other, cls_name=name)\n_chk_rank(other, rank=2, cls_name=name)\nself._array = other",
        "_far_is_nd(other, cls_name=self.__class__.__name__)\n_far_rank(other, cls_name='K')\nself._array = other",
    ]),
    ("match with capture patterns (`case x:`, `case Cls() as x:`) == if/elif over the subject", [
        "if self._array is None:\n    raise ValueError('empty')\nif isinstance(self._array, np.ndarray):\n    raise TypeError('2d')\nreturn self._array",
        "match self._array:\n    case None:\n        m = self._msg()\n        raise ValueError(m)\n    case np.ndarray():\n        raise TypeError('2d')\n    case data:\n        return data",
        "match self._array:\n    case None:\n        raise ValueError\n    case np.ndarray() as d2:\n        raise TypeError(f'{d2.shape}')\n    case _ as d3:\n        return d3",
    ]),
    ("walrus in the first operand of a test == assignment in front of it", [
        "cur = self._array\nif cur is None:\n    raise ValueError()\nif isinstance(cur, np.ndarray):\n    raise TypeError()\nreturn cur",
        "if (cur := self._array) is None:\n    raise ValueError('e')\nelif isinstance(cur, np.ndarray):\n    raise TypeError('t')\nreturn cur",
        "if not ((cur := self._array) is not None):\n    raise ValueError\nif isinstance(cur, np.ndarray):\n    raise TypeError\nreturn cur",
    ]),
    ("helper returning a value", [
        "if np.any(other < 0):\n    other = np.clip(other, 0, None)\n    warnings.warn('x')\nself._array = other.copy()",
        "other = _clip(other)\nself._array = other.copy()",
    ]),
]

# (name, reference body, look-alike that must NOT get the reference's canonical form)
DIFFERENT = [
    ("in-place addition on the alias of the stored array",
     "self._acc(other)\nreturn self", "self._acc_inplace(other)\nreturn self"),
    ("helper with the argument dropped",
     "self._acc(other)\nreturn self", "self._acc_dropped(other)\nreturn self"),
    ("alias taken before the re-binding",
     "if np.any(other < 0):\n    other = np.clip(other, 0, None)\nself._array = other.copy()",
     "keep = other\nif np.any(other < 0):\n    other = np.clip(other, 0, None)\nself._array = keep.copy()"),
    ("alias used after the store",
     "self.array = other\nreturn self._array", "cur = self._array\nself.array = other\nreturn cur"),
    ("guard clause with the condition not inverted",
     "if other is not None:\n    self.array = other\nelse:\n    self.empty()", "if other is not None:\n    self.empty()\n    return\nself.array = other"),
    ("early return forgotten",
     "if other._array is None:\n    self.p.empty()\nelse:\n    self.p.array = other.array",
     "if other._array is None:\n    self.p.empty()\nself.p.array = other.array"),
    ("result of the clipping helper dropped",
     "other = _clip(other)\nself._array = other.copy()", "_clip(other)\nself._array = other.copy()"),
    ("possibly raising alias moved in front of a guard",
     "if not isinstance(other, np.ndarray):\n    raise TypeError()\nif other.dtype not in self.TYPE_LIST:\n    raise ValueError()",
     "dt = other.dtype\nif not isinstance(other, np.ndarray):\n    raise TypeError()\nif dt not in self.TYPE_LIST:\n    raise ValueError()"),
    ("alias of object state read after unknown code ran in the same statement",
     "self.push(self.reset_all(), self._array)", "cur = self._array\nself.push(self.reset_all(), cur)"),
    ("keyword arguments of a followed helper swapped",
     "return _pick(first=self._n, second=self._m)", "return _pick(first=self._m, second=self._n)"),
    ("phases called in another order",
     "_chk_nd(other, cls_name='k')\n_chk_rank(other, cls_name='k', rank=2)\nself._array = other",
     "_chk_rank(other, cls_name='k', rank=2)\n_chk_nd(other, cls_name='k')\nself._array = other"),
    ("a phase checks something else than what it is handed",
     "_chk_nd(other, cls_name='k')\n_chk_rank(other, cls_name='k', rank=2)\nself._array = other",
     "_chk_nd(other, cls_name='k')\n_chk_rank(other, cls_name='k', rank=3)\nself._array = other"),
    ("captured subject returned after the state it was read from changed",
     "match self._array:\n    case None:\n        raise ValueError\n    case d:\n        self.reset()\n        return self._array",
     "match self._array:\n    case None:\n        raise ValueError\n    case d:\n        self.reset()\n        return d"),
    ("class pattern against another class",
     "match self._array:\n    case np.ndarray() as d:\n        return d\n    case _:\n        raise TypeError",
     "match self._array:\n    case xr.DataArray() as d:\n        return d\n    case _:\n        raise TypeError"),
    ("helper imported from a module in which `np` is something else is not read as if it were numpy",
     "_far_is_nd(other, cls_name='k')\nself._array = other", "_odd_is_nd(other, cls_name='k')\nself._array = other"),
    ("walrus that is not evaluated first / not always",
     "cur = self._array\nif other.flag and cur is None:\n    raise ValueError()\nreturn cur",
     "if other.flag and (cur := self._array) is None:\n    raise ValueError()\nreturn cur"),
    ("walrus-bound alias read after the state changed",
     "if self._array is None:\n    raise ValueError()\nself.reset()\nreturn self._array",
     "if (cur := self._array) is None:\n    raise ValueError()\nself.reset()\nreturn cur"),
    ("or is not and",
     "if self._a is None or other._a is None:\n    return 0\nreturn 1", "if self._a is None and other._a is None:\n    return 0\nreturn 1"),
]


def _loader():
    mods = {}
    for name, src in (("pkg.other", OTHER), ("pkg.odd", ODD)):
        mods[name] = ast.parse(src)
        mods[name]._modname, mods[name]._is_pkg = name, False
    return mods.get


def message_only_checks() -> list[str]:
    """an override that only builds text may delegate to a text-building helper in another module -- not to one with an effect"""
    bad = []
    mod = ast.parse(MODULE + "\n    def g(self):\n        return _far_text(cls_name=self.__class__.__name__, what='array')\n"
                    "    def h(self):\n        return _far_text_effect(cls_name=self.__class__.__name__, what=self._log)\n"
                    "    def i(self):\n        return self.describe()\n")
    cls = [n for n in mod.body if isinstance(n, ast.ClassDef)][0]
    fns = {n.name: n for n in cls.body if isinstance(n, ast.FunctionDef)}
    if not N.is_message_only(fns["_msg"]) or not N.is_message_only(fns["g"], mod, [cls], _loader()):
        bad.append("message-only helper (delegating to a text helper of another module) not recognised")
    if N.is_message_only(fns["g"]):
        bad.append("a call was taken for text without following it")
    for nm in ("h", "i", "_acc"):
        if N.is_message_only(fns[nm], mod, [cls], _loader()):
            bad.append(f"{nm}: a helper with an effect / an unknown call was taken for message-only")
    return bad


def canon(body: str):
    mod = ast.parse(MODULE + "\n    def f(self, other):\n" + "\n".join("        " + l for l in body.splitlines()) + "\n")
    cls = [n for n in mod.body if isinstance(n, ast.ClassDef)][0]
    fn = [n for n in cls.body if isinstance(n, ast.FunctionDef) and n.name == "f"][0]
    return ast.unparse(N.normalize(fn, mod, scopes=[cls], loader=_loader()))


def run() -> list[str]:
    """-> list of failures (empty = fine)"""
    bad = []
    for name, bodies in SAME:
        try:
            forms = [canon(b) for b in bodies]
        except TranslationError as ex:
            bad.append(f"{name}: fails closed on an equivalent spelling: {ex}")
            continue
        for i, f in enumerate(forms[1:], 1):
            if f != forms[0]:
                bad.append(f"{name}: spelling {i} is not recognised as spelling 0:\n{forms[0]}\n--- vs ---\n{f}")
    for name, ref, other in DIFFERENT:
        r = canon(ref)
        try:
            o = canon(other)
        except TranslationError:
            continue
        if o == r:
            bad.append(f"{name}: a behaviour-changing look-alike got the canonical form of the original:\n{r}")
    return bad + message_only_checks()


if __name__ == "__main__":
    import sys

    fails = run()
    for f in fails:
        print("FAIL", f)
    print(f"{len(SAME)} equivalence classes, {len(DIFFERENT)} look-alikes: {'ok' if not fails else str(len(fails)) + ' failure(s)'}")
    sys.exit(1 if fails else 0)
