"""Self-test of translator/c13_norm.py: classes of equivalent spellings must get ONE canonical form, look-alikes that
change behaviour must get another one or fail closed.  Run by harness/props/c13.py on every check (milliseconds) and by
`/venv/bin/python -m translator.c13_norm_test`."""
from __future__ import annotations

import ast

from harness.core import TranslationError

from . import c13_norm as N

MODULE = '''
import numpy as np
_DIMS = ("wavelength", "y", "x")
_LIMIT: int = 3
def _is_set(data):
    """doc"""
    return data is not None
def _clip(v):
    if np.any(v < 0):
        v = np.clip(v, 0, None)
        warnings.warn("clipped")
    return v
class K:
    def _acc(self, other):
        """doc"""
        cur = self._array
        if cur is None:
            self.array = other
            return
        tmp = cur.copy()
        tmp += other
        self.array = tmp
    def _acc_inplace(self, other):
        cur = self._array
        if cur is None:
            self.array = other
            return
        cur += other
        self.array = cur
    def _acc_dropped(self, other):
        if self._array is None:
            self.array = None
            return
        tmp = self._array.copy()
        tmp += other
        self.array = tmp
    @staticmethod
    def _nd(x):
        return isinstance(x, np.ndarray)
    def _msg(self):
        name = "k"
        return f"{name} is empty"
'''

# (name, [equivalent bodies of `def f(self, other)` ...])
SAME = [
    ("guard clause / if-else / inverted / helper / alias", [
        "if self._array is not None:\n    new = self._array.copy()\n    new += other\n    self.array = new\nelse:\n    self.array = other\nreturn self",
        "if self._array is None:\n    self.array = other\n    return self\nsummed = self._array.copy()\nsummed += other\nself.array = summed\nreturn self",
        "self._acc(other)\nreturn self",
        "cur = self._array\nif not (cur is not None):\n    self.array = other\nelse:\n    t: np.ndarray = cur.copy()\n    t += other\n    self.array = t\nreturn self",
    ]),
    ("raise guards: else after raise, inverted test, message text, message locals, logging", [
        "if not isinstance(other, np.ndarray):\n    raise TypeError('a')\nif other.ndim != 2:\n    raise ValueError('b')\nself._array = other",
        "if isinstance(other, np.ndarray):\n    if other.ndim == 2:\n        self._array = other\n    else:\n        raise ValueError(f'{other.ndim}')\nelse:\n    m = self._msg()\n    raise TypeError(m)",
        "if not self._nd(other):\n    raise TypeError()\nelif other.ndim != 2:\n    logging.debug('x')\n    names = ', '.join([str(d) for d in self.TYPE_LIST])\n    raise ValueError(names)\nelse:\n    self._array = other\n    return",
    ]),
    ("chained comparison / is None / De Morgan / and == nested ifs", [
        "if self._array is other._array is None:\n    return True\nif self._n != other._n or self._m != other._m:\n    return False\nreturn 1",
        "a = self._array\nb = other._array\nif a is None and b is None:\n    return True\nif not (self._n == other._n and self._m == other._m):\n    return False\nreturn 1",
        "if self._array is None:\n    if other._array is None:\n        return True\nif self._n != other._n:\n    return False\nif self._m != other._m:\n    return False\nreturn 1",
    ]),
    ("module constant / expression helper / conditional expression / named result", [
        "if other.dims != ('wavelength', 'y', 'x'):\n    raise ValueError()\nif not _is_set(self._array):\n    return 0\nreturn self._n if other.k == 3 else self._m",
        "if other.dims != _DIMS:\n    raise ValueError('dims')\nif self._array is None:\n    return 0\nif other.k == _LIMIT:\n    res = self._n\nelse:\n    res = self._m\nreturn res",
    ]),
    ("match == if/elif", [
        "if other._array is None:\n    self.p.empty()\nelif isinstance(other._array, np.ndarray):\n    self.p.array = other.array\nelse:\n    self.p.array_3d = other.array_3d",
        "match other._array:\n    case None:\n        self.p.empty()\n    case np.ndarray():\n        self.p.array = other.array\n    case _:\n        self.p.array_3d = other.array_3d",
        "c = other._array\nif c is None:\n    self.p.empty()\n    return\nif isinstance(c, np.ndarray):\n    self.p.array = other.array\n    return\nself.p.array_3d = other.array_3d",
    ]),
    ("raise X == raise X(...); tuple unpacking; staticmethod helper; argument of the call that stores", [
        "if not isinstance(other, np.ndarray):\n    raise TypeError\nsuper().__init__(shape=(other.row, other.col))",
        "if not self._nd(other):\n    raise TypeError('no array')\nr, c = other.row, other.col\nsuper().__init__(shape=(r, c))",
    ]),
    ("helper returning a value", [
        "if np.any(other < 0):\n    other = np.clip(other, 0, None)\n    warnings.warn('x')\nself._array = other.copy()",
        "other = _clip(other)\nself._array = other.copy()",
    ]),
]

# (name, reference body, look-alike that must NOT get the reference's canonical form)
DIFFERENT = [
    ("in-place addition on the alias of the stored array",
     "self._acc(other)\nreturn self", "self._acc_inplace(other)\nreturn self"),
    ("helper with the argument dropped",
     "self._acc(other)\nreturn self", "self._acc_dropped(other)\nreturn self"),
    ("alias taken before the re-binding",
     "if np.any(other < 0):\n    other = np.clip(other, 0, None)\nself._array = other.copy()",
     "keep = other\nif np.any(other < 0):\n    other = np.clip(other, 0, None)\nself._array = keep.copy()"),
    ("alias used after the store",
     "self.array = other\nreturn self._array", "cur = self._array\nself.array = other\nreturn cur"),
    ("guard clause with the condition not inverted",
     "if other is not None:\n    self.array = other\nelse:\n    self.empty()", "if other is not None:\n    self.empty()\n    return\nself.array = other"),
    ("early return forgotten",
     "if other._array is None:\n    self.p.empty()\nelse:\n    self.p.array = other.array",
     "if other._array is None:\n    self.p.empty()\nself.p.array = other.array"),
    ("result of the clipping helper dropped",
     "other = _clip(other)\nself._array = other.copy()", "_clip(other)\nself._array = other.copy()"),
    ("possibly raising alias moved in front of a guard",
     "if not isinstance(other, np.ndarray):\n    raise TypeError()\nif other.dtype not in self.TYPE_LIST:\n    raise ValueError()",
     "dt = other.dtype\nif not isinstance(other, np.ndarray):\n    raise TypeError()\nif dt not in self.TYPE_LIST:\n    raise ValueError()"),
    ("alias of object state read after unknown code ran in the same statement",
     "self.push(self.reset_all(), self._array)", "cur = self._array\nself.push(self.reset_all(), cur)"),
    ("or is not and",
     "if self._a is None or other._a is None:\n    return 0\nreturn 1", "if self._a is None and other._a is None:\n    return 0\nreturn 1"),
]


def canon(body: str):
    mod = ast.parse(MODULE + "\n    def f(self, other):\n" + "\n".join("        " + l for l in body.splitlines()) + "\n")
    cls = [n for n in mod.body if isinstance(n, ast.ClassDef)][0]
    fn = [n for n in cls.body if isinstance(n, ast.FunctionDef) and n.name == "f"][0]
    return ast.unparse(N.normalize(fn, mod, scopes=[cls]))


def run() -> list[str]:
    """-> list of failures (empty = fine)"""
    bad = []
    for name, bodies in SAME:
        try:
            forms = [canon(b) for b in bodies]
        except TranslationError as ex:
            bad.append(f"{name}: fails closed on an equivalent spelling: {ex}")
            continue
        for i, f in enumerate(forms[1:], 1):
            if f != forms[0]:
                bad.append(f"{name}: spelling {i} is not recognised as spelling 0:\n{forms[0]}\n--- vs ---\n{f}")
    for name, ref, other in DIFFERENT:
        r = canon(ref)
        try:
            o = canon(other)
        except TranslationError:
            continue
        if o == r:
            bad.append(f"{name}: a behaviour-changing look-alike got the canonical form of the original:\n{r}")
    return bad


if __name__ == "__main__":
    import sys

    fails = run()
    for f in fails:
        print("FAIL", f)
    print(f"{len(SAME)} equivalence classes, {len(DIFFERENT)} look-alikes: {'ok' if not fails else str(len(fails)) + ' failure(s)'}")
    sys.exit(1 if fails else 0)
