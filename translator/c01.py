"""pyxel/pipelines/{pipeline,processor,model_group,model_function}.py -> Gallina tables for C01.

Extracted (fail closed on any other shape):
  * DetectionPipeline.MODEL_GROUPS            -> src_model_groups   (tuple of string literals)
  * DetectionPipeline.__init__ keywords       -> src_ctor_kwargs
  * `self._X = ModelGroup(k, name="n") if k else None` for every keyword k
                                              -> src_ctor_feeds     (k, "_X", "n")
  * the group properties `return self._X`     -> src_properties     (property, "_X")
  * which attribute is iterated by Processor.run_pipeline / model_group_names / __iter__
                                              -> src_iterated_by
  * under which conditions run_pipeline skips a group of the order (`if <test>: continue`, or the call nested
    in `if <group>:`)                         -> src_run_pipeline_skips  ("absent" = the group is None / falsy)
  * ModelGroup.__iter__ guard, ModelGroup.run loop source, ModelFunction.__call__ argument passing
                                              -> src_group_iter_guard, src_group_run_iterates, src_model_call
  * the attributes ModelGroup.__init__ sets and the ones __setstate__ restores (pickle round trip)
                                              -> src_group_init_attrs, src_group_setstate_attrs
  * every read of `detector.intermediate` in exposure.run_pipeline, "guarded" by a test of `_intermediate`
    or "bare"                                 -> src_intermediate_reads
The AST values are cross-checked against the imported module (MODEL_GROUPS, model_group_names,
constructor signature) in a subprocess running with PYTHONPATH = the tree under test.
"""
from __future__ import annotations

import ast
import json
import os
import subprocess
from pathlib import Path

from harness.core import TranslationError

from . import c01_norm as N
from .common import HEADER, fail, find_func, parse

PRELUDE = ("From Coq Require Import List String.\nImport ListNotations.\nOpen Scope string_scope.\n")


def _s(x: str) -> str:
    if not all(32 <= ord(c) < 127 for c in x) or '"' in x:
        raise TranslationError(f"unexpected character in identifier {x!r}")
    return '"' + x + '"'


def _lst(items) -> str:
    items = list(items)
    return "[" + "; ".join(items) + "]" if items else "[]"


def _cls(tree: ast.Module, name: str) -> ast.ClassDef:
    c = [n for n in tree.body if isinstance(n, ast.ClassDef) and n.name == name]
    if len(c) != 1:
        raise TranslationError(f"class {name}: found {len(c)}")
    return c[0]


def _is_self_attr(node, attr=None) -> bool:
    return (isinstance(node, ast.Attribute) and isinstance(node.value, ast.Name) and node.value.id == "self"
            and (attr is None or node.attr == attr))


def _norm(scope: N.Scope, fn: ast.FunctionDef) -> list:
    """the function's body after the general normalisations of translator/c01_norm.py, without no-op statements"""
    return [s for s in N.Normaliser(scope).normalise(fn) if not N.is_noise(s)]


def _str_seq(node, scope: N.Scope, depth=0) -> list[str]:
    """tuple / list of string literals; a Name is resolved to its single class- or module-level assignment;
    `a + b` and `(*a, "x")` of such sequences are accepted"""
    if depth > 4:
        fail(node, "constant resolution too deep")
    if isinstance(node, (ast.Tuple, ast.List)):
        out = []
        for e in node.elts:
            if isinstance(e, ast.Constant) and isinstance(e.value, str):
                out.append(e.value)
            elif isinstance(e, ast.Starred):
                out += _str_seq(e.value, scope, depth + 1)
            else:
                fail(node, "MODEL_GROUPS must be a sequence of string literals")
        return out
    if isinstance(node, ast.Name):
        v = scope.constant(node.id)
        if v is None:
            fail(node, "name without a single module-level assignment")
        return _str_seq(v, scope, depth + 1)
    if isinstance(node, ast.BinOp) and isinstance(node.op, ast.Add):
        return _str_seq(node.left, scope, depth + 1) + _str_seq(node.right, scope, depth + 1)
    fail(node, "MODEL_GROUPS must be a tuple of string literals")


def _model_groups(cls: ast.ClassDef, scope: N.Scope) -> list[str]:
    found = []
    for st in cls.body:
        tgt = None
        if isinstance(st, ast.AnnAssign) and isinstance(st.target, ast.Name):
            tgt, val = st.target.id, st.value
        elif isinstance(st, ast.Assign) and len(st.targets) == 1 and isinstance(st.targets[0], ast.Name):
            tgt, val = st.targets[0].id, st.value
        if tgt == "MODEL_GROUPS":
            found.append(val)
    if len(found) != 1 or found[0] is None:
        raise TranslationError(f"MODEL_GROUPS: {len(found)} class-level assignments")
    return _str_seq(found[0], scope)


def _no_rebinding(tree: ast.Module, cls: ast.ClassDef):
    for n in ast.walk(tree):
        if isinstance(n, (ast.Assign, ast.AugAssign, ast.AnnAssign)):
            tgts = n.targets if isinstance(n, ast.Assign) else [n.target]
            for t in tgts:
                if isinstance(t, ast.Attribute) and t.attr == "MODEL_GROUPS":
                    fail(n, "MODEL_GROUPS is rebound")
        if isinstance(n, ast.Call) and isinstance(n.func, ast.Name) and n.func.id == "setattr":
            fail(n, "setattr in pipeline.py")


def _ctor(cls: ast.ClassDef, scope: N.Scope):
    fn = find_func(cls, "__init__")
    a = fn.args
    if a.vararg or a.kwarg or a.posonlyargs or a.kwonlyargs:
        fail(fn, "__init__ signature")
    names = [x.arg for x in a.args]
    if not names or names[0] != "self":
        fail(fn, "__init__ signature")
    kwargs = names[1:]
    if len(a.defaults) != len(kwargs) or not all(isinstance(d, ast.Constant) and d.value is None for d in a.defaults):
        fail(fn, "every constructor keyword must default to None")
    feeds = []
    # after normalisation (helpers inlined, if/else -> conditional expression, `not k` flipped) every statement is
    #     self._X = ModelGroup(k, name="n") if k else None
    for st in _norm(scope, fn):
        if isinstance(st, ast.Assign) and len(st.targets) == 1:
            tgt, val = st.targets[0], st.value
        else:
            fail(st, "__init__ may only assign the group attributes")
        if not _is_self_attr(tgt):
            fail(st, "__init__ may only assign self._<group>")
        ok = (isinstance(val, ast.IfExp) and isinstance(val.test, ast.Name)
              and isinstance(val.orelse, ast.Constant) and val.orelse.value is None
              and isinstance(val.body, ast.Call) and isinstance(val.body.func, ast.Name)
              and val.body.func.id == "ModelGroup")
        if not ok:
            fail(st, "expected `ModelGroup(k, name=...) if k else None`")
        call = val.body
        pos = list(call.args)
        kws = {k.arg: k.value for k in call.keywords}
        models = pos[0] if pos else kws.get("models")
        label = pos[1] if len(pos) > 1 else kws.get("name")
        if len(pos) > 2 or set(kws) - {"models", "name"}:
            fail(st, "unexpected ModelGroup arguments")
        if not (isinstance(models, ast.Name) and models.id == val.test.id):
            fail(st, "the tested keyword and the keyword passed to ModelGroup differ")
        if isinstance(label, ast.Name) and scope.constant(label.id) is not None:
            label = scope.constant(label.id)
        if not (isinstance(label, ast.Constant) and isinstance(label.value, str)):
            fail(st, "ModelGroup name must be a string literal")
        feeds.append((models.id, tgt.attr, label.value))
    if len({f[1] for f in feeds}) != len(feeds):
        raise TranslationError("an attribute is assigned twice in DetectionPipeline.__init__")
    return kwargs, feeds


def _decorated_property(fn: ast.FunctionDef) -> bool:
    return len(fn.decorator_list) == 1 and isinstance(fn.decorator_list[0], ast.Name) and fn.decorator_list[0].id == "property"


def _returned_self_attr(scope: N.Scope, fn: ast.FunctionDef):
    """X when the (normalised) function is `return self.X` / `return type(self).X` / `return <Class>.X`, else None"""
    b = _norm(scope, fn)
    if len(b) != 1 or not isinstance(b[0], ast.Return) or not isinstance(b[0].value, ast.Attribute):
        return None
    v = b[0].value
    base = ast.unparse(v.value)
    if base in ("self", "type(self)", "self.__class__") or (scope.cls is not None and base == scope.cls.name):
        return v.attr
    return None


def _properties(cls: ast.ClassDef, groups: list[str], scope: N.Scope):
    props = []
    for st in cls.body:
        if isinstance(st, ast.FunctionDef) and st.name in groups:
            if not _decorated_property(st):
                fail(st, "group accessor must be a plain @property")
            x = _returned_self_attr(scope, st)
            if x is None:
                fail(st, "group property must be `return self._<group>`")
            props.append((st.name, x))
    if len({p[0] for p in props}) != len(props):
        raise TranslationError("a group property is defined twice")
    # __getattr__/__getattribute__ on the pipeline class would bypass the properties
    for st in cls.body:
        if isinstance(st, ast.FunctionDef) and st.name in ("__getattr__", "__getattribute__"):
            fail(st, "DetectionPipeline defines attribute hooks")
    return props


def _resolve_attr(scope: N.Scope, attr: str) -> str:
    """follow trivial properties of the class: `model_group_names` -> `MODEL_GROUPS`"""
    for _ in range(4):
        fn = scope.methods.get(attr)
        if fn is None or not _decorated_property(fn):
            return attr
        x = _returned_self_attr(scope, fn)
        if x is None:
            fail(fn, "property is not `return self.<attr>`")
        attr = x
    return attr


def _skip_of(text: str, pol: bool, grp) -> str:
    """One conjunct (text, polarity) of the condition under which the group RUNS, turned into the condition under
    which it is SKIPPED, with the fetched group written GROUP; the two spellings of "there is no such group"
    (falsy / is None: a ModelGroup defines neither __bool__ nor __len__) are "absent"."""
    if grp:
        import re
        text = re.sub(rf"\b{re.escape(grp)}\b", "GROUP", text)
    if (text == "GROUP" and pol) or (text == "GROUP is None" and not pol):
        return "absent"
    return ("not (" + text + ")") if pol else text


def _loop_stmts_ok(stmts, allowed, where):
    for st in stmts:
        if N.is_noise(st):
            continue
        if isinstance(st, ast.If):
            _loop_stmts_ok(st.body, allowed, where)
            _loop_stmts_ok(st.orelse, allowed, where)
        elif not isinstance(st, allowed):
            fail(st, f"{where}: unexpected statement in the loop")


def _iterated(cls: ast.ClassDef, pscope: N.Scope, proc_tree: ast.Module, mg_tree: ast.Module, out_skips: list):
    out = []
    # Processor.run_pipeline: `for g in self.pipeline.<attr>:` ... getattr(self.pipeline, g) ... .run(detector=self.detector, debug=debug)
    rp = find_func(proc_tree, "run_pipeline", cls="Processor")
    body = _norm(N.Scope(proc_tree, _cls(proc_tree, "Processor")), rp)
    loops = [n for n in body if isinstance(n, (ast.For, ast.While))]
    if len(loops) != 1 or not isinstance(loops[0], ast.For) or loops[0].orelse:
        fail(rp, "run_pipeline must contain exactly one for loop")
    others = [n for n in body if not isinstance(n, (ast.For, ast.Expr))]
    if others:
        fail(others[0], "run_pipeline: unexpected statement")
    loop = loops[0]
    it = loop.iter
    if not (isinstance(it, ast.Attribute) and _is_self_attr(it.value, "pipeline") and isinstance(loop.target, ast.Name)):
        fail(loop, "run_pipeline must iterate self.pipeline.<attr>")
    var = loop.target.id
    # resolved through the trivial properties of DetectionPipeline (model_group_names -> MODEL_GROUPS)
    out.append(("Processor.run_pipeline", _resolve_attr(pscope, it.attr)))
    getattrs = [n for n in ast.walk(loop) if isinstance(n, ast.Call) and isinstance(n.func, ast.Name) and n.func.id == "getattr"]
    ga = getattrs[0] if len(getattrs) == 1 else None
    if ga is None or ga.keywords or len(ga.args) not in (2, 3) or not _is_self_attr(ga.args[0], "pipeline") \
            or not (isinstance(ga.args[1], ast.Name) and ga.args[1].id == var) \
            or (len(ga.args) == 3 and not (isinstance(ga.args[2], ast.Constant) and ga.args[2].value is None)):
        fail(loop, "run_pipeline must fetch getattr(self.pipeline, <loop variable>) once")
    runs = [n for n in ast.walk(loop) if isinstance(n, ast.Call) and isinstance(n.func, ast.Attribute) and n.func.attr == "run"]
    if len(runs) != 1:
        fail(loop, "run_pipeline must call <group>.run exactly once per iteration")
    # positional arguments are named after ModelGroup.run's parameters
    run_params = [a.arg for a in find_func(_cls(mg_tree, "ModelGroup"), "run").args.args][1:]
    if len(runs[0].args) > len(run_params) or any(isinstance(a, ast.Starred) for a in runs[0].args):
        fail(runs[0], "run must be called as run(detector=self.detector, debug=debug)")
    kws = dict(zip(run_params, runs[0].args))
    for k in runs[0].keywords:
        if k.arg is None or k.arg in kws:
            fail(runs[0], "run must be called as run(detector=self.detector, debug=debug)")
        kws[k.arg] = k.value
    if set(kws) != {"detector", "debug"} or not _is_self_attr(kws["detector"], "detector") \
            or not (isinstance(kws["debug"], ast.Name) and kws["debug"].id == "debug"):
        fail(runs[0], "run must be called as run(detector=self.detector, debug=debug)")
    for n in ast.walk(loop):
        if isinstance(n, (ast.Break, ast.Return)):
            fail(n, "run_pipeline loop leaves early")
    # under which conditions is a group of the order NOT executed ?  = the negation of each condition on the path to
    # the call (enclosing ifs, guard clauses `if <test>: continue` before it, `and` / conditional expressions);
    # the fetched group is written GROUP, "it is None / falsy" is "absent"
    grp = None
    for st in loop.body:
        if isinstance(st, ast.Assign) and st.value is ga:
            tgt = st.targets[0] if len(st.targets) == 1 else None
            if not isinstance(tgt, ast.Name):
                fail(st, "run_pipeline: the fetched group must be bound to a name")
            grp = tgt.id
    _loop_stmts_ok([s for s in loop.body if not (isinstance(s, ast.Assign) and s.value is ga)],
                   (ast.Expr, ast.Continue), "run_pipeline")
    if grp is None or ast.unparse(runs[0].func.value) != grp:
        fail(loop, "run_pipeline must call .run on the fetched group")
    skips = []
    for text, pol in N.reach_canon(loop, runs[0]):
        s = _skip_of(text, pol, grp)
        if s not in skips:
            skips.append(s)
    out_skips.extend(skips)
    # model_group_names
    mg = find_func(cls, "model_group_names")
    x = _returned_self_attr(pscope, mg)
    if not _decorated_property(mg) or x is None:
        fail(mg, "model_group_names must be `return self.<attr>`")
    out.append(("DetectionPipeline.model_group_names", x))
    # __iter__ (helpers inlined)
    itf = find_func(cls, "__iter__")
    b = _norm(pscope, itf)
    if len(b) != 1 or not isinstance(b[0], ast.For) or not _is_self_attr(b[0].iter):
        fail(itf, "__iter__ must be one loop over self.<attr>")
    out.append(("DetectionPipeline.__iter__", _resolve_attr(pscope, b[0].iter.attr)))
    return out


def _plain_iter(e):
    """`iter(X)` / `X.__iter__()` in the position of a loop source is X"""
    while True:
        if isinstance(e, ast.Call) and isinstance(e.func, ast.Name) and e.func.id == "iter" and len(e.args) == 1 and not e.keywords:
            e = e.args[0]
        elif isinstance(e, ast.Call) and isinstance(e.func, ast.Attribute) and e.func.attr == "__iter__" and not e.args and not e.keywords:
            e = e.func.value
        else:
            return e


def _model_group(tree: ast.Module):
    import re
    cls = _cls(tree, "ModelGroup")
    scope = N.Scope(tree, cls)
    it = find_func(cls, "__iter__")
    b = _norm(scope, it)
    # `return (m for m in S if G)` / `return iter(..)` / `return filter(lambda m: G, S)`: lazy, the same as the loop
    if len(b) == 1 and isinstance(b[0], ast.Return) and b[0].value is not None and N._lazy_source(b[0].value) is not None:
        src = N._lazy_source(b[0].value)
        b = [ast.fix_missing_locations(N._loop_of(src, [ast.Expr(value=ast.Yield(value=src[3]))]))]
    # for model in self.models: <the loop variable is yielded under a guard>
    if len(b) != 1 or not isinstance(b[0], ast.For) or not _is_self_attr(_plain_iter(b[0].iter), "models") or b[0].orelse \
            or not isinstance(b[0].target, ast.Name):
        fail(it, "ModelGroup.__iter__ must be one loop over self.models")
    loop = b[0]
    v = loop.target.id
    ys = [n for n in N.own_walk(loop) if isinstance(n, (ast.Yield, ast.YieldFrom))]
    if len(ys) != 1 or not (isinstance(ys[0], ast.Yield) and isinstance(ys[0].value, ast.Name) and ys[0].value.id == v):
        fail(it, "ModelGroup.__iter__ must yield the loop variable, once")
    _loop_stmts_ok(loop.body, (ast.Expr, ast.Continue), "ModelGroup.__iter__")
    for n in ast.walk(loop):
        if isinstance(n, (ast.Break, ast.Return)):
            fail(n, "ModelGroup.__iter__ leaves early")
    exprs = [s for s in ast.walk(loop) if isinstance(s, ast.Expr)]
    if len(exprs) != 1 or exprs[0].value is not ys[0]:
        fail(it, "ModelGroup.__iter__ body must be `if <guard>: yield model`")
    conj = []
    for text, pol in N.reach_canon(loop, exprs[0]):
        text = re.sub(rf"\b{re.escape(v)}\b", "model", text)      # the loop variable's name is not pinned
        conj.append(text if pol else f"not ({text})")
    guard = " and ".join(conj) if conj else "True"
    run = find_func(cls, "run")
    rb = _norm(scope, run)
    loops = [n for n in rb if isinstance(n, ast.For)]
    if len(loops) != 1:
        fail(run, "ModelGroup.run must contain exactly one top-level for loop")
    src = ast.unparse(_plain_iter(loops[0].iter))
    if not isinstance(loops[0].target, ast.Name):
        fail(loops[0], "ModelGroup.run loop target")
    var = loops[0].target.id
    # the model is called exactly once per iteration, with the detector only
    calls = [n for n in ast.walk(loops[0]) if isinstance(n, ast.Call)
             and ((isinstance(n.func, ast.Name) and n.func.id == var)
                  or (isinstance(n.func, ast.Attribute) and n.func.attr == "__call__" and isinstance(n.func.value, ast.Name)
                      and n.func.value.id == var))]
    okargs = False
    if len(calls) == 1:
        c = calls[0]
        vals = [ast.unparse(a) for a in c.args] + [ast.unparse(k.value) for k in c.keywords]
        okargs = vals == ["detector"] and all(k.arg == "detector" for k in c.keywords)
    if not okargs:
        fail(loops[0], "ModelGroup.run must call `model(detector)` exactly once per iteration")
    return guard, src


def _model_call(tree: ast.Module):
    cls = _cls(tree, "ModelFunction")
    scope = N.Scope(tree, cls)
    fn = find_func(cls, "__call__")
    if [a.arg for a in fn.args.args] != ["self", "detector"]:
        fail(fn, "ModelFunction.__call__ signature")
    body = ast.Module(body=_norm(scope, fn), type_ignores=[])
    calls = [n for n in ast.walk(body) if isinstance(n, ast.Call) and _is_self_attr(n.func, "func")]
    if len(calls) != 1:
        fail(fn, "ModelFunction.__call__ must call self.func exactly once")
    c = calls[0]
    # `self._x` is written as the public property that returns it (`self._arguments` == `self.arguments`)
    priv = {}
    for m in cls.body:
        if isinstance(m, ast.FunctionDef) and _decorated_property(m):
            try:
                x = _returned_self_attr(scope, m)
            except TranslationError:
                x = None
            if x is not None and x != m.name:
                priv["self." + x] = "self." + m.name

    def txt(e):
        t = ast.unparse(e)
        return priv.get(t, t)

    parts = [txt(a) for a in c.args] + [("**" if k.arg is None else k.arg + "=") + txt(k.value) for k in c.keywords]
    for n in ast.walk(body):
        if isinstance(n, (ast.For, ast.While, ast.If, ast.Try)):
            fail(n, "ModelFunction.__call__ has control flow")
    return parts


def _self_attrs_assigned(fn) -> list[str]:
    """names X of every `self.X = ...` / `self.X: T = ...` statement of the function (any nesting), in order"""
    out = []
    for n in ast.walk(fn):
        tgts = []
        if isinstance(n, ast.Assign):
            tgts = n.targets
        elif isinstance(n, (ast.AnnAssign, ast.AugAssign)):
            tgts = [n.target]
        for t in tgts:
            for t1 in (t.elts if isinstance(t, (ast.Tuple, ast.List)) else [t]):
                if _is_self_attr(t1) and t1.attr not in out:
                    out.append(t1.attr)
    return out


def _group_state(tree: ast.Module):
    """What a ModelGroup carries (attributes set by __init__) and what __setstate__ restores after a pickle
    round trip; without __setstate__ / __getstate__ the default pickling restores everything.  Helper methods
    called by the two are inlined first."""
    cls = _cls(tree, "ModelGroup")
    scope = N.Scope(tree, cls)

    def attrs(fn):
        return _self_attrs_assigned(ast.Module(body=N.Normaliser(scope).normalise(fn), type_ignores=[]))

    init = attrs(find_func(cls, "__init__"))
    sets = [n for n in cls.body if isinstance(n, ast.FunctionDef) and n.name == "__setstate__"]
    gets = [n for n in cls.body if isinstance(n, ast.FunctionDef) and n.name == "__getstate__"]
    if not sets and not gets:
        return init, list(init)
    if len(sets) != 1:
        raise TranslationError("ModelGroup: __getstate__ without __setstate__ (or several)")
    for n in ast.walk(sets[0]):
        if isinstance(n, ast.Call) and isinstance(n.func, ast.Attribute) and n.func.attr == "update" \
                and ast.unparse(n.func.value) == "self.__dict__":
            raise TranslationError("ModelGroup.__setstate__ updates __dict__ wholesale: restored attributes unknown")
    return init, attrs(sets[0])


def _intermediate_reads(tree: ast.Module):
    """Every read of `detector.intermediate` (the property raises while `_intermediate` is None) in
    exposure.run_pipeline and in the module-level helpers it calls (those that can be inlined are): "guarded" when
    one of the conditions under which the read is evaluated (enclosing if / conditional expression / `and`, or a
    guard clause before it) looks at `_intermediate`, else "bare"."""
    scope = N.Scope(tree, None)
    todo, seen, out = ["run_pipeline"], set(), []
    while todo:
        name = todo.pop(0)
        if name in seen:
            continue
        seen.add(name)
        fn = find_func(tree, name)
        root = ast.Module(body=N.Normaliser(scope).normalise(fn), type_ignores=[])
        for n in ast.walk(root):
            if isinstance(n, ast.Attribute) and n.attr == "intermediate" and isinstance(n.ctx, ast.Load):
                conds = N.reach(root, n)
                out.append("guarded" if any("_intermediate" in ast.unparse(t) for t, _ in conds) else "bare")
            if isinstance(n, ast.Call) and isinstance(n.func, ast.Name) and n.func.id in scope.funcs and n.func.id not in seen:
                todo.append(n.func.id)
    return out


RUNTIME = r"""
import inspect, json
from pyxel.pipelines import DetectionPipeline
sig = [p for p in inspect.signature(DetectionPipeline.__init__).parameters][1:]
print(json.dumps(dict(mg=list(DetectionPipeline.MODEL_GROUPS), names=list(DetectionPipeline().model_group_names), sig=sig)))
"""


def _runtime(repo: Path) -> dict:
    env = dict(os.environ)
    env["PYTHONPATH"] = str(repo)
    env["PYTHONDONTWRITEBYTECODE"] = "1"
    try:
        r = subprocess.run(["/venv/bin/python", "-B", "-W", "ignore", "-c", RUNTIME], env=env, capture_output=True,
                           text=True, timeout=120, cwd="/tmp")
    except subprocess.TimeoutExpired as ex:
        raise TranslationError("runtime cross-check timed out") from ex
    if r.returncode != 0:
        raise TranslationError("runtime cross-check failed: " + r.stderr.strip()[-300:])
    return json.loads(r.stdout.strip().splitlines()[-1])


def render(groups, kwargs, feeds, props, iterated, guard, run_src, call_parts, skips=("absent",),
           state=(("_log", "_name", "models"), ("_log", "models", "_name")), reads=("guarded", "guarded")) -> str:
    return (HEADER + PRELUDE +
            f"Definition src_model_groups : list string :=\n  {_lst(_s(g) for g in groups)}.\n"
            f"Definition src_ctor_kwargs : list string :=\n  {_lst(_s(g) for g in kwargs)}.\n"
            "Definition src_ctor_feeds : list (string * string * string) :=\n  "
            + _lst(f"({_s(k)}, {_s(a)}, {_s(n)})" for k, a, n in feeds) + ".\n"
            "Definition src_properties : list (string * string) :=\n  "
            + _lst(f"({_s(p)}, {_s(a)})" for p, a in props) + ".\n"
            "Definition src_iterated_by : list (string * string) :=\n  "
            + _lst(f"({_s(w)}, {_s(a)})" for w, a in iterated) + ".\n"
            f"Definition src_run_pipeline_skips : list string := {_lst(_s(x) for x in skips)}.\n"
            f"Definition src_group_iter_guard : string := {_s(guard)}.\n"
            f"Definition src_group_run_iterates : string := {_s(run_src)}.\n"
            f"Definition src_model_call : list string := {_lst(_s(p) for p in call_parts)}.\n"
            f"Definition src_group_init_attrs : list string := {_lst(_s(x) for x in state[0])}.\n"
            f"Definition src_group_setstate_attrs : list string := {_lst(_s(x) for x in state[1])}.\n"
            f"Definition src_intermediate_reads : list string := {_lst(_s(x) for x in reads)}.\n")


def translate(repo: Path, runtime: bool = True) -> str:
    repo = Path(repo)
    ptree = parse(repo, "pyxel/pipelines/pipeline.py")
    cls = _cls(ptree, "DetectionPipeline")
    pscope = N.Scope(ptree, cls)
    groups = _model_groups(cls, pscope)
    _no_rebinding(ptree, cls)
    kwargs, feeds = _ctor(cls, pscope)
    props = _properties(cls, groups + kwargs, pscope)
    skips: list = []
    mg_tree = parse(repo, "pyxel/pipelines/model_group.py")
    iterated = _iterated(cls, pscope, parse(repo, "pyxel/pipelines/processor.py"), mg_tree, skips)
    guard, run_src = _model_group(mg_tree)
    call_parts = _model_call(parse(repo, "pyxel/pipelines/model_function.py"))
    if runtime:
        rt = _runtime(repo)
        if rt["mg"] != groups:
            raise TranslationError(f"MODEL_GROUPS literal {groups} differs from the imported value {rt['mg']}")
        if rt["names"] != groups:
            raise TranslationError(f"model_group_names returns {rt['names']}, MODEL_GROUPS literal is {groups}")
        if rt["sig"] != kwargs:
            raise TranslationError(f"constructor signature {rt['sig']} differs from the parsed keywords {kwargs}")
    state = _group_state(parse(repo, "pyxel/pipelines/model_group.py"))
    reads = _intermediate_reads(parse(repo, "pyxel/exposure/exposure.py"))
    return render(groups, kwargs, feeds, props, iterated, guard, run_src, call_parts, skips, state, reads)


_G = ["scene_generation", "photon_collection", "phasing", "charge_generation", "charge_collection",
      "charge_transfer", "charge_measurement", "signal_transfer", "readout_electronics", "data_processing"]
_ASSIGN_ORDER = ["scene_generation", "photon_collection", "phasing", "charge_generation", "charge_collection",
                 "charge_measurement", "readout_electronics", "charge_transfer", "signal_transfer", "data_processing"]

# the last accepted shape (unchanged tree); keeps a model available for the failing-input search
FALLBACK = render(_G, _G, [(g, "_" + g, g) for g in _ASSIGN_ORDER], [(g, "_" + g) for g in _G],
                  [("Processor.run_pipeline", "MODEL_GROUPS"),
                   ("DetectionPipeline.model_group_names", "MODEL_GROUPS"),
                   ("DetectionPipeline.__iter__", "MODEL_GROUPS")],
                  "model.enabled", "self", ["detector", "**self.arguments"])
