"""pyxel/pipelines/{pipeline,processor,model_group,model_function}.py -> Gallina tables for C01.

Extracted (fail closed on any other shape):
  * DetectionPipeline.MODEL_GROUPS            -> src_model_groups   (tuple of string literals)
  * DetectionPipeline.__init__ keywords       -> src_ctor_kwargs
  * `self._X = ModelGroup(k, name="n") if k else None` for every keyword k
                                              -> src_ctor_feeds     (k, "_X", "n")
  * the group properties `return self._X`     -> src_properties     (property, "_X")
  * which attribute is iterated by Processor.run_pipeline / model_group_names / __iter__
                                              -> src_iterated_by
  * under which conditions run_pipeline skips a group of the order (`if <test>: continue`, or the call nested
    in `if <group>:`)                         -> src_run_pipeline_skips  ("absent" = the group is None / falsy)
  * ModelGroup.__iter__ guard, ModelGroup.run loop source, ModelFunction.__call__ argument passing
                                              -> src_group_iter_guard, src_group_run_iterates, src_model_call
  * the attributes ModelGroup.__init__ sets and the ones __setstate__ restores (pickle round trip)
                                              -> src_group_init_attrs, src_group_setstate_attrs
  * every read of `detector.intermediate` in exposure.run_pipeline, "guarded" by a test of `_intermediate`
    or "bare"                                 -> src_intermediate_reads
The AST values are cross-checked against the imported module (MODEL_GROUPS, model_group_names,
constructor signature) in a subprocess running with PYTHONPATH = the tree under test.
"""
from __future__ import annotations

import ast
import json
import os
import subprocess
from pathlib import Path

from harness.core import TranslationError

from .common import HEADER, body_no_doc, fail, find_func, parse

PRELUDE = ("From Coq Require Import List String.\nImport ListNotations.\nOpen Scope string_scope.\n")


def _s(x: str) -> str:
    if not all(32 <= ord(c) < 127 for c in x) or '"' in x:
        raise TranslationError(f"unexpected character in identifier {x!r}")
    return '"' + x + '"'


def _lst(items) -> str:
    items = list(items)
    return "[" + "; ".join(items) + "]" if items else "[]"


def _cls(tree: ast.Module, name: str) -> ast.ClassDef:
    c = [n for n in tree.body if isinstance(n, ast.ClassDef) and n.name == name]
    if len(c) != 1:
        raise TranslationError(f"class {name}: found {len(c)}")
    return c[0]


def _is_self_attr(node, attr=None) -> bool:
    return (isinstance(node, ast.Attribute) and isinstance(node.value, ast.Name) and node.value.id == "self"
            and (attr is None or node.attr == attr))


def _model_groups(cls: ast.ClassDef) -> list[str]:
    found = []
    for st in cls.body:
        tgt = None
        if isinstance(st, ast.AnnAssign) and isinstance(st.target, ast.Name):
            tgt, val = st.target.id, st.value
        elif isinstance(st, ast.Assign) and len(st.targets) == 1 and isinstance(st.targets[0], ast.Name):
            tgt, val = st.targets[0].id, st.value
        if tgt == "MODEL_GROUPS":
            found.append(val)
    if len(found) != 1:
        raise TranslationError(f"MODEL_GROUPS: {len(found)} class-level assignments")
    val = found[0]
    if not isinstance(val, ast.Tuple) or not all(isinstance(e, ast.Constant) and isinstance(e.value, str) for e in val.elts):
        fail(val, "MODEL_GROUPS must be a tuple of string literals")
    # nothing else in the module may rebind it
    return [e.value for e in val.elts]


def _no_rebinding(tree: ast.Module, cls: ast.ClassDef):
    for n in ast.walk(tree):
        if isinstance(n, (ast.Assign, ast.AugAssign, ast.AnnAssign)):
            tgts = n.targets if isinstance(n, ast.Assign) else [n.target]
            for t in tgts:
                if isinstance(t, ast.Attribute) and t.attr == "MODEL_GROUPS":
                    fail(n, "MODEL_GROUPS is rebound")
        if isinstance(n, ast.Call) and isinstance(n.func, ast.Name) and n.func.id == "setattr":
            fail(n, "setattr in pipeline.py")


def _ctor(cls: ast.ClassDef):
    fn = find_func(cls, "__init__")
    a = fn.args
    if a.vararg or a.kwarg or a.posonlyargs or a.kwonlyargs:
        fail(fn, "__init__ signature")
    names = [x.arg for x in a.args]
    if not names or names[0] != "self":
        fail(fn, "__init__ signature")
    kwargs = names[1:]
    if len(a.defaults) != len(kwargs) or not all(isinstance(d, ast.Constant) and d.value is None for d in a.defaults):
        fail(fn, "every constructor keyword must default to None")
    feeds = []
    for st in body_no_doc(fn):
        if isinstance(st, ast.AnnAssign):
            tgt, val = st.target, st.value
        elif isinstance(st, ast.Assign) and len(st.targets) == 1:
            tgt, val = st.targets[0], st.value
        else:
            fail(st, "__init__ may only assign the group attributes")
        if not _is_self_attr(tgt):
            fail(st, "__init__ may only assign self._<group>")
        # ModelGroup(k, name="n") if k else None
        ok = (isinstance(val, ast.IfExp) and isinstance(val.test, ast.Name)
              and isinstance(val.orelse, ast.Constant) and val.orelse.value is None
              and isinstance(val.body, ast.Call) and isinstance(val.body.func, ast.Name)
              and val.body.func.id == "ModelGroup")
        if not ok:
            fail(st, "expected `ModelGroup(k, name=...) if k else None`")
        call = val.body
        pos = list(call.args)
        kws = {k.arg: k.value for k in call.keywords}
        models = pos[0] if pos else kws.get("models")
        label = pos[1] if len(pos) > 1 else kws.get("name")
        if len(pos) > 2 or set(kws) - {"models", "name"}:
            fail(st, "unexpected ModelGroup arguments")
        if not (isinstance(models, ast.Name) and models.id == val.test.id):
            fail(st, "the tested keyword and the keyword passed to ModelGroup differ")
        if not (isinstance(label, ast.Constant) and isinstance(label.value, str)):
            fail(st, "ModelGroup name must be a string literal")
        feeds.append((models.id, tgt.attr, label.value))
    if len({f[1] for f in feeds}) != len(feeds):
        raise TranslationError("an attribute is assigned twice in DetectionPipeline.__init__")
    return kwargs, feeds


def _decorated_property(fn: ast.FunctionDef) -> bool:
    return len(fn.decorator_list) == 1 and isinstance(fn.decorator_list[0], ast.Name) and fn.decorator_list[0].id == "property"


def _properties(cls: ast.ClassDef, groups: list[str]):
    props = []
    for st in cls.body:
        if isinstance(st, ast.FunctionDef) and st.name in groups:
            if not _decorated_property(st):
                fail(st, "group accessor must be a plain @property")
            b = body_no_doc(st)
            if len(b) != 1 or not isinstance(b[0], ast.Return) or not _is_self_attr(b[0].value):
                fail(st, "group property must be `return self._<group>`")
            props.append((st.name, b[0].value.attr))
    if len({p[0] for p in props}) != len(props):
        raise TranslationError("a group property is defined twice")
    # __getattr__/__getattribute__ on the pipeline class would bypass the properties
    for st in cls.body:
        if isinstance(st, ast.FunctionDef) and st.name in ("__getattr__", "__getattribute__"):
            fail(st, "DetectionPipeline defines attribute hooks")
    return props


def _skip_text(test, grp, negate: bool) -> str:
    """Condition under which the group is skipped, with the fetched group written GROUP; the two spellings of
    "there is no such group" (falsy / is None: a ModelGroup defines neither __bool__ nor __len__) are "absent"."""
    txt = ast.unparse(test)
    if grp:
        import re
        txt = re.sub(rf"\b{re.escape(grp)}\b", "GROUP", txt)
    absent_pos = {"not GROUP", "GROUP is None"}
    absent_neg = {"GROUP", "GROUP is not None"}
    if (not negate and txt in absent_pos) or (negate and txt in absent_neg):
        return "absent"
    return ("not (" + txt + ")") if negate else txt


def _iterated(cls: ast.ClassDef, proc_tree: ast.Module, out_skips: list):
    out = []
    # Processor.run_pipeline: `for g in self.pipeline.<attr>:` ... getattr(self.pipeline, g) ... .run(detector=self.detector, debug=debug)
    rp = find_func(proc_tree, "run_pipeline", cls="Processor")
    loops = [n for n in body_no_doc(rp) if isinstance(n, (ast.For, ast.While))]
    if len(loops) != 1 or not isinstance(loops[0], ast.For) or loops[0].orelse:
        fail(rp, "run_pipeline must contain exactly one for loop")
    others = [n for n in body_no_doc(rp) if not isinstance(n, (ast.For, ast.Expr, ast.Import, ast.ImportFrom))]
    if others:
        fail(others[0], "run_pipeline: unexpected statement")
    loop = loops[0]
    it = loop.iter
    if not (isinstance(it, ast.Attribute) and _is_self_attr(it.value, "pipeline") and isinstance(loop.target, ast.Name)):
        fail(loop, "run_pipeline must iterate self.pipeline.<attr>")
    var = loop.target.id
    out.append(("Processor.run_pipeline", it.attr))
    getattrs = [n for n in ast.walk(loop) if isinstance(n, ast.Call) and isinstance(n.func, ast.Name) and n.func.id == "getattr"]
    if len(getattrs) != 1 or len(getattrs[0].args) != 2 or not _is_self_attr(getattrs[0].args[0], "pipeline") \
            or not (isinstance(getattrs[0].args[1], ast.Name) and getattrs[0].args[1].id == var):
        fail(loop, "run_pipeline must fetch getattr(self.pipeline, <loop variable>) once")
    runs = [n for n in ast.walk(loop) if isinstance(n, ast.Call) and isinstance(n.func, ast.Attribute) and n.func.attr == "run"]
    if len(runs) != 1:
        fail(loop, "run_pipeline must call <group>.run exactly once per iteration")
    kws = {k.arg: k.value for k in runs[0].keywords}
    if runs[0].args or set(kws) != {"detector", "debug"} or not _is_self_attr(kws["detector"], "detector") \
            or not (isinstance(kws["debug"], ast.Name) and kws["debug"].id == "debug"):
        fail(runs[0], "run must be called as run(detector=self.detector, debug=debug)")
    for n in ast.walk(loop):
        if isinstance(n, (ast.Break, ast.Return)):
            fail(n, "run_pipeline loop leaves early")
    # under which conditions is a group of the order NOT executed ?  (`if <test>: continue` before the call,
    # or the call nested in `if <group>:`); the fetched group is written GROUP, "it is None / falsy" is "absent"
    grp = None
    skips = []
    for st in loop.body:
        if isinstance(st, (ast.Assign, ast.AnnAssign)) and st.value is getattrs[0]:
            tgt = st.targets[0] if isinstance(st, ast.Assign) and len(st.targets) == 1 else getattr(st, "target", None)
            if not isinstance(tgt, ast.Name):
                fail(st, "run_pipeline: the fetched group must be bound to a name")
            grp = tgt.id
        elif isinstance(st, ast.If) and not st.orelse and isinstance(st.body[-1], ast.Continue) \
                and all(isinstance(x, ast.Expr) for x in st.body[:-1]):
            skips.append(_skip_text(st.test, grp, negate=False))
        elif isinstance(st, ast.If) and not st.orelse and any(n is runs[0] for n in ast.walk(st)):
            skips.append(_skip_text(st.test, grp, negate=True))
            if any(isinstance(n, ast.Continue) for n in ast.walk(st)):
                fail(st, "run_pipeline: continue next to the call")
        elif isinstance(st, ast.Expr):
            if any(isinstance(n, ast.Continue) for n in ast.walk(st)):
                fail(st, "run_pipeline: unexpected statement in the loop")
        else:
            fail(st, "run_pipeline: unexpected statement in the loop")
    if grp is None or ast.unparse(runs[0].func.value) != grp:
        fail(loop, "run_pipeline must call .run on the fetched group")
    out_skips.extend(skips)
    # model_group_names
    mg = find_func(cls, "model_group_names")
    b = body_no_doc(mg)
    if not _decorated_property(mg) or len(b) != 1 or not isinstance(b[0], ast.Return) or not _is_self_attr(b[0].value):
        fail(mg, "model_group_names must be `return self.<attr>`")
    out.append(("DetectionPipeline.model_group_names", b[0].value.attr))
    # __iter__
    itf = find_func(cls, "__iter__")
    b = body_no_doc(itf)
    if len(b) != 1 or not isinstance(b[0], ast.For) or not _is_self_attr(b[0].iter):
        fail(itf, "__iter__ must be one loop over self.<attr>")
    out.append(("DetectionPipeline.__iter__", b[0].iter.attr))
    return out


def _model_group(tree: ast.Module):
    cls = _cls(tree, "ModelGroup")
    it = find_func(cls, "__iter__")
    b = body_no_doc(it)
    # for model in self.models: if <guard>: yield model
    if len(b) != 1 or not isinstance(b[0], ast.For) or not _is_self_attr(b[0].iter, "models") or b[0].orelse \
            or not isinstance(b[0].target, ast.Name):
        fail(it, "ModelGroup.__iter__ must be one loop over self.models")
    inner = b[0].body
    if len(inner) != 1 or not isinstance(inner[0], ast.If) or inner[0].orelse or len(inner[0].body) != 1:
        fail(it, "ModelGroup.__iter__ body must be `if <guard>: yield model`")
    y = inner[0].body[0]
    if not (isinstance(y, ast.Expr) and isinstance(y.value, ast.Yield) and isinstance(y.value.value, ast.Name)
            and y.value.value.id == b[0].target.id):
        fail(y, "ModelGroup.__iter__ must yield the loop variable")
    guard = ast.unparse(inner[0].test)
    run = find_func(cls, "run")
    loops = [n for n in body_no_doc(run) if isinstance(n, ast.For)]
    if len(loops) != 1:
        fail(run, "ModelGroup.run must contain exactly one top-level for loop")
    src = ast.unparse(loops[0].iter)
    if not isinstance(loops[0].target, ast.Name):
        fail(loops[0], "ModelGroup.run loop target")
    var = loops[0].target.id
    # the model is called exactly once per iteration, with the detector only
    calls = [n for n in ast.walk(loops[0]) if isinstance(n, ast.Call) and isinstance(n.func, ast.Name) and n.func.id == var]
    if len(calls) != 1 or calls[0].keywords or len(calls[0].args) != 1 or ast.unparse(calls[0].args[0]) != "detector":
        fail(loops[0], "ModelGroup.run must call `model(detector)` exactly once per iteration")
    return guard, src


def _model_call(tree: ast.Module):
    cls = _cls(tree, "ModelFunction")
    fn = find_func(cls, "__call__")
    if [a.arg for a in fn.args.args] != ["self", "detector"]:
        fail(fn, "ModelFunction.__call__ signature")
    calls = [n for n in ast.walk(fn) if isinstance(n, ast.Call) and _is_self_attr(n.func, "func")]
    if len(calls) != 1:
        fail(fn, "ModelFunction.__call__ must call self.func exactly once")
    c = calls[0]
    parts = [ast.unparse(a) for a in c.args] + [("**" if k.arg is None else k.arg + "=") + ast.unparse(k.value) for k in c.keywords]
    for n in ast.walk(fn):
        if isinstance(n, (ast.For, ast.While, ast.If, ast.Try)):
            fail(n, "ModelFunction.__call__ has control flow")
    return parts


def _self_attrs_assigned(fn: ast.FunctionDef) -> list[str]:
    """names X of every `self.X = ...` / `self.X: T = ...` statement of the function (any nesting), in order"""
    out = []
    for n in ast.walk(fn):
        tgts = []
        if isinstance(n, ast.Assign):
            tgts = n.targets
        elif isinstance(n, (ast.AnnAssign, ast.AugAssign)):
            tgts = [n.target]
        for t in tgts:
            if _is_self_attr(t) and t.attr not in out:
                out.append(t.attr)
    return out


def _group_state(tree: ast.Module):
    """What a ModelGroup carries (attributes set by __init__) and what __setstate__ restores after a pickle
    round trip; without __setstate__ / __getstate__ the default pickling restores everything."""
    cls = _cls(tree, "ModelGroup")
    init = _self_attrs_assigned(find_func(cls, "__init__"))
    sets = [n for n in cls.body if isinstance(n, ast.FunctionDef) and n.name == "__setstate__"]
    gets = [n for n in cls.body if isinstance(n, ast.FunctionDef) and n.name == "__getstate__"]
    if not sets and not gets:
        return init, list(init)
    if len(sets) != 1:
        raise TranslationError("ModelGroup: __getstate__ without __setstate__ (or several)")
    for n in ast.walk(sets[0]):
        if isinstance(n, ast.Call) and isinstance(n.func, ast.Attribute) and n.func.attr == "update" \
                and ast.unparse(n.func.value) == "self.__dict__":
            raise TranslationError("ModelGroup.__setstate__ updates __dict__ wholesale: restored attributes unknown")
    return init, _self_attrs_assigned(sets[0])


def _intermediate_reads(tree: ast.Module):
    """Every read of `detector.intermediate` (the property raises while `_intermediate` is None) in
    exposure.run_pipeline: "guarded" when it sits under an `if` / conditional expression whose test looks at
    `_intermediate`, else "bare"."""
    fn = find_func(tree, "run_pipeline")
    parent = {}
    for n in ast.walk(fn):
        for c in ast.iter_child_nodes(n):
            parent[c] = n
    out = []
    for n in ast.walk(fn):
        if isinstance(n, ast.Attribute) and n.attr == "intermediate" and isinstance(n.ctx, ast.Load):
            guarded = False
            cur = n
            while cur in parent:
                up = parent[cur]
                if isinstance(up, (ast.If, ast.IfExp)) and cur is not up.test and "_intermediate" in ast.unparse(up.test):
                    guarded = True
                cur = up
            out.append("guarded" if guarded else "bare")
    return out


RUNTIME = r"""
import inspect, json
from pyxel.pipelines import DetectionPipeline
sig = [p for p in inspect.signature(DetectionPipeline.__init__).parameters][1:]
print(json.dumps(dict(mg=list(DetectionPipeline.MODEL_GROUPS), names=list(DetectionPipeline().model_group_names), sig=sig)))
"""


def _runtime(repo: Path) -> dict:
    env = dict(os.environ)
    env["PYTHONPATH"] = str(repo)
    env["PYTHONDONTWRITEBYTECODE"] = "1"
    try:
        r = subprocess.run(["/venv/bin/python", "-B", "-W", "ignore", "-c", RUNTIME], env=env, capture_output=True,
                           text=True, timeout=120, cwd="/tmp")
    except subprocess.TimeoutExpired as ex:
        raise TranslationError("runtime cross-check timed out") from ex
    if r.returncode != 0:
        raise TranslationError("runtime cross-check failed: " + r.stderr.strip()[-300:])
    return json.loads(r.stdout.strip().splitlines()[-1])


def render(groups, kwargs, feeds, props, iterated, guard, run_src, call_parts, skips=("absent",),
           state=(("_log", "_name", "models"), ("_log", "models", "_name")), reads=("guarded", "guarded")) -> str:
    return (HEADER + PRELUDE +
            f"Definition src_model_groups : list string :=\n  {_lst(_s(g) for g in groups)}.\n"
            f"Definition src_ctor_kwargs : list string :=\n  {_lst(_s(g) for g in kwargs)}.\n"
            "Definition src_ctor_feeds : list (string * string * string) :=\n  "
            + _lst(f"({_s(k)}, {_s(a)}, {_s(n)})" for k, a, n in feeds) + ".\n"
            "Definition src_properties : list (string * string) :=\n  "
            + _lst(f"({_s(p)}, {_s(a)})" for p, a in props) + ".\n"
            "Definition src_iterated_by : list (string * string) :=\n  "
            + _lst(f"({_s(w)}, {_s(a)})" for w, a in iterated) + ".\n"
            f"Definition src_run_pipeline_skips : list string := {_lst(_s(x) for x in skips)}.\n"
            f"Definition src_group_iter_guard : string := {_s(guard)}.\n"
            f"Definition src_group_run_iterates : string := {_s(run_src)}.\n"
            f"Definition src_model_call : list string := {_lst(_s(p) for p in call_parts)}.\n"
            f"Definition src_group_init_attrs : list string := {_lst(_s(x) for x in state[0])}.\n"
            f"Definition src_group_setstate_attrs : list string := {_lst(_s(x) for x in state[1])}.\n"
            f"Definition src_intermediate_reads : list string := {_lst(_s(x) for x in reads)}.\n")


def translate(repo: Path, runtime: bool = True) -> str:
    repo = Path(repo)
    ptree = parse(repo, "pyxel/pipelines/pipeline.py")
    cls = _cls(ptree, "DetectionPipeline")
    groups = _model_groups(cls)
    _no_rebinding(ptree, cls)
    kwargs, feeds = _ctor(cls)
    props = _properties(cls, groups + kwargs)
    skips: list = []
    iterated = _iterated(cls, parse(repo, "pyxel/pipelines/processor.py"), skips)
    guard, run_src = _model_group(parse(repo, "pyxel/pipelines/model_group.py"))
    call_parts = _model_call(parse(repo, "pyxel/pipelines/model_function.py"))
    if runtime:
        rt = _runtime(repo)
        if rt["mg"] != groups:
            raise TranslationError(f"MODEL_GROUPS literal {groups} differs from the imported value {rt['mg']}")
        if rt["names"] != groups:
            raise TranslationError(f"model_group_names returns {rt['names']}, MODEL_GROUPS literal is {groups}")
        if rt["sig"] != kwargs:
            raise TranslationError(f"constructor signature {rt['sig']} differs from the parsed keywords {kwargs}")
    state = _group_state(parse(repo, "pyxel/pipelines/model_group.py"))
    reads = _intermediate_reads(parse(repo, "pyxel/exposure/exposure.py"))
    return render(groups, kwargs, feeds, props, iterated, guard, run_src, call_parts, skips, state, reads)


_G = ["scene_generation", "photon_collection", "phasing", "charge_generation", "charge_collection",
      "charge_transfer", "charge_measurement", "signal_transfer", "readout_electronics", "data_processing"]
_ASSIGN_ORDER = ["scene_generation", "photon_collection", "phasing", "charge_generation", "charge_collection",
                 "charge_measurement", "readout_electronics", "charge_transfer", "signal_transfer", "data_processing"]

# the last accepted shape (unchanged tree); keeps a model available for the failing-input search
FALLBACK = render(_G, _G, [(g, "_" + g, g) for g in _ASSIGN_ORDER], [(g, "_" + g) for g in _G],
                  [("Processor.run_pipeline", "model_group_names"),
                   ("DetectionPipeline.model_group_names", "MODEL_GROUPS"),
                   ("DetectionPipeline.__iter__", "MODEL_GROUPS")],
                  "model.enabled", "self", ["detector", "**self.arguments"])
