"""Differential self-test of translator/c03_norm.py: every normalisation must preserve behaviour.

Each snippet is a small module with a function `f` (and private helpers / a class).  `f` is normalised, both versions are
compiled and run on the listed inputs; results, raised exception types and the mutations of the arguments must agree.
Run: /venv/bin/python -m translator.c03_norm_selftest   (exit 0 = all equal)
"""
from __future__ import annotations

import ast
import copy
import itertools
import sys

from . import c03_norm as N

SNIPPETS = [
    # (name, source, inputs)
    ("guard clauses + helper statement inlined", '''
def _fix(tree, det):
    """doc"""
    if det["arr"] is None:
        return
    cur = tree["image"]
    exp = det["dtype"]
    if cur == exp:
        return
    if cur[0] == "u":
        return
    tree["image"] = exp

def f(tree, det):
    out = []
    for i in range(2):
        _fix(tree=tree, det=det)
        out.append(tree["image"])
    return out
''', [({"image": a}, {"arr": b, "dtype": c}) for a in ("u8", "f8", "i4") for b in (None, 1) for c in ("u8", "u2", "f8")]),
    ("continue / nested / inverted", '''
def f(keys, bad):
    out = {}
    for k in keys:
        if k.startswith("d") or k in bad:
            continue
        v = k.upper()
        if not isinstance(v, str):
            raise TypeError(k)
        if len(v) != 0:
            out[k] = v
    return out
''', [(["data", "a", "", "bb"], ("a",)), ([], ()), (["x"], ("x",))]),
    ("alias + boolean intermediate + f-string pieces", '''
class Obj:
    def __init__(self): self.d = {}; self.n = "g"
def f(o, names, ref, m):
    inter = o.d
    pk = f"t_{m}"
    gk = o.n
    gp = f"{pk}/{gk}"
    for name in names:
        same = name in ref and ref[name] == names[name]
        if not same:
            inter[f"{gp}/{name}"] = names[name]
    return sorted(inter.items())
''', None),
    ("value-returning helper, early return with value, method helper", '''
class C:
    def __init__(self, a): self.a = a
    def _pick(self, x, scale=2):
        if x is None:
            return -1
        y = x * scale
        if y > 10:
            return 10
        return y
    def f(self, xs):
        r = []
        for x in xs:
            v = self._pick(x)
            r.append(v)
            r.append(self._pick(x, scale=self.a))
        return r
def f(a, xs):
    return C(a).f(xs)
''', [(1, [None, 1, 7]), (3, [4, 5]), (0, [])]),
    ("match / chained comparison / conditional expression / De Morgan", '''
def f(kind, x, lo, hi):
    match kind:
        case "a" | "b":
            r = 1
        case "c":
            r = 2
        case _:
            r = 3
    if lo <= x <= hi:
        r += 10
    if not (x == 3 or kind == "c"):
        r += 100
    if kind != "a":
        t = "n"
    else:
        t = "y"
    if not kind:
        return (r, t, "empty")
    else:
        return (r, t)
''', [(k, x, 1, 4) for k in ("a", "b", "c", "z", "") for x in (0, 3, 4, 9)]),
    ("function object -> lambda", '''
def _cat(*parts):
    """doc"""
    return "+".join(parts)
def apply(fn, *a):
    return fn(*a)
def f(a, b):
    return apply(_cat, a, b)
''', [("x", "y"), ("", "q")]),
    ("helper that REBINDS its parameter (must not act on the caller's object)", '''
def _h(tree):
    tree = dict(tree)
    tree["k"] = 1
def f(t):
    _h(t)
    return sorted(t.items())
''', [({"a": 0},), ({},)]),
    ("alias before a rebinding (must not be substituted)", '''
class O:
    def __init__(self): self._i = None
    @property
    def i(self): return self._i
def f(flag):
    o = O()
    first = o._i
    if flag:
        o._i = {}
    second = o.i
    return (first is None, second is None)
''', [(True,), (False,)]),
    ("try / with bodies are descended into, returns inside stay", '''
def _g(x):
    try:
        if x:
            return 1
    finally:
        pass
    return 2
def f(x):
    v = _g(x)
    return v
''', [(0,), (1,)]),
]


def _run(src_mod: ast.Module, args):
    env: dict = {}
    exec(compile(ast.fix_missing_locations(src_mod), "<snippet>", "exec"), env)  # noqa: S102 - our own snippets
    a = copy.deepcopy(args)
    try:
        r = env["f"](*a)
    except Exception as ex:  # noqa: BLE001
        r = ("raised", type(ex).__name__)
    return repr(r), repr(a)


def main(verbose: bool = True) -> int:
    bad = 0
    for name, src, inputs in SNIPPETS:
        mod = ast.parse(src)
        norm = copy.deepcopy(mod)
        # normalise every function / method called `f` (and the methods of classes, with their class as context)
        changed = 0
        for i, n in enumerate(norm.body):
            if isinstance(n, ast.FunctionDef) and n.name == "f":
                norm.body[i] = N.normalize(n, mod)
                changed += ast.dump(norm.body[i]) != ast.dump(n)
            elif isinstance(n, ast.ClassDef):
                for j, m in enumerate(n.body):
                    if isinstance(m, ast.FunctionDef) and m.name == "f":
                        n.body[j] = N.normalize(m, mod, n)
                        changed += ast.dump(n.body[j]) != ast.dump(m)
        if inputs is None:
            # special case: objects built inside
            mod.body.append(ast.parse("def g(m, names, ref):\n    o = Obj()\n    return f(o, names, ref, m)").body[0])
            norm.body.append(copy.deepcopy(mod.body[-1]))
            for m_ in (mod, norm):
                for k, n in enumerate(m_.body):
                    if isinstance(n, ast.FunctionDef) and n.name == "f":
                        n.name = "f_inner"
                    elif isinstance(n, ast.FunctionDef) and n.name == "g":
                        n.name = "f"
                        n.body[-1].value.func.id = "f_inner"
            inputs = [(m, names, ref) for m in (0, 5) for names in ({"p": 1, "q": 2}, {}) for ref in ({}, {"p": 1}, {"p": 2, "q": 2})]
        for args in inputs:
            a, b = _run(mod, args), _run(norm, args)
            if a != b:
                bad += 1
                print(f"DIFFERENT [{name}] args={args!r}\n  original  {a}\n  normalised {b}\n{ast.unparse(norm)}")
                break
        else:
            if verbose:
                print(f"ok   [{name}] {len(inputs)} inputs, normalised form {'differs from' if changed else 'equals'} the source")
    return 1 if bad else 0


if __name__ == "__main__":
    sys.exit(main())
