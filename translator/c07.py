"""C07 — how the parallel (dask) path of an observation is CODED -> `src_cfg : dask_cfg` (Model/Parallel.v).

Round 2c: every function is read in NORMAL FORM (translator/c07_norm.py) and the rows anchor on API calls, parameters
and attribute / subscript stores, comparing RESOLVED expressions -- never the name of a local variable, the statement
layout, a helper boundary, a message or a comment.  Accepted as equal: private helpers of the same module / class inlined;
single-assignment aliases and named intermediate results; module-level constants; guard clauses and inverted tests with
swapped branches; conditional expression vs if/else assignment; `x = A` + `if c: x = B`; loops filling a fresh dict / list
vs comprehensions vs dict(zip()); zip(count(), x) vs enumerate(x); list(map(f, x)); match vs if/elif; try/else-return;
a trailing `continue`; annotations, docstrings, asserts, imports, logging.  The shapes below are written in that normal
form (the local names in them are only illustrations).

Extracted (every other shape fails closed):

 binding of values to parameter keys
  * observation_dask._run_pipelines_array_to_datatree: `dct = dict(zip(<mapping param>, <tuple param>[, strict=..]))`
    (or the equivalent dict comprehension over that zip) and `processor.replace(dct)`        -> cfg_bind = BindPosition
  * observation_dask._run_pipelines_tuple_to_array hands `dimension_names` / `params_tuple` through unchanged;
    observation_dask.run_pipelines_with_dask gives the SAME name to `create_params(dim_names=...)`, to the first
    (metadata) run and to the apply_ufunc kwargs `"dimension_names"`                          -> cfg_same_mapping
  * observation._get_short_dimension_names_new: every returned dict is filled by ONE loop over the argument (or over
    a dict filled that way) with the loop variable as key, or is an unfiltered dict comprehension over such a dict
                                                                                              -> cfg_names_keep_order
  * Observation._get_parameter_types: one loop over `self.parameter_mode.enabled_steps` inserting `step.key`;
    Observation.run_pipelines: `types = self._get_parameter_types()`, `dim_names = _get_short_dimension_names_new(types)`,
    `run_pipelines_with_dask(dim_names=dim_names, ...)`                                        -> cfg_types_steps_order
  * create_params of ProductMode / SequentialMode / CustomMode: `all_steps = {step.key: .. for step in
    self.enabled_steps}`, `params_names = [dim_names[key] for key in all_steps]` (names looked up BY KEY), tuples built
    from `all_steps` in its own order                                                          -> cfg_tuple_steps_order

 what the parameter array holds
  * ProductMode.create_params: levels `list(step)` (LevelsRaw) | `list(dict.fromkeys(step))` (LevelsDedup), handed to
    `pd.MultiIndex.from_product(list(all_steps.values()), names=params_names)`
  * SequentialMode.create_params: rows `list(zip(*all_steps.values()[, strict=..]))` (SeqZip) | `[tuple(entry.parameters[key]
    for key in all_steps) for entry in self.get_parameters_item(processor=processor)]` (SeqEnumerate; the non-dask path
    must call the same `get_parameters_item`)
  * CustomMode.create_params + convert_custom_data: (`list(all_steps.values())`, `len(params) == 1`) (ByLength) |
    (`[step.values for step in self.enabled_steps]`, `params == "_"`) (ByPlaceholder); column offset `idx += 1` /
    `idx += len(params)`

 schedules (fail closed; the rows are constants `true` when the shapes are the known ones)
  * run_pipelines_with_dask: file index `np.arange(size).reshape(shape)`, `.chunk(1)` on the parameter array and on the
    index array, `apply_ufunc(.., vectorize=True, input_core_dims=[[], []])`, index handed on as an argument down to
    `run_pipeline(output_filename_suffix=...)`                                                -> src_file_index_row_major
  * ArchipelagoDataTree._build: `executor.map(create_island, seeds)` / `map(create_island, seeds)`, islands pushed in
    the order yielded                                                                         -> src_islands_by_submission
  * DaskBFE.__call__: `dvs_1d.reshape((-1, nx))`, chunks `(chunk_size, nx)`, chunk_size `max(1, nf // 10)` or the
    configured one, `fitness_func(dvs_2d).ravel()`                                            -> src_bfe_row_major

 what a worker of a process pool receives (round 2b; pickle hooks)
  * every class under pyxel/{pipelines,detectors,data_structure,outputs,exposure,observation,calibration} that defines
    __getstate__ / __setstate__: one row (class, [(attribute __init__ sets, how it comes back)]) with
      AWhole      `self.A = state["k"]` (also list()/tuple()/dict() of it, or `self.__dict__.update(state)`, or the default
                  __setstate__) where __getstate__ stored `"k": self.A` (also tuple()/list()/dict()/copy of it, or a copy of
                  `self.__dict__` from which A was not removed)
      ARecreated  `self.A = <expr>` with the expression __init__ uses, which mentions neither the state nor a parameter
                  (only for an attribute no other method of the class assigns or updates)
      ARebuilt ks `self.A = [ModelFunction(**d) for d in state["k"]]` where __getstate__ stored one dict literal per
                  element of self.A whose keys ks are constructor arguments of ModelFunction
      AMissing    not set by __setstate__ (or its key is not in the state)
    and whether the class has a __deepcopy__ of its own (without one, deep copies go through the same hooks)
    __reduce__ / __reduce_ex__ / __getnewargs__ / __getnewargs_ex__ / copyreg / any other statement shape: fail closed
                                                                                              -> src_pickle_hooks
  * ModelGroup.__iter__: the models of self.models whose `enabled` is set, in order (loop + if + yield, `yield from` /
    `return` of the filtered generator); ModelGroup.run: `for model in self` calling `model(detector)` once
                                                                                              -> src_group_runs_enabled_only
"""
from __future__ import annotations

import ast
from pathlib import Path

from .c07_norm import Fn, Mod, leaves, match, normalise, pat
from .common import HEADER, body_no_doc, fail, find_func, parse

DASK = "pyxel/observation/observation_dask.py"
OBS = "pyxel/observation/observation.py"
MISC = "pyxel/observation/misc.py"
ARCHI = "pyxel/calibration/archipelago_datatree.py"
UDEF = "pyxel/calibration/user_defined.py"


def u(node) -> str:
    return ast.unparse(node) if node is not None else ""


def assigns(fn: ast.AST):
    """(target, value, stmt) of every simple / annotated assignment inside fn"""
    for st in ast.walk(fn):
        if isinstance(st, ast.Assign) and len(st.targets) == 1:
            yield st.targets[0], st.value, st
        elif isinstance(st, ast.AnnAssign) and st.value is not None:
            yield st.target, st.value, st


def the_assign(fn, name: str):
    c = [(t, v, st) for t, v, st in assigns(fn) if isinstance(t, ast.Name) and t.id == name]
    if len(c) != 1:
        fail(fn, f"expected exactly one assignment to {name!r} (found {len(c)}) in")
    return c[0][1]


def calls(fn: ast.AST, pred):
    return [n for n in ast.walk(fn) if isinstance(n, ast.Call) and pred(u(n.func))]


def kw(call: ast.Call, name: str):
    for k in call.keywords:
        if k.arg == name:
            return k.value
    return None


def params_of(fn: ast.FunctionDef) -> list[str]:
    a = fn.args
    return [x.arg for x in a.posonlyargs + a.args + a.kwonlyargs]


def zip_of(node, a: str, b: str) -> bool:
    """zip(a, b[, strict=...])"""
    return (isinstance(node, ast.Call) and u(node.func) == "zip" and [u(x) for x in node.args] == [a, b]
            and all(k.arg == "strict" for k in node.keywords))


# ------------------------------------------------------------------------------------------ binding
#
# Round 2c: the rows below anchor on API calls, parameters and attribute / subscript stores of NORMALISED functions
# (translator/c07_norm.py: private helpers inlined, guard clauses, conditional expressions, loops <-> comprehensions,
# match statements, try/else) and compare RESOLVED expressions (single-assignment aliases, named intermediate results
# and module-level constants substituted).  No row reads the name of a local variable, a message or a comment.

# the functions the rows anchor on by name: never inlined into their callers
KEEP = {"_run_pipelines_array_to_datatree", "_run_pipelines_tuple_to_array", "_get_parameter_types",
        "_get_short_dimension_names_new", "run_pipelines_with_dask", "convert_custom_data", "create_params",
        "get_parameters_item", "run_pipeline"}


def fn_of(tree, name: str, cls: str | None = None) -> Fn:
    mod = tree if isinstance(tree, Mod) else Mod(tree)
    return Fn(mod, find_func(mod.tree, name, cls), cls, KEEP)


def kwr(fn: Fn, call: ast.Call, name: str):
    """resolved keyword argument of an (unresolved) call node"""
    v = kw(call, name)
    return None if v is None else fn.R(v)


def is_dict_of_zip(expr, a: str, b: str) -> bool:
    """dict(zip(a, b)) -- the canonical form of the dict comprehension / of the loop filling an empty dict, too"""
    m = match(pat("dict(zip(_A, _B))"), expr)
    return m is not None and u(m["_A"]) == a and u(m["_B"]) == b


def bind_row(tree) -> tuple[str, str]:
    fn = fn_of(tree, "_run_pipelines_array_to_datatree")
    ps = fn.params()
    if "params_tuple" not in ps or "dimension_names" not in ps or "processor" not in ps:
        fail(fn.raw, "_run_pipelines_array_to_datatree parameters")
    for p in ("params_tuple", "dimension_names", "processor"):
        if fn.rebinds(p):
            fail(fn.raw, f"{p} is rebound in")
    rep = fn.calls(lambda f: f == "processor.replace")
    if len(rep) != 1 or len(rep[0][1].args) != 1 or rep[0][1].keywords:
        fail(fn.raw, "expected exactly one processor.replace(<mapping>) in")
    if not is_dict_of_zip(rep[0][1].args[0], "dimension_names", "params_tuple"):
        fail(rep[0][1].args[0], "the dict given to processor.replace must be dict(zip(dimension_names, params_tuple))")
    # the run must be started with the processor that received the values
    runs = fn.calls(lambda f: f == "run_pipeline")
    if len(runs) != 1 or u(kw(runs[0][1], "processor")) != u(rep[0][1]):
        fail(fn.raw, "run_pipeline must be given the processor returned by processor.replace(...) in")
    # pass-through wrapper
    wr = fn_of(tree, "_run_pipelines_tuple_to_array")
    inner = wr.calls(lambda f: f == "_run_pipelines_array_to_datatree")
    if (len(inner) != 1 or inner[0][1].args or u(kw(inner[0][1], "params_tuple")) != "params_tuple"
            or u(kw(inner[0][1], "dimension_names")) != "dimension_names"
            or wr.rebinds("params_tuple") or wr.rebinds("dimension_names")):
        fail(wr.raw, "_run_pipelines_tuple_to_array must pass params_tuple / dimension_names through")
    return "BindPosition", "dimension_names"


def _params_array(fn: Fn, uf: ast.Call):
    """the array apply_ufunc maps over: `<P>.chunk(1)` where every alternative of <P> is parameter_mode.create_params(..)"""
    if len(uf.args) < 2:
        fail(uf, "apply_ufunc must map over the parameter array")
    m = match(pat("_P.chunk(1)"), uf.args[1])
    if m is None:
        fail(uf.args[1], "apply_ufunc must map over <parameter array>.chunk(1)")
    for leaf in leaves(m["_P"]):
        if not (isinstance(leaf, ast.Call) and u(leaf.func) == "parameter_mode.create_params"):
            fail(leaf, "the array apply_ufunc maps over is not the result of parameter_mode.create_params")
    return m["_P"]


def same_mapping_row(tree) -> bool:
    fn = fn_of(tree, "run_pipelines_with_dask")
    if "dim_names" not in fn.params() or "parameter_mode" not in fn.params():
        fail(fn.raw, "run_pipelines_with_dask parameters")
    if fn.rebinds("dim_names") or fn.rebinds("parameter_mode"):
        fail(fn.raw, "dim_names / parameter_mode is rebound in run_pipelines_with_dask")
    cps = fn.calls(lambda f: f == "parameter_mode.create_params")
    if not cps:
        fail(fn.raw, "no parameter_mode.create_params(...) call in")
    for _, c in cps:
        if c.args or u(kw(c, "dim_names")) != "dim_names":
            fail(c, "create_params must be called with dim_names=dim_names")
        extra = {k.arg for k in c.keywords} - {"dim_names"}
        if extra - {"processor"} or ("processor" in extra and u(kw(c, "processor")) != "processor"):
            fail(c, "unexpected argument of create_params")
    first = fn.calls(lambda f: f == "_run_pipelines_array_to_datatree")
    if len(first) != 1 or u(kw(first[0][1], "dimension_names")) != "dim_names":
        fail(fn.raw, "the metadata run must receive dimension_names=dim_names in")
    uf = fn.calls(lambda f: f.endswith("apply_ufunc"))
    if len(uf) != 1:
        fail(fn.raw, "expected one apply_ufunc call in")
    uf = uf[0][1]
    if not uf.args or u(uf.args[0]) != "_run_pipelines_tuple_to_array":
        fail(uf, "apply_ufunc must apply _run_pipelines_tuple_to_array")
    _params_array(fn, uf)
    kws = kw(uf, "kwargs")
    if isinstance(kws, ast.Call) and u(kws.func) == "dict" and not kws.args and all(k.arg for k in kws.keywords):
        d = {repr(k.arg): u(k.value) for k in kws.keywords}
    elif isinstance(kws, ast.Dict) and all(k is not None for k in kws.keys):
        d = {u(k): u(v) for k, v in zip(kws.keys, kws.values)}
    else:
        fail(uf, "apply_ufunc kwargs must be a dict literal")
    if d.get("'dimension_names'") != "dim_names":
        fail(kws, "apply_ufunc kwargs must pass 'dimension_names': dim_names")
    return True


def ordered_dicts(fn: ast.FunctionDef, roots: set[str]) -> set[str]:
    """names of dicts whose iteration order is the order of `roots` (a subsequence of it)"""
    good = set(roots)
    changed = True

    def comp_ordered(v) -> bool:
        """{key: .. for key in good} / {key: .. for key, _ in good.items()} / dict(good) / dict(good.items())"""
        if isinstance(v, ast.Name) and v.id in good:          # an alias of an ordered dict
            return True
        if isinstance(v, ast.Call) and u(v.func) == "dict" and len(v.args) == 1 and not v.keywords:
            a = v.args[0]
            return (isinstance(a, ast.Name) and a.id in good) or (
                isinstance(a, ast.Call) and u(a.func).endswith(".items") and isinstance(a.func.value, ast.Name)
                and a.func.value.id in good and not a.args)
        if isinstance(v, ast.DictComp) and len(v.generators) == 1 and not v.generators[0].ifs:
            g = v.generators[0]
            if isinstance(g.iter, ast.Name) and g.iter.id in good and u(v.key) == u(g.target):
                return True
            if (isinstance(g.iter, ast.Call) and u(g.iter.func).endswith(".items") and isinstance(g.iter.func.value, ast.Name)
                    and g.iter.func.value.id in good and isinstance(g.target, ast.Tuple) and u(v.key) == u(g.target.elts[0])):
                return True
        return False

    while changed:
        changed = False
        # candidate dict names: assigned `{}` / `dict()` exactly once
        for t, v, _ in list(assigns(fn)):
            if not isinstance(t, ast.Name) or t.id in good:
                continue
            name = t.id
            once = sum(1 for tt, _, _ in assigns(fn) if isinstance(tt, ast.Name) and tt.id == name) == 1
            mutated = any(isinstance(n, ast.Call) and u(n.func).startswith(name + ".") and u(n.func).split(".")[-1] in (
                "update", "setdefault", "pop", "popitem", "clear", "move_to_end", "__setitem__") for n in ast.walk(fn)) \
                or any(isinstance(tg, ast.Subscript) and u(tg.value) == name for tg, _, _ in assigns(fn)) \
                or any(isinstance(n, ast.Delete) and any(name in u(x) for x in n.targets) for n in ast.walk(fn))
            if once and not mutated and comp_ordered(v):
                good.add(name)
                changed = True
                continue
            empty = (isinstance(v, ast.Dict) and not v.keys) or (isinstance(v, ast.Call) and u(v) == "dict()")
            if not empty or not once:
                continue
            # every mutation of `name`
            loops = []
            bad = False
            for loop in [n for n in ast.walk(fn) if isinstance(n, ast.For)]:
                muts = []
                for n in ast.walk(loop):
                    if isinstance(n, ast.For) and n is not loop:
                        continue
                    if isinstance(n, (ast.Assign, ast.AnnAssign)):
                        tg = n.targets[0] if isinstance(n, ast.Assign) else n.target
                        if isinstance(tg, ast.Subscript) and u(tg.value) == name:
                            muts.append(tg)
                    if isinstance(n, ast.Call) and u(n.func).startswith(name + "."):
                        bad = True          # update / setdefault / pop / ...
                    if isinstance(n, ast.Delete) and any(name in u(x) for x in n.targets):
                        bad = True
                if muts:
                    loops.append((loop, muts))
            # mutations outside any loop
            for n in ast.walk(fn):
                if isinstance(n, ast.Call) and u(n.func).startswith(name + ".") and u(n.func).split(".")[-1] in (
                        "update", "setdefault", "pop", "popitem", "clear", "move_to_end", "__setitem__"):
                    bad = True
            top_muts = [tg for tg, _, st in assigns(fn) if isinstance(tg, ast.Subscript) and u(tg.value) == name]
            in_loops = sum(len(m) for _, m in loops)
            if bad or len(loops) != 1 or len(top_muts) != in_loops:
                continue
            loop, muts = loops[0]
            it = loop.iter
            src = None
            if isinstance(it, ast.Name):
                src, var = it.id, u(loop.target)
            elif isinstance(it, ast.Call) and u(it.func).endswith(".items") and isinstance(it.func.value, ast.Name) \
                    and isinstance(loop.target, ast.Tuple):
                src, var = it.func.value.id, u(loop.target.elts[0])
            if src in good and all(u(m.slice) == var for m in muts):
                good.add(name)
                changed = True
    return good


def names_order_row(tree) -> bool:
    f = fn_of(tree, "_get_short_dimension_names_new")
    fn = f.node
    ps = params_of(fn)
    if len(ps) != 1:
        fail(fn, "_get_short_dimension_names_new must take one argument")
    if f.rebinds(ps[0]):
        fail(fn, "the argument is rebound in")
    good = ordered_dicts(fn, {ps[0]})
    rets = [n for n in ast.walk(fn) if isinstance(n, ast.Return)]
    if not rets:
        fail(fn, "no return in")
    for r in rets:
        for v in leaves(r.value) if r.value is not None else [None]:
            if isinstance(v, ast.Name) and v.id in good and v.id != ps[0]:
                continue
            if isinstance(v, ast.DictComp) and len(v.generators) == 1 and not v.generators[0].ifs:
                g = v.generators[0]
                if isinstance(g.iter, ast.Name) and g.iter.id in good and u(v.key) == u(g.target):
                    continue
                if (isinstance(g.iter, ast.Call) and u(g.iter.func).endswith(".items") and isinstance(g.iter.func.value, ast.Name)
                        and g.iter.func.value.id in good and isinstance(g.target, ast.Tuple) and u(v.key) == u(g.target.elts[0])):
                    continue
            fail(r, "returned mapping is not known to keep the order of the argument")
    return True


def types_order_row(tree) -> bool:
    f = fn_of(tree, "_get_parameter_types", "Observation")
    fn = f.node
    rets = [n for n in ast.walk(fn) if isinstance(n, ast.Return)]
    if len(rets) != 1:
        fail(fn, "_get_parameter_types must have one return")
    ok = False
    # (1) the returned mapping IS a dict built per enabled step, keyed by step.key (comprehension, dict(zip()) over a
    #     comprehension of the keys, or a loop filling a fresh dict -- all normalised to a comprehension)
    rv = f.R(rets[0].value)
    if match(pat("{_S.key: _ANY for _S in self.parameter_mode.enabled_steps}"), rv) is not None:
        ok = True
    # (2) the loop that updates the dict kept on the instance (the shape before the round-2 repair)
    loops = [n for n in ast.walk(fn) if isinstance(n, ast.For)]
    if not ok and len(loops) == 1 and u(f.R(loops[0].iter)) == "self.parameter_mode.enabled_steps" \
            and isinstance(loops[0].target, ast.Name) and u(rets[0].value) == "self.parameter_types":
        var = loops[0].target.id
        body = loops[0].body
        if len(body) == 1 and isinstance(body[0], ast.Expr) and isinstance(body[0].value, ast.Call):
            c = body[0].value
            if u(c.func) == "self.parameter_types.update" and len(c.args) == 1 and isinstance(c.args[0], ast.Dict) \
                    and [u(k) for k in c.args[0].keys] == [f"{var}.key"]:
                ok = True
        if len(body) == 1 and isinstance(body[0], ast.Assign) and u(body[0].targets[0]) == f"self.parameter_types[{var}.key]":
            ok = True
    if not ok:
        fail(fn, "_get_parameter_types must return a mapping with one entry step.key per enabled step, in their order")
    run = fn_of(tree, "run_pipelines", "Observation")
    dk = run.calls(lambda f_: f_ == "run_pipelines_with_dask")
    if len(dk) != 1 or dk[0][1].args:
        fail(run.raw, "run_pipelines must call run_pipelines_with_dask(dim_names=.., parameter_mode=.., ..) once")
    if u(kw(dk[0][1], "dim_names")) != "_get_short_dimension_names_new(self._get_parameter_types())" \
            or u(kw(dk[0][1], "parameter_mode")) != "self.parameter_mode":
        fail(dk[0][1], "run_pipelines must hand _get_short_dimension_names_new(self._get_parameter_types()) and "
                       "self.parameter_mode to run_pipelines_with_dask")
    return True


# ------------------------------------------------------------------------------------------ the three modes

STEPS = "{_S.key: _L for _S in self.enabled_steps}"


def steps_dict(node, what: str):
    """`{step.key: <level expr> for step in self.enabled_steps}` -> (text of the dict, level expr with the loop
    variable written `step`)"""
    m = match(pat(STEPS), node)
    if m is None:
        fail(node, f"{what}: expected {{step.key: .. for step in self.enabled_steps}}")
    var = u(m["_S"])

    class Ren(ast.NodeTransformer):
        def visit_Name(self, n):
            return ast.Name(id="step", ctx=n.ctx) if n.id == var else n

    import copy as _copy
    return u(node), u(Ren().visit(_copy.deepcopy(m["_L"])))


def names_by_key(fn: Fn, node, steps_text: str):
    """`[dim_names[key] for key in <the steps dict>]`"""
    m = match(pat("[dim_names[_K] for _K in _D]"), node)
    if m is None or u(m["_D"]) != steps_text:
        fail(node, "the dimension names must be [dim_names[key] for key in all_steps] (looked up BY KEY, in the order "
                   "of the dict the tuples are built from)")


def check_all_name_lookups(fn: Fn, steps_text: str):
    """every `dim_names[..]` of the function is such a by-key lookup over the steps dict"""
    if fn.rebinds("dim_names"):
        fail(fn.raw, "dim_names is rebound in")
    subs = [n for n in ast.walk(fn.node) if isinstance(n, ast.Subscript) and u(n.value) == "dim_names"]
    comps = [n for n in ast.walk(fn.node) if isinstance(n, ast.ListComp) and match(pat("[dim_names[_K] for _K in _D]"), n)]
    if not comps or len(subs) != len(comps):
        fail(fn.raw, "dim_names must only be read as [dim_names[key] for key in all_steps] in")
    for c in comps:
        names_by_key(fn, fn.R(c), steps_text)


def product_row(tree) -> str:
    fn = fn_of(tree, "create_params", "ProductMode")
    fp = fn.calls(lambda f: f.endswith("MultiIndex.from_product"))
    if len(fp) != 1 or len(fp[0][1].args) != 1:
        fail(fn.raw, "ProductMode.create_params must build one MultiIndex.from_product(<levels>, names=<names>)")
    c = fp[0][1]
    m = match(pat("list(_D.values())"), c.args[0])
    if m is None:
        fail(c.args[0], "the levels must be list(all_steps.values())")
    steps_text, lv = steps_dict(m["_D"], "ProductMode.create_params")
    if lv == "list(step)":
        kind = "LevelsRaw"
    elif lv == "list(dict.fromkeys(step))":
        kind = "LevelsDedup"
    else:
        fail(m["_D"], "unknown level expression in ProductMode.create_params")
    if kw(c, "names") is None:
        fail(c, "MultiIndex.from_product(.., names=..)")
    names_by_key(fn, kw(c, "names"), steps_text)
    check_all_name_lookups(fn, steps_text)
    return kind


def _custom_values_store(fn: Fn):
    """the value stored under the column "custom_values" (what the cells of the parameter array hold)"""
    st = [n for n in ast.walk(fn.node) if isinstance(n, ast.Assign) and len(n.targets) == 1
          and isinstance(n.targets[0], ast.Subscript) and isinstance(n.targets[0].slice, ast.Constant)
          and n.targets[0].slice.value == "custom_values"]
    if len(st) != 1:
        fail(fn.raw, "expected one store <frame>['custom_values'] = <rows> in")
    return fn.R(st[0].value)


def sequential_row(tree, obs_tree) -> str:
    fn = fn_of(tree, "create_params", "SequentialMode")
    v = _custom_values_store(fn)
    kind = steps_text = None
    m = match(pat("list(zip(*_D.values()))"), v)
    if m is not None:
        steps_text, lv = steps_dict(m["_D"], "SequentialMode.create_params")
        if lv != "list(step)":
            fail(m["_D"], "unknown value expression in SequentialMode.create_params")
        kind = "SeqZip"
    for p in ("[tuple((_E.parameters[_K] for _K in _D)) for _E in self.get_parameters_item(processor=processor)]",
              "[tuple((_E.parameters[_K] for _K in _D)) for _E in self.get_parameters_item(processor)]",
              "[tuple([_E.parameters[_K] for _K in _D]) for _E in self.get_parameters_item(processor=processor)]"):
        m = match(pat(p), v)
        if m is not None:
            steps_text, _ = steps_dict(m["_D"], "SequentialMode.create_params")
            # ... and the non-dask path runs the very same generator
            run = fn_of(obs_tree, "run_pipelines", "Observation")
            if not run.calls(lambda f: f == "self.parameter_mode.get_parameters_item"):
                fail(run.raw, "the non-dask path does not call parameter_mode.get_parameters_item in")
            kind = "SeqEnumerate"
    if kind is None:
        fail(v, "unknown row expression in SequentialMode.create_params")
    if fn.rebinds("processor"):
        fail(fn.raw, "processor is rebound in")
    check_all_name_lookups(fn, steps_text)
    return kind


def custom_row(tree) -> str:
    fn = fn_of(tree, "create_params", "CustomMode")
    cc = fn.calls(lambda f: f == "convert_custom_data")
    if len(cc) != 1 or cc[0][1].args or {k.arg for k in cc[0][1].keywords} != {"custom_data", "params_custom_list", "params_names"} \
            or u(kw(cc[0][1], "custom_data")) != "self.custom_data":
        fail(fn.raw, "CustomMode.create_params must call convert_custom_data(custom_data=self.custom_data, "
                     "params_custom_list=.., params_names=..)")
    names = kw(cc[0][1], "params_names")
    m = match(pat("[dim_names[_K] for _K in _D]"), names)
    if m is None:
        fail(names, "params_names must be [dim_names[key] for key in all_steps]")
    steps_text, _ = steps_dict(m["_D"], "CustomMode.create_params")
    check_all_name_lookups(fn, steps_text)
    lst = kw(cc[0][1], "params_custom_list")
    passed = None
    m = match(pat("list(_D.values())"), lst)
    if m is not None and steps_dict(m["_D"], "CustomMode.create_params") == (steps_text, "list(step)"):
        passed = "levels"
    if match(pat("[_S.values for _S in self.enabled_steps]"), lst) is not None:
        passed = "placeholders"
    conv = fn_of(tree, "convert_custom_data")
    if conv.rebinds("params_names") or conv.rebinds("params_custom_list"):
        fail(conv.raw, "params_names / params_custom_list is rebound in")
    loops = [n for n in conv.node.body if isinstance(n, ast.For)]
    if len(loops) != 1:
        fail(conv.raw, "convert_custom_data must have one top-level loop")
    lp = loops[0]
    if not (match(pat("zip(params_names, params_custom_list)"), conv.R(lp.iter)) is not None
            and isinstance(lp.target, ast.Tuple) and len(lp.target.elts) == 2):
        fail(lp, "convert_custom_data must loop over zip(params_names, params_custom_list)")
    pvar = u(lp.target.elts[1])
    ifs = [n for n in lp.body if isinstance(n, ast.If)]
    if len(ifs) != 1 or not ifs[0].orelse:
        fail(lp, "convert_custom_data loop must be one if/else")
    test = u(conv.R(ifs[0].test))

    def incs(block):
        out = []
        for n in block:
            if isinstance(n, ast.AugAssign) and isinstance(n.op, ast.Add) and isinstance(n.target, ast.Name):
                out.append((n.target.id, u(conv.R(n.value))))
            elif isinstance(n, ast.Assign) and len(n.targets) == 1 and isinstance(n.targets[0], ast.Name):
                mm = match(pat("_X + _Y"), n.value)
                if mm is not None and u(mm["_X"]) == n.targets[0].id:
                    out.append((n.targets[0].id, u(conv.R(mm["_Y"]))))
        return out

    inc1, inc2 = incs(ifs[0].body), incs(ifs[0].orelse)
    if len(inc1) != 1 or len(inc2) != 1 or inc1[0][0] != inc2[0][0] or inc1[0][1] != "1" or inc2[0][1] != f"len({pvar})":
        fail(ifs[0], "convert_custom_data must advance the column offset by 1 / by len(params)")
    if test == f"len({pvar}) == 1" and passed == "levels":
        return "ByLength"
    if test in (f"{pvar} == '_'", f"'_' == {pvar}") and passed == "placeholders":
        return "ByPlaceholder"
    fail(ifs[0].test, f"unknown scalar test / argument combination ({passed!r}) in convert_custom_data")


# ------------------------------------------------------------------------------------------ schedules


def file_index_row(tree) -> bool:
    """one task per cell; file index = row-major position; the index reaches run_pipeline unchanged"""
    fn = fn_of(tree, "run_pipelines_with_dask")
    uf = fn.calls(lambda f: f.endswith("apply_ufunc"))
    if len(uf) != 1:
        fail(fn.raw, "expected one apply_ufunc call in")
    uf = uf[0][1]
    parr = u(_params_array(fn, uf))
    if len(uf.args) != 3:
        fail(uf, "apply_ufunc must map over the parameter array and the file index array")
    cands = [x for x in leaves(uf.args[2]) if not (isinstance(x, ast.Constant) and x.value is None)]
    if len(cands) != 1:
        fail(uf.args[2], "expected one way of building the file index array")
    idx = cands[0]
    txt = u(idx)
    da = [c for c in ast.walk(idx) if isinstance(c, ast.Call) and u(c.func).endswith("DataArray")]
    m = match(pat("_ANY(np.arange(_P.size).reshape(_P.shape), dims=_P.dims, **_K)"), da[0]) if len(da) == 1 else None
    if m is None or u(m["_P"]) != parr:
        fail(idx, "file index must be DataArray(np.arange(size).reshape(shape), dims=<parameter array>.dims, ..)")
    if not txt.endswith(".chunk(1)") or ".T." in txt or txt.endswith(".T") or "transpose" in txt:
        fail(idx, "file index must be chunked one cell per task and not transposed")
    if u(kw(uf, "vectorize")) != "True" or u(kw(uf, "input_core_dims")) != "[[], []]":
        fail(uf, "apply_ufunc must be vectorized over scalar cells")
    wr = fn_of(tree, "_run_pipelines_tuple_to_array")
    ps = wr.params()
    if ps[:2] != ["params_tuple", "output_filename_suffixes"] or wr.rebinds("output_filename_suffixes"):
        fail(wr.raw, "_run_pipelines_tuple_to_array(params_tuple, output_filename_suffixes, ..)")
    inner = wr.calls(lambda f: f == "_run_pipelines_array_to_datatree")
    if len(inner) != 1 or u(kw(inner[0][1], "output_filename_suffix")) != "output_filename_suffixes":
        fail(wr.raw, "the file index must be handed to _run_pipelines_array_to_datatree")
    one = fn_of(tree, "_run_pipelines_array_to_datatree")
    rp = one.calls(lambda f: f == "run_pipeline")
    if len(rp) != 1 or u(kw(rp[0][1], "output_filename_suffix")) != "output_filename_suffix" \
            or u(kw(rp[0][1], "outputs")) != "outputs" or one.rebinds("output_filename_suffix") or one.rebinds("outputs"):
        fail(one.raw, "the file index must be handed to run_pipeline as an argument of the call")
    return True


def islands_row(tree) -> bool:
    """every island pushed to the archipelago comes from ONE loop over an order-preserving mapper -- the builtin `map` or
    the `.map` of a pool executor bound by `with` -- applied to (island factory, seeds), pushed as yielded"""
    fn = fn_of(tree, "_build", "ArchipelagoDataTree")
    pushes = [n for n, _ in fn.calls(lambda f: f == "self._pygmo_archi.push_back")]
    if not pushes:
        fail(fn.raw, "no self._pygmo_archi.push_back(..) in")
    nested = {n.name for n in fn.node.body if isinstance(n, ast.FunctionDef)}
    pairs = set()
    for p in pushes:
        lp = fn.res.enclosing(p, ast.For)
        if lp is None or len(p.args) != 1 or p.keywords or u(p.args[0]) != u(lp.target) or len(lp.body) != 1 \
                or not (isinstance(lp.body[0], ast.Expr) and lp.body[0].value is p) or lp.orelse:
            fail(lp or p, "islands must be pushed in the order the mapper yields them")
        if fn.res.enclosing(lp, (ast.For, ast.While)) is not None:
            fail(lp, "the loop pushing the islands is nested in another loop")
        it = fn.R(lp.iter)
        m = match(pat("tqdm(_I, **_K)"), it)
        if m is not None:
            it = m["_I"]
        for leaf in leaves(it):
            mm = match(pat("map(_F, _S)"), leaf)
            if mm is None:
                mm = match(pat("_E.map(_F, _S)"), leaf)
                if mm is None or not isinstance(mm["_E"], ast.Name):
                    fail(leaf, "islands must be created with map(create_island, seeds) / executor.map(create_island, seeds)")
                cm = fn.res.with_binding(mm["_E"].id, lp)
                if cm is None:
                    fail(leaf, "the executor must be bound by `with .. as <name>` around the loop")
                for alt in leaves(fn.R(cm)):
                    if not ((isinstance(alt, ast.Call) and u(alt.func).split(".")[-1] in ("ThreadPoolExecutor", "ProcessPoolExecutor"))
                            or u(alt) in ("nullcontext()", "contextlib.nullcontext()")):
                        fail(alt, "unknown kind of executor")
            if u(mm["_F"]) not in nested:
                fail(leaf, "the mapped function must be the island factory defined in _build")
            pairs.add((u(mm["_F"]), u(mm["_S"])))
    if len(pairs) != 1:
        fail(fn.raw, "every branch must map the same factory over the same seeds in")
    return True


def bfe_row(tree) -> bool:
    fn = fn_of(tree, "__call__", "DaskBFE")
    ps = fn.params()
    if len(ps) != 3 or any(fn.rebinds(p) for p in ps):
        fail(fn.raw, "DaskBFE.__call__(self, prob, dvs_1d)")
    prob, dvs = ps[1], ps[2]
    fa = fn.calls(lambda f: f.endswith("from_array"))
    m = match(pat(f"_ANY({dvs}.reshape((-1, {prob}.get_nx())), chunks=(_CS, {prob}.get_nx()))"), fa[0][1]) if len(fa) == 1 else None
    if m is None:
        fail(fn.raw, "DaskBFE must cut dvs_1d.reshape((-1, nx)) into chunks (chunk_size, nx)")
    cs = u(m["_CS"])
    if cs not in (f"max(1, {prob}.get_nf() // 10) if self._chunk_size is None else self._chunk_size",):
        fail(m["_CS"], "DaskBFE chunk size must be max(1, num_fitness // 10) or the configured one")
    rets = [n for n in ast.walk(fn.node) if isinstance(n, ast.Return) and hasattr(n, "_pos")]
    if len(rets) != 1:
        fail(fn.raw, "DaskBFE must have one return")
    rv = fn.R(rets[0].value)
    mm = match(pat("_G(_X).ravel()"), rv)
    if mm is None or u(mm["_X"]) != u(fa[0][1]) or match(pat("_ANY.gufunc(_ANY.fitness, **_K)"), mm["_G"]) is None:
        fail(rv, "DaskBFE must return <gufunc of the problem's fitness>(dvs_2d).ravel()")
    return True



# ------------------------------------------------------------------------------------------ pickle hooks

PICKLE_DIRS = ("pyxel/pipelines", "pyxel/detectors", "pyxel/data_structure", "pyxel/outputs", "pyxel/exposure",
               "pyxel/observation", "pyxel/calibration")
OPAQUE_HOOKS = ("__reduce__", "__reduce_ex__", "__getnewargs__", "__getnewargs_ex__")
MF_FIELDS = {"func": "FFunc", "name": "FName", "arguments": "FArgs", "enabled": "FEnabled"}
WRAPPERS = ("list", "tuple", "dict", "copy", "deepcopy", "copy.copy", "copy.deepcopy")


def _self_attr(node, self_name="self"):
    return (node.attr if isinstance(node, ast.Attribute) and isinstance(node.value, ast.Name)
            and node.value.id == self_name else None)


def _init_attrs(fn: ast.FunctionDef) -> dict:
    """attribute -> list of the expressions __init__ assigns to it (in source order)"""
    out: dict = {}
    for n in ast.walk(fn):
        tgts, val = [], None
        if isinstance(n, ast.Assign):
            tgts, val = n.targets, n.value
        elif isinstance(n, (ast.AnnAssign, ast.AugAssign)):
            tgts, val = [n.target], n.value
        for t in tgts:
            for tt in (t.elts if isinstance(t, ast.Tuple) else [t]):
                a = _self_attr(tt)
                if a is not None:
                    out.setdefault(a, []).append(val if not isinstance(t, ast.Tuple) else None)
    return out


def _unwrap(node):
    """list(x) / tuple(x) / dict(x) / copy(x) / deepcopy(x) / x.copy() -> x (repeatedly)"""
    while True:
        if isinstance(node, ast.Call) and u(node.func) in WRAPPERS and len(node.args) == 1 and not node.keywords:
            node = node.args[0]
        elif (isinstance(node, ast.Call) and isinstance(node.func, ast.Attribute) and node.func.attr == "copy"
              and not node.args and not node.keywords):
            node = node.func.value
        else:
            return node


def _state_key(node, state: str):
    """state["k"] -> "k" """
    if (isinstance(node, ast.Subscript) and isinstance(node.value, ast.Name) and node.value.id == state
            and isinstance(node.slice, ast.Constant) and isinstance(node.slice.value, str)):
        return node.slice.value
    return None


def _is_dict_copy(node) -> bool:
    """a fresh dict with the content of self.__dict__"""
    if u(node) in ("{**self.__dict__}", "{**vars(self)}"):
        return True
    inner = _unwrap(node)
    return inner is not node and u(inner) in ("self.__dict__", "vars(self)")


def _dict_literal(node):
    """{"k": v, ..} / dict(k=v, ..) -> {key: value expr}, else None"""
    if isinstance(node, ast.Dict):
        if not all(isinstance(k, ast.Constant) and isinstance(k.value, str) for k in node.keys):
            fail(node, "__getstate__ keys must be string literals")
        return {k.value: v for k, v in zip(node.keys, node.values)}
    if isinstance(node, ast.Call) and u(node.func) == "dict" and not node.args and all(k.arg for k in node.keywords):
        return {k.arg: k.value for k in node.keywords}
    return None


def _getstate_table(fn: ast.FunctionDef | None):
    """-> (kind, {key: value expr}, removed keys): kind "dict" = the state holds exactly the keys of the table;
    kind "all" = a copy of self.__dict__ (minus `removed`, keys of the table overridden).  fn None = the default
    __getstate__ = ("all", {}, set())"""
    if fn is None:
        return "all", {}, set()
    body = body_no_doc(fn)
    if not body or not isinstance(body[-1], ast.Return) or sum(isinstance(n, ast.Return) for n in ast.walk(fn)) != 1:
        fail(fn, "__getstate__ must end with its only return")
    rv = body[-1].value
    var, kind, tab, removed, loc = None, None, {}, set(), {}
    for st in body[:-1]:
        if isinstance(st, ast.Pass):
            continue
        if isinstance(st, (ast.Assign, ast.AnnAssign)) and (isinstance(st, ast.AnnAssign) or len(st.targets) == 1):
            tgt = st.targets[0] if isinstance(st, ast.Assign) else st.target
            if st.value is None:
                fail(st, "unknown statement in __getstate__")
            if isinstance(tgt, ast.Name):
                d = _dict_literal(st.value)
                if var is None and d is not None:
                    var, kind, tab = tgt.id, "dict", dict(d)
                    continue
                if var is None and _is_dict_copy(st.value):
                    var, kind = tgt.id, "all"
                    continue
                if tgt.id != var:
                    loc[tgt.id] = st.value          # a local helper value
                    continue
            k = _state_key(tgt, var) if var else None
            if k is not None:
                tab[k] = st.value
                removed.discard(k)
                continue
            fail(st, "unknown statement in __getstate__")
        if var and isinstance(st, ast.Delete) and all(_state_key(t, var) for t in st.targets):
            for t in st.targets:
                removed.add(_state_key(t, var))
                tab.pop(_state_key(t, var), None)
            continue
        if (var and isinstance(st, ast.Expr) and isinstance(st.value, ast.Call) and u(st.value.func) == f"{var}.pop"
                and st.value.args and isinstance(st.value.args[0], ast.Constant) and isinstance(st.value.args[0].value, str)):
            removed.add(st.value.args[0].value)
            tab.pop(st.value.args[0].value, None)
            continue
        fail(st, "unknown statement in __getstate__")
    if isinstance(rv, ast.Name) and rv.id == var:
        pass
    elif var is None and _dict_literal(rv) is not None:
        kind, tab = "dict", dict(_dict_literal(rv))
    elif var is None and _is_dict_copy(rv):
        kind = "all"
    else:
        fail(rv, "__getstate__ must return a dict literal or a copy of self.__dict__")
    tab = {k: (loc[v.id] if isinstance(v, ast.Name) and v.id in loc else v) for k, v in tab.items()}
    return kind, tab, removed


def _rebuilt(val, state: str, gtab, attr: str):
    """`[ModelFunction(**d) for d in state["k"]]` (or list(<the same generator>)) with the state holding one dict
    literal per element of self.<attr> -> the kept constructor keywords, else None"""
    comp = val
    if isinstance(val, ast.Call) and u(val.func) in ("list", "tuple") and len(val.args) == 1:
        comp = val.args[0]
    if not isinstance(comp, (ast.ListComp, ast.GeneratorExp)) or len(comp.generators) != 1 or comp.generators[0].ifs:
        return None
    g = comp.generators[0]
    k = _state_key(g.iter, state)
    e = comp.elt
    if (k is None or not isinstance(g.target, ast.Name) or not isinstance(e, ast.Call) or e.args
            or len(e.keywords) != 1 or e.keywords[0].arg is not None or u(e.keywords[0].value) != g.target.id):
        return None
    if u(e.func) != "ModelFunction":
        fail(val, "elements rebuilt through a constructor the model does not know")
    if k not in gtab[1]:
        if gtab[0] == "all" and k not in gtab[2]:
            fail(val, "model functions rebuilt from something that is not a definition")
        return "missing"
    src = gtab[1][k]
    if isinstance(src, ast.Call) and u(src.func) in ("list", "tuple") and len(src.args) == 1:
        src = src.args[0]
    if not isinstance(src, (ast.ListComp, ast.GeneratorExp)) or len(src.generators) != 1 or src.generators[0].ifs \
            or u(src.generators[0].iter) != f"self.{attr}" or not isinstance(src.elt, ast.Dict):
        fail(src, "the stored definitions must be one dict literal per element of the attribute")
    kept = []
    for kk in src.elt.keys:
        if not (isinstance(kk, ast.Constant) and kk.value in MF_FIELDS):
            fail(src.elt, "unknown constructor keyword in the stored definition")
        kept.append(MF_FIELDS[kk.value])
    return kept


def _hook_row(cls: ast.ClassDef, ancestors=(), mods=None):
    """the row of one class: its own hooks or the nearest inherited ones (ancestors = the scanned base classes, nearest
    first), judged against every attribute the __init__ of the class and of its ancestors set"""
    chain = [cls, *ancestors]
    meths: dict = {}
    for c in reversed(chain):
        meths.update({n.name: n for n in c.body if isinstance(n, (ast.FunctionDef, ast.AsyncFunctionDef))
                      if n.name != "__init__"})
    for h in OPAQUE_HOOKS:
        if h in meths:
            fail(meths[h], f"class {cls.name} defines {h}: what a pickle round trip restores is not known")
    gs, ss = meths.get("__getstate__"), meths.get("__setstate__")
    if gs is None and ss is None:
        return None
    if mods:
        # the hooks are read in normal form (private helpers inlined, annotations / logging / docstrings dropped, guard
        # clauses, loops filling a fresh dict as comprehensions)
        def normal(fn):
            owner = next((c for c in chain if fn in c.body), None)
            if fn is None or owner is None or id(owner) not in mods:
                return fn
            return normalise(fn, mods[id(owner)], owner.name, KEEP)
        gs, ss = normal(gs), normal(ss)
    raw_inits = [n for c in chain for n in c.body if isinstance(n, ast.FunctionDef) and n.name == "__init__"]
    inits = [normal(n) for n in raw_inits] if mods else raw_inits

    def private_calls(fn) -> set:
        return {n.func.attr for n in ast.walk(fn) if isinstance(n, ast.Call) and isinstance(n.func, ast.Attribute)
                and isinstance(n.func.value, ast.Name) and n.func.value.id == "self" and n.func.attr.startswith("_")} if fn else set()
    # private helper methods that were inlined into __init__ / __setstate__ are part of them, not "other methods"
    raw_ss = meths.get("__setstate__")
    inlined = set()
    for raw, norm in [(raw_ss, ss)] + list(zip(raw_inits, inits)):
        inlined |= private_calls(raw) - private_calls(norm)
    if not inits:
        fail(cls, f"class {cls.name} has pickle hooks but no __init__ among the scanned classes")
    init: dict = {}
    init_params: set = set()
    for fn in inits:
        for a, vals in _init_attrs(fn).items():
            init.setdefault(a, []).extend(vals)
        init_params |= set(params_of(fn))
    gtab = _getstate_table(gs)
    restored: dict = {}
    # attributes some OTHER method of the class (or of a scanned ancestor) assigns or updates: they carry state of
    # their own, so setting them again to what __init__ sets is not a restoration
    stateful: set = set()
    for c in chain:
        for fn in c.body:
            if isinstance(fn, (ast.FunctionDef, ast.AsyncFunctionDef)) and fn.name not in ("__init__", "__setstate__", "__getstate__") \
                    and not (fn.name in inlined and not any(fn.name in private_calls(o) for cc in chain for o in cc.body
                                                            if isinstance(o, ast.FunctionDef)
                                                            and o.name not in ("__init__", "__setstate__"))):
                for n in ast.walk(fn):
                    tgts = []
                    if isinstance(n, ast.Assign):
                        tgts = n.targets
                    elif isinstance(n, (ast.AnnAssign, ast.AugAssign)):
                        tgts = [n.target]
                    elif isinstance(n, ast.Delete):
                        tgts = n.targets
                    elif (isinstance(n, ast.Call) and isinstance(n.func, ast.Attribute)
                          and n.func.attr in ("append", "extend", "update", "add", "pop", "clear", "insert", "remove",
                                              "setdefault", "popitem")):
                        tgts = [n.func.value]
                    for t in tgts:
                        for tt in (t.elts if isinstance(t, ast.Tuple) else [t]):
                            while isinstance(tt, ast.Subscript):
                                tt = tt.value
                            if _self_attr(tt) is not None:
                                stateful.add(_self_attr(tt))

    def from_state(attr: str, key: str):
        kind, tab, removed = gtab
        if key in tab:
            if _self_attr(_unwrap(tab[key])) == attr:
                return "AWhole"
            fail(tab[key], f"{cls.name}.__getstate__: key {key!r} restored into {attr!r} is not taken from self.{attr}")
        if kind == "all" and key not in removed:
            return "AWhole" if key == attr else "AMissing"
        return "AMissing"

    def all_keys():
        """default __setstate__ / self.__dict__.update(state): every key of the state becomes the attribute of that name"""
        for a in init:
            if a not in restored:
                restored[a] = from_state(a, a)

    if ss is None:
        all_keys()
    else:
        ps = params_of(ss)
        if len(ps) != 2:
            fail(ss, "__setstate__(self, state)")
        state = ps[1]
        for st in body_no_doc(ss):
            if isinstance(st, ast.Pass):
                continue
            if isinstance(st, (ast.Assign, ast.AnnAssign)):
                tgt = st.targets[0] if isinstance(st, ast.Assign) and len(st.targets) == 1 else getattr(st, "target", None)
                if tgt is not None and u(tgt) == "self.__dict__" and u(_unwrap(st.value)) == state:
                    all_keys()
                    continue
                a = _self_attr(tgt) if tgt is not None else None
                if a is None or st.value is None:
                    fail(st, "unknown statement in __setstate__")
                val = st.value
                inner = _unwrap(val)
                k = _state_key(inner, state)
                if (k is None and isinstance(inner, ast.Call) and u(inner.func) == f"{state}.get" and inner.args
                        and isinstance(inner.args[0], ast.Constant) and isinstance(inner.args[0].value, str)):
                    k = inner.args[0].value
                if k is not None:
                    restored[a] = from_state(a, k)
                    continue
                rb = _rebuilt(val, state, gtab, a)
                if rb == "missing":
                    restored[a] = "AMissing"
                    continue
                if rb is not None:
                    restored[a] = "(ARebuilt [" + "; ".join(rb) + "])"
                    continue
                names = {n.id for n in ast.walk(val) if isinstance(n, ast.Name)}
                if state in names or names & init_params:
                    fail(st, "unknown way of restoring an attribute in __setstate__")
                if a in init and any(x is not None and u(x) == u(val) for x in init[a]):
                    if a in stateful:
                        fail(st, f"{cls.name}.{a} is set again to its initial value although other methods change it")
                    restored[a] = "ARecreated"
                    continue
                fail(st, "attribute set by __setstate__ to something __init__ does not set it to")
            elif (isinstance(st, ast.Expr) and isinstance(st.value, ast.Call)
                  and u(st.value.func) in ("self.__dict__.update", "vars(self).update")
                  and [u(x) for x in st.value.args] == [state] and not st.value.keywords):
                all_keys()
            elif (isinstance(st, ast.For) and isinstance(st.target, ast.Tuple) and len(st.target.elts) == 2
                  and u(st.iter) == f"{state}.items()" and len(st.body) == 1 and not st.orelse
                  and u(st.body[0]) == f"setattr(self, {u(st.target.elts[0])}, {u(st.target.elts[1])})"):
                all_keys()
            else:
                fail(st, "unknown statement in __setstate__")
    return cls.name, "__deepcopy__" in meths, [(a, restored.get(a, "AMissing")) for a in sorted(init)]


def pickle_rows(repo: Path):
    classes: dict = {}
    mods: dict = {}
    for d in PICKLE_DIRS:
        base = repo / d
        if not base.is_dir():
            fail(None, f"{d}: directory not found")
        for f in sorted(base.rglob("*.py")):
            rel = str(f.relative_to(repo))
            tree = parse(repo, rel)
            mod = Mod(tree, repo, rel)
            for n in ast.walk(tree):
                if isinstance(n, ast.ClassDef):
                    mods[id(n)] = mod
                if isinstance(n, ast.Call) and u(n.func) in ("copyreg.pickle", "copyreg.constructor"):
                    fail(n, f"{rel}: copyreg registration")
                if isinstance(n, ast.ClassDef):
                    hooked = any(isinstance(m, ast.FunctionDef) and m.name in ("__getstate__", "__setstate__") + OPAQUE_HOOKS
                                 for m in n.body)
                    if n.name in classes and (hooked or classes[n.name][1]):
                        fail(n, f"two classes named {n.name}, one with pickle hooks")
                    classes.setdefault(n.name, (n, hooked))

    def ancestors(n: ast.ClassDef, seen=()):
        out = []
        for b in n.bases:
            nm = u(b).split(".")[-1].split("[")[0]
            if nm in classes and nm not in seen:
                out.append(classes[nm][0])
                out += ancestors(classes[nm][0], seen + (nm,))
        return out

    rows = []
    for name in sorted(classes):
        row = _hook_row(classes[name][0], ancestors(classes[name][0], (name,)), mods)
        if row is not None:
            rows.append(row)
    return rows


GROUP = "pyxel/pipelines/model_group.py"


def group_runs_enabled_row(tree) -> bool:
    """ModelGroup.__iter__ yields the models whose `enabled` is set, in the order of self.models, and ModelGroup.run
    executes what iterating over the group yields (`for model in self: ... model(detector)`)"""
    fit = fn_of(tree, "__iter__", "ModelGroup")
    it = fit.node
    body = [st for st in it.body if not (isinstance(st, ast.Assign) and isinstance(st.targets[0], ast.Name))]   # aliases are resolved
    for n in ast.walk(it):
        if isinstance(n, (ast.For, ast.comprehension)) and hasattr(n.iter, "_pos"):
            n.iter = fit.R(n.iter)
    ok = False

    def filtered(gen, elt) -> bool:
        return (len(gen) == 1 and u(gen[0].iter) == "self.models" and isinstance(gen[0].target, ast.Name)
                and [u(c) for c in gen[0].ifs] == [f"{gen[0].target.id}.enabled"] and u(elt) == gen[0].target.id)

    if len(body) == 1 and isinstance(body[0], ast.For) and u(body[0].iter) == "self.models" and not body[0].orelse \
            and isinstance(body[0].target, ast.Name):
        v = body[0].target.id
        b = body[0].body
        if (len(b) == 1 and isinstance(b[0], ast.If) and u(b[0].test) == f"{v}.enabled" and not b[0].orelse
                and len(b[0].body) == 1 and u(b[0].body[0]) == f"yield {v}"):
            ok = True
    elif len(body) == 1 and isinstance(body[0], ast.Expr) and isinstance(body[0].value, ast.YieldFrom):
        g = body[0].value.value
        ok = isinstance(g, (ast.GeneratorExp, ast.ListComp)) and filtered(g.generators, g.elt)
    elif len(body) == 1 and isinstance(body[0], ast.Return) and body[0].value is not None:
        g = body[0].value
        if isinstance(g, ast.Call) and u(g.func) == "iter" and len(g.args) == 1:
            g = g.args[0]
        ok = isinstance(g, (ast.GeneratorExp, ast.ListComp)) and filtered(g.generators, g.elt)
    if not ok:
        fail(it, "ModelGroup.__iter__ must yield the models of self.models whose `enabled` is set, in order")
    frun = fn_of(tree, "run", "ModelGroup")
    run = frun.node
    loops = [n for n in ast.walk(run) if isinstance(n, ast.For) and u(frun.R(n.iter)) == "self"]
    if len(loops) != 1 or not isinstance(loops[0].target, ast.Name):
        fail(run, "ModelGroup.run must execute `for model in self`")
    v = loops[0].target.id
    execs = [n for n in ast.walk(loops[0]) if isinstance(n, ast.Call) and u(n.func) == v
             and [u(a) for a in n.args] + [u(k.value) for k in n.keywords] == ["detector"]]
    if len(execs) != 1:
        fail(loops[0], "ModelGroup.run must call every model it iterates over exactly once with the detector")
    if any(isinstance(n, ast.For) and n is not loops[0] and u(frun.R(n.iter)) in ("self.models", "self") for n in ast.walk(run)):
        fail(run, "a second loop over the models in ModelGroup.run")
    return True


def render_hooks(rows) -> str:
    body = ";\n  ".join('mkHook "%s" %s [%s]' % (c, "true" if dc else "false", "; ".join('("%s", %s)' % (a, r) for a, r in attrs))
                         for c, dc, attrs in rows)
    return ("\n(* pickle hooks (__getstate__ / __setstate__) of the classes whose objects travel to the workers of a process\n"
            "   pool: for every attribute __init__ sets, how it comes back from a round trip *)\n"
            "Definition src_pickle_hooks : list hook_row := [\n  " + body + "\n]%string.\n"
            "\n(* ModelGroup.__iter__ yields the models whose `enabled` is set, in the order of self.models, and ModelGroup.run\n"
            "   calls exactly those (`executed` of Model/Parallel.v) *)\n"
            "Definition src_group_runs_enabled_only : bool := true.\n")


TEMPLATE = """From Coq Require Import String.
From Coq Require Import List Bool.
From PyxelV Require Import Model.Parallel.
Import ListNotations.

(* SequentialMode.create_params / ProductMode.create_params / convert_custom_data+CustomMode.create_params /
   _run_pipelines_array_to_datatree / run_pipelines_with_dask / _get_short_dimension_names_new /
   Observation._get_parameter_types + run_pipelines / the three create_params (tuple order) *)
Definition src_cfg : dask_cfg :=
  mkCfg {seq} {prod} {custom} {bind} {same} {names} {types} {tuples}.

(* run_pipelines_with_dask: file index = np.arange(size).reshape(shape) (row-major), one cell per task (.chunk(1) on
   both arrays), handed unchanged through _run_pipelines_tuple_to_array / _run_pipelines_array_to_datatree to
   run_pipeline as an ARGUMENT of the call *)
Definition src_file_index_row_major : bool := {fidx}.
(* ArchipelagoDataTree._build: it = executor.map(create_island, seeds) / map(create_island, seeds); islands pushed in
   the order the mapper yields them (= submission order) *)
Definition src_islands_by_submission : bool := {isl}.
(* DaskBFE.__call__: dvs_1d.reshape((-1, nx)) cut into chunks of chunk_size >= 1 rows, result ravel()ed *)
Definition src_bfe_row_major : bool := {bfe}.
"""


HOOKS_UNCHANGED = [("ModelGroup", True, [("_log", "ARecreated"), ("_name", "AWhole"), ("models", "AWhole")])]


def render(seq, prod, custom, bind="BindPosition", same=True, names=True, types=True, tuples=True, fidx=True,
           isl=True, bfe=True, hooks=None) -> str:
    b = lambda x: "true" if x else "false"  # noqa: E731
    return (HEADER + TEMPLATE.format(seq=seq, prod=prod, custom=custom, bind=bind, same=b(same), names=b(names),
                                     types=b(types), tuples=b(tuples), fidx=b(fidx), isl=b(isl), bfe=b(bfe))
            + render_hooks(HOOKS_UNCHANGED if hooks is None else hooks))


def rows(repo: Path) -> dict:
    dask, obs, misc = (Mod(parse(repo, f), repo, f) for f in (DASK, OBS, MISC))
    bind, _ = bind_row(dask)
    same = same_mapping_row(dask)
    names = names_order_row(obs)
    types = types_order_row(obs)
    prod = product_row(misc)
    seq = sequential_row(misc, obs)
    custom = custom_row(misc)
    fidx = file_index_row(dask)
    isl = islands_row(Mod(parse(repo, ARCHI), repo, ARCHI))
    bfe = bfe_row(Mod(parse(repo, UDEF), repo, UDEF))
    hooks = pickle_rows(repo)
    group_runs_enabled_row(Mod(parse(repo, GROUP), repo, GROUP))
    return dict(seq=seq, prod=prod, custom=custom, bind=bind, same=same, names=names, types=types, tuples=True,
                fidx=fidx, isl=isl, bfe=bfe, hooks=hooks)


def translate(repo: Path) -> str:
    return render(**rows(repo))


# the text for the tree after the round-2 repairs (used only to keep a model for the search when translation fails)
FALLBACK = render("SeqEnumerate", "LevelsDedup", "ByPlaceholder")
