"""C07 — how the parallel (dask) path of an observation is CODED -> `src_cfg : dask_cfg` (Model/Parallel.v).

Extracted (every other shape fails closed):

 binding of values to parameter keys
  * observation_dask._run_pipelines_array_to_datatree: `dct = dict(zip(<mapping param>, <tuple param>[, strict=..]))`
    (or the equivalent dict comprehension over that zip) and `processor.replace(dct)`        -> cfg_bind = BindPosition
  * observation_dask._run_pipelines_tuple_to_array hands `dimension_names` / `params_tuple` through unchanged;
    observation_dask.run_pipelines_with_dask gives the SAME name to `create_params(dim_names=...)`, to the first
    (metadata) run and to the apply_ufunc kwargs `"dimension_names"`                          -> cfg_same_mapping
  * observation._get_short_dimension_names_new: every returned dict is filled by ONE loop over the argument (or over
    a dict filled that way) with the loop variable as key, or is an unfiltered dict comprehension over such a dict
                                                                                              -> cfg_names_keep_order
  * Observation._get_parameter_types: one loop over `self.parameter_mode.enabled_steps` inserting `step.key`;
    Observation.run_pipelines: `types = self._get_parameter_types()`, `dim_names = _get_short_dimension_names_new(types)`,
    `run_pipelines_with_dask(dim_names=dim_names, ...)`                                        -> cfg_types_steps_order
  * create_params of ProductMode / SequentialMode / CustomMode: `all_steps = {step.key: .. for step in
    self.enabled_steps}`, `params_names = [dim_names[key] for key in all_steps]` (names looked up BY KEY), tuples built
    from `all_steps` in its own order                                                          -> cfg_tuple_steps_order

 what the parameter array holds
  * ProductMode.create_params: levels `list(step)` (LevelsRaw) | `list(dict.fromkeys(step))` (LevelsDedup), handed to
    `pd.MultiIndex.from_product(list(all_steps.values()), names=params_names)`
  * SequentialMode.create_params: rows `list(zip(*all_steps.values()[, strict=..]))` (SeqZip) | `[tuple(entry.parameters[key]
    for key in all_steps) for entry in self.get_parameters_item(processor=processor)]` (SeqEnumerate; the non-dask path
    must call the same `get_parameters_item`)
  * CustomMode.create_params + convert_custom_data: (`list(all_steps.values())`, `len(params) == 1`) (ByLength) |
    (`[step.values for step in self.enabled_steps]`, `params == "_"`) (ByPlaceholder); column offset `idx += 1` /
    `idx += len(params)`

 schedules (fail closed; the rows are constants `true` when the shapes are the known ones)
  * run_pipelines_with_dask: file index `np.arange(size).reshape(shape)`, `.chunk(1)` on the parameter array and on the
    index array, `apply_ufunc(.., vectorize=True, input_core_dims=[[], []])`, index handed on as an argument down to
    `run_pipeline(output_filename_suffix=...)`                                                -> src_file_index_row_major
  * ArchipelagoDataTree._build: `executor.map(create_island, seeds)` / `map(create_island, seeds)`, islands pushed in
    the order yielded                                                                         -> src_islands_by_submission
  * DaskBFE.__call__: `dvs_1d.reshape((-1, nx))`, chunks `(chunk_size, nx)`, chunk_size `max(1, nf // 10)` or the
    configured one, `fitness_func(dvs_2d).ravel()`                                            -> src_bfe_row_major

 what a worker of a process pool receives (round 2b; pickle hooks)
  * every class under pyxel/{pipelines,detectors,data_structure,outputs,exposure,observation,calibration} that defines
    __getstate__ / __setstate__: one row (class, [(attribute __init__ sets, how it comes back)]) with
      AWhole      `self.A = state["k"]` (also list()/tuple()/dict() of it, or `self.__dict__.update(state)`, or the default
                  __setstate__) where __getstate__ stored `"k": self.A` (also tuple()/list()/dict()/copy of it, or a copy of
                  `self.__dict__` from which A was not removed)
      ARecreated  `self.A = <expr>` with the expression __init__ uses, which mentions neither the state nor a parameter
                  (only for an attribute no other method of the class assigns or updates)
      ARebuilt ks `self.A = [ModelFunction(**d) for d in state["k"]]` where __getstate__ stored one dict literal per
                  element of self.A whose keys ks are constructor arguments of ModelFunction
      AMissing    not set by __setstate__ (or its key is not in the state)
    and whether the class has a __deepcopy__ of its own (without one, deep copies go through the same hooks)
    __reduce__ / __reduce_ex__ / __getnewargs__ / __getnewargs_ex__ / copyreg / any other statement shape: fail closed
                                                                                              -> src_pickle_hooks
  * ModelGroup.__iter__: the models of self.models whose `enabled` is set, in order (loop + if + yield, `yield from` /
    `return` of the filtered generator); ModelGroup.run: `for model in self` calling `model(detector)` once
                                                                                              -> src_group_runs_enabled_only
"""
from __future__ import annotations

import ast
from pathlib import Path

from .common import HEADER, body_no_doc, fail, find_func, parse

DASK = "pyxel/observation/observation_dask.py"
OBS = "pyxel/observation/observation.py"
MISC = "pyxel/observation/misc.py"
ARCHI = "pyxel/calibration/archipelago_datatree.py"
UDEF = "pyxel/calibration/user_defined.py"


def u(node) -> str:
    return ast.unparse(node) if node is not None else ""


def assigns(fn: ast.AST):
    """(target, value, stmt) of every simple / annotated assignment inside fn"""
    for st in ast.walk(fn):
        if isinstance(st, ast.Assign) and len(st.targets) == 1:
            yield st.targets[0], st.value, st
        elif isinstance(st, ast.AnnAssign) and st.value is not None:
            yield st.target, st.value, st


def the_assign(fn, name: str):
    c = [(t, v, st) for t, v, st in assigns(fn) if isinstance(t, ast.Name) and t.id == name]
    if len(c) != 1:
        fail(fn, f"expected exactly one assignment to {name!r} (found {len(c)}) in")
    return c[0][1]


def calls(fn: ast.AST, pred):
    return [n for n in ast.walk(fn) if isinstance(n, ast.Call) and pred(u(n.func))]


def kw(call: ast.Call, name: str):
    for k in call.keywords:
        if k.arg == name:
            return k.value
    return None


def params_of(fn: ast.FunctionDef) -> list[str]:
    a = fn.args
    return [x.arg for x in a.posonlyargs + a.args + a.kwonlyargs]


def zip_of(node, a: str, b: str) -> bool:
    """zip(a, b[, strict=...])"""
    return (isinstance(node, ast.Call) and u(node.func) == "zip" and [u(x) for x in node.args] == [a, b]
            and all(k.arg == "strict" for k in node.keywords))


# ------------------------------------------------------------------------------------------ binding


def bind_row(tree) -> tuple[str, str]:
    fn = find_func(tree, "_run_pipelines_array_to_datatree")
    ps = params_of(fn)
    if "params_tuple" not in ps or "dimension_names" not in ps or "processor" not in ps:
        fail(fn, "_run_pipelines_array_to_datatree parameters")
    rep = calls(fn, lambda f: f.endswith(".replace") and f.split(".")[0] == "processor")
    if len(rep) != 1 or len(rep[0].args) != 1 or rep[0].keywords or not isinstance(rep[0].args[0], ast.Name):
        fail(fn, "expected exactly one processor.replace(<name>) in")
    dct = rep[0].args[0].id
    val = the_assign(fn, dct)
    ok = False
    if isinstance(val, ast.Call) and u(val.func) == "dict" and len(val.args) == 1 and not val.keywords:
        ok = zip_of(val.args[0], "dimension_names", "params_tuple")
    elif isinstance(val, ast.DictComp) and len(val.generators) == 1 and not val.generators[0].ifs:
        g = val.generators[0]
        ok = (zip_of(g.iter, "dimension_names", "params_tuple") and isinstance(g.target, ast.Tuple)
              and [u(x) for x in g.target.elts] == [u(val.key), u(val.value)])
    if not ok:
        fail(val, "the dict given to processor.replace must be dict(zip(dimension_names, params_tuple))")
    # the run must be started with the processor that received the values
    newp = [t.id for t, v, _ in assigns(fn) if v is rep[0] and isinstance(t, ast.Name)]
    runs = calls(fn, lambda f: f == "run_pipeline")
    if len(newp) != 1 or len(runs) != 1 or u(kw(runs[0], "processor")) != newp[0]:
        fail(fn, "run_pipeline must be given the processor returned by processor.replace(...) in")
    # pass-through wrapper
    wr = find_func(tree, "_run_pipelines_tuple_to_array")
    inner = calls(wr, lambda f: f == "_run_pipelines_array_to_datatree")
    if (len(inner) != 1 or inner[0].args or u(kw(inner[0], "params_tuple")) != "params_tuple"
            or u(kw(inner[0], "dimension_names")) != "dimension_names"):
        fail(wr, "_run_pipelines_tuple_to_array must pass params_tuple / dimension_names through")
    return "BindPosition", "dimension_names"


def same_mapping_row(tree) -> bool:
    fn = find_func(tree, "run_pipelines_with_dask")
    if "dim_names" not in params_of(fn) or "parameter_mode" not in params_of(fn):
        fail(fn, "run_pipelines_with_dask parameters")
    for t, _, st in assigns(fn):
        if isinstance(t, ast.Name) and t.id == "dim_names":
            fail(st, "dim_names is rebound in run_pipelines_with_dask")
    cps = calls(fn, lambda f: f == "parameter_mode.create_params")
    if not cps:
        fail(fn, "no parameter_mode.create_params(...) call in")
    for c in cps:
        if c.args or u(kw(c, "dim_names")) != "dim_names":
            fail(c, "create_params must be called with dim_names=dim_names")
        extra = {k.arg for k in c.keywords} - {"dim_names"}
        if extra - {"processor"} or ("processor" in extra and u(kw(c, "processor")) != "processor"):
            fail(c, "unexpected argument of create_params")
    first = calls(fn, lambda f: f == "_run_pipelines_array_to_datatree")
    if len(first) != 1 or u(kw(first[0], "dimension_names")) != "dim_names":
        fail(fn, "the metadata run must receive dimension_names=dim_names in")
    uf = calls(fn, lambda f: f.endswith("apply_ufunc"))
    if len(uf) != 1:
        fail(fn, "expected one apply_ufunc call in")
    if not uf[0].args or u(uf[0].args[0]) != "_run_pipelines_tuple_to_array":
        fail(uf[0], "apply_ufunc must apply _run_pipelines_tuple_to_array")
    if len(uf[0].args) < 2 or not u(uf[0].args[1]).startswith("params_dataarray"):
        fail(uf[0], "apply_ufunc must map over params_dataarray")
    kws = kw(uf[0], "kwargs")
    if not isinstance(kws, ast.Dict):
        fail(uf[0], "apply_ufunc kwargs must be a dict literal")
    d = {u(k): u(v) for k, v in zip(kws.keys, kws.values)}
    if d.get("'dimension_names'") != "dim_names":
        fail(kws, "apply_ufunc kwargs must pass 'dimension_names': dim_names")
    return True


def ordered_dicts(fn: ast.FunctionDef, roots: set[str]) -> set[str]:
    """names of dicts whose iteration order is the order of `roots` (a subsequence of it)"""
    good = set(roots)
    changed = True
    while changed:
        changed = False
        # candidate dict names: assigned `{}` / `dict()` exactly once
        for t, v, _ in list(assigns(fn)):
            if not isinstance(t, ast.Name) or t.id in good:
                continue
            name = t.id
            empty = (isinstance(v, ast.Dict) and not v.keys) or (isinstance(v, ast.Call) and u(v) == "dict()")
            if not empty or sum(1 for tt, _, _ in assigns(fn) if isinstance(tt, ast.Name) and tt.id == name) != 1:
                continue
            # every mutation of `name`
            loops = []
            bad = False
            for loop in [n for n in ast.walk(fn) if isinstance(n, ast.For)]:
                muts = []
                for n in ast.walk(loop):
                    if isinstance(n, ast.For) and n is not loop:
                        continue
                    if isinstance(n, (ast.Assign, ast.AnnAssign)):
                        tg = n.targets[0] if isinstance(n, ast.Assign) else n.target
                        if isinstance(tg, ast.Subscript) and u(tg.value) == name:
                            muts.append(tg)
                    if isinstance(n, ast.Call) and u(n.func).startswith(name + "."):
                        bad = True          # update / setdefault / pop / ...
                    if isinstance(n, ast.Delete) and any(name in u(x) for x in n.targets):
                        bad = True
                if muts:
                    loops.append((loop, muts))
            # mutations outside any loop
            for n in ast.walk(fn):
                if isinstance(n, ast.Call) and u(n.func).startswith(name + ".") and u(n.func).split(".")[-1] in (
                        "update", "setdefault", "pop", "popitem", "clear", "move_to_end", "__setitem__"):
                    bad = True
            top_muts = [tg for tg, _, st in assigns(fn) if isinstance(tg, ast.Subscript) and u(tg.value) == name]
            in_loops = sum(len(m) for _, m in loops)
            if bad or len(loops) != 1 or len(top_muts) != in_loops:
                continue
            loop, muts = loops[0]
            it = loop.iter
            src = None
            if isinstance(it, ast.Name):
                src, var = it.id, u(loop.target)
            elif isinstance(it, ast.Call) and u(it.func).endswith(".items") and isinstance(it.func.value, ast.Name) \
                    and isinstance(loop.target, ast.Tuple):
                src, var = it.func.value.id, u(loop.target.elts[0])
            if src in good and all(u(m.slice) == var for m in muts):
                good.add(name)
                changed = True
    return good


def names_order_row(tree) -> bool:
    fn = find_func(tree, "_get_short_dimension_names_new")
    ps = params_of(fn)
    if len(ps) != 1:
        fail(fn, "_get_short_dimension_names_new must take one argument")
    good = ordered_dicts(fn, {ps[0]})
    rets = [n for n in ast.walk(fn) if isinstance(n, ast.Return)]
    if not rets:
        fail(fn, "no return in")
    for r in rets:
        v = r.value
        if isinstance(v, ast.Name) and v.id in good and v.id != ps[0]:
            continue
        if isinstance(v, ast.DictComp) and len(v.generators) == 1 and not v.generators[0].ifs:
            g = v.generators[0]
            if isinstance(g.iter, ast.Name) and g.iter.id in good and u(v.key) == u(g.target):
                continue
            if (isinstance(g.iter, ast.Call) and u(g.iter.func).endswith(".items") and isinstance(g.iter.func.value, ast.Name)
                    and g.iter.func.value.id in good and isinstance(g.target, ast.Tuple) and u(v.key) == u(g.target.elts[0])):
                continue
        fail(r, "returned mapping is not known to keep the order of the argument")
    return True


def types_order_row(tree) -> bool:
    fn = find_func(tree, "_get_parameter_types", "Observation")
    loops = [n for n in ast.walk(fn) if isinstance(n, ast.For)]
    if len(loops) != 1 or u(loops[0].iter) != "self.parameter_mode.enabled_steps" or not isinstance(loops[0].target, ast.Name):
        fail(fn, "_get_parameter_types must be one loop over self.parameter_mode.enabled_steps")
    var = loops[0].target.id
    body = loops[0].body
    ok = False
    if len(body) == 1 and isinstance(body[0], ast.Expr) and isinstance(body[0].value, ast.Call):
        c = body[0].value
        if u(c.func) == "self.parameter_types.update" and len(c.args) == 1 and isinstance(c.args[0], ast.Dict) \
                and [u(k) for k in c.args[0].keys] == [f"{var}.key"]:
            ok = True
    if len(body) == 1 and isinstance(body[0], ast.Assign) and u(body[0].targets[0]) == f"self.parameter_types[{var}.key]":
        ok = True
    rets = [n for n in ast.walk(fn) if isinstance(n, ast.Return)]
    if not ok or len(rets) != 1 or u(rets[0].value) != "self.parameter_types":
        fail(fn, "_get_parameter_types must insert step.key per enabled step and return self.parameter_types")
    run = find_func(tree, "run_pipelines", "Observation")
    if u(the_assign(run, "types")) != "self._get_parameter_types()":
        fail(run, "run_pipelines: types = self._get_parameter_types()")
    if u(the_assign(run, "dim_names")) != "_get_short_dimension_names_new(types)":
        fail(run, "run_pipelines: dim_names = _get_short_dimension_names_new(types)")
    dk = calls(run, lambda f: f == "run_pipelines_with_dask")
    if len(dk) != 1 or dk[0].args or u(kw(dk[0], "dim_names")) != "dim_names" \
            or u(kw(dk[0], "parameter_mode")) != "self.parameter_mode":
        fail(run, "run_pipelines must call run_pipelines_with_dask(dim_names=dim_names, parameter_mode=self.parameter_mode, ..)")
    return True


# ------------------------------------------------------------------------------------------ the three modes


def all_steps_of(fn) -> ast.AST:
    """`all_steps = {step.key: <expr> for step in self.enabled_steps}` -> <expr>; checks params_names"""
    v = the_assign(fn, "all_steps")
    if not (isinstance(v, ast.DictComp) and len(v.generators) == 1 and not v.generators[0].ifs
            and u(v.generators[0].iter) == "self.enabled_steps" and isinstance(v.generators[0].target, ast.Name)
            and u(v.key) == v.generators[0].target.id + ".key"):
        fail(v, "all_steps must be {step.key: .. for step in self.enabled_steps}")
    pn = the_assign(fn, "params_names")
    if not (isinstance(pn, ast.ListComp) and len(pn.generators) == 1 and not pn.generators[0].ifs
            and u(pn.generators[0].iter) == "all_steps" and isinstance(pn.generators[0].target, ast.Name)
            and u(pn.elt) == f"dim_names[{pn.generators[0].target.id}]"):
        fail(pn, "params_names must be [dim_names[key] for key in all_steps]")
    return v


def product_row(tree) -> str:
    fn = find_func(tree, "create_params", "ProductMode")
    dc = all_steps_of(fn)
    var = dc.generators[0].target.id
    lv = u(dc.value)
    if lv == f"list({var})":
        kind = "LevelsRaw"
    elif lv == f"list(dict.fromkeys({var}))":
        kind = "LevelsDedup"
    else:
        fail(dc.value, "unknown level expression in ProductMode.create_params")
    fp = calls(fn, lambda f: f.endswith("MultiIndex.from_product"))
    if len(fp) != 1 or [u(a) for a in fp[0].args] != ["list(all_steps.values())"] or u(kw(fp[0], "names")) != "params_names":
        fail(fn, "ProductMode.create_params must build MultiIndex.from_product(list(all_steps.values()), names=params_names)")
    return kind


def sequential_row(tree, obs_tree) -> str:
    fn = find_func(tree, "create_params", "SequentialMode")
    dc = all_steps_of(fn)
    if u(dc.value) != f"list({dc.generators[0].target.id})":
        fail(dc.value, "unknown value expression in SequentialMode.create_params")
    v = the_assign(fn, "params_sequential_list")
    kind = None
    if isinstance(v, ast.Call) and u(v.func) == "list" and len(v.args) == 1:
        z = v.args[0]
        if (isinstance(z, ast.Call) and u(z.func) == "zip" and [u(a) for a in z.args] == ["*all_steps.values()"]
                and all(k.arg == "strict" for k in z.keywords)):
            kind = "SeqZip"
    if isinstance(v, ast.ListComp) and len(v.generators) == 1 and not v.generators[0].ifs:
        g = v.generators[0]
        e = v.elt
        if (isinstance(g.target, ast.Name) and u(g.iter) in ("self.get_parameters_item(processor=processor)",
                                                            "self.get_parameters_item(processor)")
                and isinstance(e, ast.Call) and u(e.func) == "tuple" and len(e.args) == 1
                and isinstance(e.args[0], ast.GeneratorExp) and len(e.args[0].generators) == 1
                and not e.args[0].generators[0].ifs and u(e.args[0].generators[0].iter) == "all_steps"
                and u(e.args[0].elt) == f"{g.target.id}.parameters[{u(e.args[0].generators[0].target)}]"):
            # ... and the non-dask path runs the very same generator
            run = find_func(obs_tree, "run_pipelines", "Observation")
            if not calls(run, lambda f: f == "self.parameter_mode.get_parameters_item"):
                fail(run, "the non-dask path does not call parameter_mode.get_parameters_item in")
            kind = "SeqEnumerate"
    if kind is None:
        fail(v, "unknown row expression in SequentialMode.create_params")
    return kind


def custom_row(tree) -> str:
    fn = find_func(tree, "create_params", "CustomMode")
    dc = all_steps_of(fn)
    if u(dc.value) != f"list({dc.generators[0].target.id})":
        fail(dc.value, "unknown value expression in CustomMode.create_params")
    passed = u(the_assign(fn, "params_custom_list"))
    cc = calls(fn, lambda f: f == "convert_custom_data")
    if (len(cc) != 1 or cc[0].args or u(kw(cc[0], "custom_data")) != "self.custom_data"
            or u(kw(cc[0], "params_custom_list")) != "params_custom_list" or u(kw(cc[0], "params_names")) != "params_names"):
        fail(fn, "CustomMode.create_params must call convert_custom_data(custom_data=self.custom_data, "
                 "params_custom_list=params_custom_list, params_names=params_names)")
    conv = find_func(tree, "convert_custom_data")
    loops = [n for n in conv.body if isinstance(n, ast.For)]
    if len(loops) != 1:
        fail(conv, "convert_custom_data must have one top-level loop")
    lp = loops[0]
    if not (isinstance(lp.iter, ast.Call) and u(lp.iter.func) == "zip"
            and [u(a) for a in lp.iter.args] == ["params_names", "params_custom_list"]
            and isinstance(lp.target, ast.Tuple) and len(lp.target.elts) == 2):
        fail(lp, "convert_custom_data must loop over zip(params_names, params_custom_list)")
    pvar = u(lp.target.elts[1])
    ifs = [n for n in lp.body if isinstance(n, ast.If)]
    if len(ifs) != 1 or not ifs[0].orelse:
        fail(lp, "convert_custom_data loop must be one if/else")
    test = u(ifs[0].test)
    inc1 = [u(n) for n in ifs[0].body if isinstance(n, ast.AugAssign)]
    inc2 = [u(n) for n in ifs[0].orelse if isinstance(n, ast.AugAssign)]
    if inc1 != ["idx += 1"] or inc2 != [f"idx += len({pvar})"]:
        fail(ifs[0], "convert_custom_data must advance idx by 1 / by len(params)")
    if test == f"len({pvar}) == 1" and passed == "list(all_steps.values())":
        return "ByLength"
    if test in (f"{pvar} == '_'", f"'_' == {pvar}") and passed == "[step.values for step in self.enabled_steps]":
        return "ByPlaceholder"
    fail(ifs[0].test, f"unknown scalar test / argument combination ({passed!r}) in convert_custom_data")


# ------------------------------------------------------------------------------------------ schedules


def file_index_row(tree) -> bool:
    """one task per cell; file index = row-major position; the index reaches run_pipeline unchanged"""
    fn = find_func(tree, "run_pipelines_with_dask")
    cands = [v for t, v, _ in assigns(fn) if isinstance(t, ast.Name) and t.id == "output_filename_indices"
             and not (isinstance(v, ast.Constant) and v.value is None)]
    if len(cands) != 1:
        fail(fn, "expected one non-None assignment to output_filename_indices in")
    txt = u(cands[0])
    da = [c for c in ast.walk(cands[0]) if isinstance(c, ast.Call) and u(c.func).endswith("DataArray")]
    if (len(da) != 1 or not da[0].args
            or u(da[0].args[0]) != "np.arange(params_dataarray.size).reshape(params_dataarray.shape)"
            or u(kw(da[0], "dims")) != "params_dataarray.dims"):
        fail(cands[0], "file index must be DataArray(np.arange(size).reshape(shape), dims=params_dataarray.dims, ..)")
    if not txt.endswith(".chunk(1)") or ".T" in txt.replace(".chunk", "") or "transpose" in txt:
        fail(cands[0], "file index must be chunked one cell per task and not transposed")
    uf = calls(fn, lambda f: f.endswith("apply_ufunc"))[0]
    if [u(a) for a in uf.args[1:]] != ["params_dataarray.chunk(1)", "output_filename_indices"]:
        fail(uf, "apply_ufunc must map over params_dataarray.chunk(1) and output_filename_indices")
    if u(kw(uf, "vectorize")) != "True" or u(kw(uf, "input_core_dims")) != "[[], []]":
        fail(uf, "apply_ufunc must be vectorized over scalar cells")
    wr = find_func(tree, "_run_pipelines_tuple_to_array")
    ps = params_of(wr)
    if ps[:2] != ["params_tuple", "output_filename_suffixes"]:
        fail(wr, "_run_pipelines_tuple_to_array(params_tuple, output_filename_suffixes, ..)")
    inner = calls(wr, lambda f: f == "_run_pipelines_array_to_datatree")[0]
    if u(kw(inner, "output_filename_suffix")) != "output_filename_suffixes":
        fail(inner, "the file index must be handed to _run_pipelines_array_to_datatree")
    one = find_func(tree, "_run_pipelines_array_to_datatree")
    rp = calls(one, lambda f: f == "run_pipeline")[0]
    if u(kw(rp, "output_filename_suffix")) != "output_filename_suffix" or u(kw(rp, "outputs")) != "outputs":
        fail(rp, "the file index must be handed to run_pipeline as an argument of the call")
    return True


def islands_row(tree) -> bool:
    fn = find_func(tree, "_build", "ArchipelagoDataTree")
    top = [n for n in fn.body if isinstance(n, ast.If) and u(n.test) == "self.parallel"]
    if len(top) != 1 or not top[0].orelse:
        fail(fn, "_build must have one `if self.parallel: .. else: ..`")

    def branch(stmts, mapper):
        its = [(t, v) for st in stmts for t, v, _ in assigns(st) if isinstance(t, ast.Name) and t.id == "it"]
        if len(its) != 1 or u(its[0][1]) != f"{mapper}(create_island, seeds)":
            fail(stmts[0], f"islands must be created with it = {mapper}(create_island, seeds)")
        loops = [n for st in stmts for n in ast.walk(st) if isinstance(n, ast.For)]
        if len(loops) != 1:
            fail(stmts[0], "one loop over the created islands expected")
        lp = loops[0]
        it = lp.iter
        ok_iter = u(it) == "it" or (isinstance(it, ast.Call) and u(it.func) == "tqdm" and it.args and u(it.args[0]) == "it")
        if not ok_iter or len(lp.body) != 1 or u(lp.body[0]) != f"self._pygmo_archi.push_back({u(lp.target)})":
            fail(lp, "islands must be pushed in the order the mapper yields them")

    withs = [n for n in top[0].body if isinstance(n, ast.With)]
    if len(withs) != 1 or "ThreadPoolExecutor" not in u(withs[0].items[0].context_expr) \
            or u(withs[0].items[0].optional_vars) != "executor":
        fail(top[0], "parallel branch must use `with ThreadPoolExecutor(..) as executor`")
    branch(withs[0].body, "executor.map")
    branch(top[0].orelse, "map")
    return True


def bfe_row(tree) -> bool:
    fn = find_func(tree, "__call__", "DaskBFE")
    fa = calls(fn, lambda f: f.endswith("from_array"))
    if (len(fa) != 1 or not fa[0].args or u(fa[0].args[0]) != "dvs_1d.reshape((-1, ndims_dvs))"
            or u(kw(fa[0], "chunks")) != "(chunk_size, ndims_dvs)"):
        fail(fn, "DaskBFE must cut dvs_1d.reshape((-1, ndims_dvs)) into chunks (chunk_size, ndims_dvs)")
    cs = [u(v) for t, v, _ in assigns(fn) if isinstance(t, ast.Name) and t.id == "chunk_size"]
    if sorted(cs) != sorted(["max(1, num_fitness // 10)", "self._chunk_size"]):
        fail(fn, "DaskBFE chunk size must be max(1, num_fitness // 10) or the configured one")
    if u(the_assign(fn, "fitness_1d")) != "fitness_2d.ravel()" or u(the_assign(fn, "fitness_2d")) != "fitness_func(dvs_2d)":
        fail(fn, "DaskBFE must return fitness_func(dvs_2d).ravel()")
    rets = [n for n in ast.walk(fn) if isinstance(n, ast.Return)]
    if len(rets) != 1 or u(rets[0].value) != "fitness_1d":
        fail(fn, "DaskBFE must return fitness_1d")
    return True



# ------------------------------------------------------------------------------------------ pickle hooks

PICKLE_DIRS = ("pyxel/pipelines", "pyxel/detectors", "pyxel/data_structure", "pyxel/outputs", "pyxel/exposure",
               "pyxel/observation", "pyxel/calibration")
OPAQUE_HOOKS = ("__reduce__", "__reduce_ex__", "__getnewargs__", "__getnewargs_ex__")
MF_FIELDS = {"func": "FFunc", "name": "FName", "arguments": "FArgs", "enabled": "FEnabled"}
WRAPPERS = ("list", "tuple", "dict", "copy", "deepcopy", "copy.copy", "copy.deepcopy")


def _self_attr(node, self_name="self"):
    return (node.attr if isinstance(node, ast.Attribute) and isinstance(node.value, ast.Name)
            and node.value.id == self_name else None)


def _init_attrs(fn: ast.FunctionDef) -> dict:
    """attribute -> list of the expressions __init__ assigns to it (in source order)"""
    out: dict = {}
    for n in ast.walk(fn):
        tgts, val = [], None
        if isinstance(n, ast.Assign):
            tgts, val = n.targets, n.value
        elif isinstance(n, (ast.AnnAssign, ast.AugAssign)):
            tgts, val = [n.target], n.value
        for t in tgts:
            for tt in (t.elts if isinstance(t, ast.Tuple) else [t]):
                a = _self_attr(tt)
                if a is not None:
                    out.setdefault(a, []).append(val if not isinstance(t, ast.Tuple) else None)
    return out


def _unwrap(node):
    """list(x) / tuple(x) / dict(x) / copy(x) / deepcopy(x) / x.copy() -> x (repeatedly)"""
    while True:
        if isinstance(node, ast.Call) and u(node.func) in WRAPPERS and len(node.args) == 1 and not node.keywords:
            node = node.args[0]
        elif (isinstance(node, ast.Call) and isinstance(node.func, ast.Attribute) and node.func.attr == "copy"
              and not node.args and not node.keywords):
            node = node.func.value
        else:
            return node


def _state_key(node, state: str):
    """state["k"] -> "k" """
    if (isinstance(node, ast.Subscript) and isinstance(node.value, ast.Name) and node.value.id == state
            and isinstance(node.slice, ast.Constant) and isinstance(node.slice.value, str)):
        return node.slice.value
    return None


def _is_dict_copy(node) -> bool:
    """a fresh dict with the content of self.__dict__"""
    if u(node) in ("{**self.__dict__}", "{**vars(self)}"):
        return True
    inner = _unwrap(node)
    return inner is not node and u(inner) in ("self.__dict__", "vars(self)")


def _dict_literal(node):
    """{"k": v, ..} / dict(k=v, ..) -> {key: value expr}, else None"""
    if isinstance(node, ast.Dict):
        if not all(isinstance(k, ast.Constant) and isinstance(k.value, str) for k in node.keys):
            fail(node, "__getstate__ keys must be string literals")
        return {k.value: v for k, v in zip(node.keys, node.values)}
    if isinstance(node, ast.Call) and u(node.func) == "dict" and not node.args and all(k.arg for k in node.keywords):
        return {k.arg: k.value for k in node.keywords}
    return None


def _getstate_table(fn: ast.FunctionDef | None):
    """-> (kind, {key: value expr}, removed keys): kind "dict" = the state holds exactly the keys of the table;
    kind "all" = a copy of self.__dict__ (minus `removed`, keys of the table overridden).  fn None = the default
    __getstate__ = ("all", {}, set())"""
    if fn is None:
        return "all", {}, set()
    body = body_no_doc(fn)
    if not body or not isinstance(body[-1], ast.Return) or sum(isinstance(n, ast.Return) for n in ast.walk(fn)) != 1:
        fail(fn, "__getstate__ must end with its only return")
    rv = body[-1].value
    var, kind, tab, removed, loc = None, None, {}, set(), {}
    for st in body[:-1]:
        if isinstance(st, ast.Pass):
            continue
        if isinstance(st, (ast.Assign, ast.AnnAssign)) and (isinstance(st, ast.AnnAssign) or len(st.targets) == 1):
            tgt = st.targets[0] if isinstance(st, ast.Assign) else st.target
            if st.value is None:
                fail(st, "unknown statement in __getstate__")
            if isinstance(tgt, ast.Name):
                d = _dict_literal(st.value)
                if var is None and d is not None:
                    var, kind, tab = tgt.id, "dict", dict(d)
                    continue
                if var is None and _is_dict_copy(st.value):
                    var, kind = tgt.id, "all"
                    continue
                if tgt.id != var:
                    loc[tgt.id] = st.value          # a local helper value
                    continue
            k = _state_key(tgt, var) if var else None
            if k is not None:
                tab[k] = st.value
                removed.discard(k)
                continue
            fail(st, "unknown statement in __getstate__")
        if var and isinstance(st, ast.Delete) and all(_state_key(t, var) for t in st.targets):
            for t in st.targets:
                removed.add(_state_key(t, var))
                tab.pop(_state_key(t, var), None)
            continue
        if (var and isinstance(st, ast.Expr) and isinstance(st.value, ast.Call) and u(st.value.func) == f"{var}.pop"
                and st.value.args and isinstance(st.value.args[0], ast.Constant) and isinstance(st.value.args[0].value, str)):
            removed.add(st.value.args[0].value)
            tab.pop(st.value.args[0].value, None)
            continue
        fail(st, "unknown statement in __getstate__")
    if isinstance(rv, ast.Name) and rv.id == var:
        pass
    elif var is None and _dict_literal(rv) is not None:
        kind, tab = "dict", dict(_dict_literal(rv))
    elif var is None and _is_dict_copy(rv):
        kind = "all"
    else:
        fail(rv, "__getstate__ must return a dict literal or a copy of self.__dict__")
    tab = {k: (loc[v.id] if isinstance(v, ast.Name) and v.id in loc else v) for k, v in tab.items()}
    return kind, tab, removed


def _rebuilt(val, state: str, gtab, attr: str):
    """`[ModelFunction(**d) for d in state["k"]]` (or list(<the same generator>)) with the state holding one dict
    literal per element of self.<attr> -> the kept constructor keywords, else None"""
    comp = val
    if isinstance(val, ast.Call) and u(val.func) in ("list", "tuple") and len(val.args) == 1:
        comp = val.args[0]
    if not isinstance(comp, (ast.ListComp, ast.GeneratorExp)) or len(comp.generators) != 1 or comp.generators[0].ifs:
        return None
    g = comp.generators[0]
    k = _state_key(g.iter, state)
    e = comp.elt
    if (k is None or not isinstance(g.target, ast.Name) or not isinstance(e, ast.Call) or e.args
            or len(e.keywords) != 1 or e.keywords[0].arg is not None or u(e.keywords[0].value) != g.target.id):
        return None
    if u(e.func) != "ModelFunction":
        fail(val, "elements rebuilt through a constructor the model does not know")
    if k not in gtab[1]:
        if gtab[0] == "all" and k not in gtab[2]:
            fail(val, "model functions rebuilt from something that is not a definition")
        return "missing"
    src = gtab[1][k]
    if isinstance(src, ast.Call) and u(src.func) in ("list", "tuple") and len(src.args) == 1:
        src = src.args[0]
    if not isinstance(src, (ast.ListComp, ast.GeneratorExp)) or len(src.generators) != 1 or src.generators[0].ifs \
            or u(src.generators[0].iter) != f"self.{attr}" or not isinstance(src.elt, ast.Dict):
        fail(src, "the stored definitions must be one dict literal per element of the attribute")
    kept = []
    for kk in src.elt.keys:
        if not (isinstance(kk, ast.Constant) and kk.value in MF_FIELDS):
            fail(src.elt, "unknown constructor keyword in the stored definition")
        kept.append(MF_FIELDS[kk.value])
    return kept


def _hook_row(cls: ast.ClassDef, ancestors=()):
    """the row of one class: its own hooks or the nearest inherited ones (ancestors = the scanned base classes, nearest
    first), judged against every attribute the __init__ of the class and of its ancestors set"""
    chain = [cls, *ancestors]
    meths: dict = {}
    for c in reversed(chain):
        meths.update({n.name: n for n in c.body if isinstance(n, (ast.FunctionDef, ast.AsyncFunctionDef))
                      if n.name != "__init__"})
    for h in OPAQUE_HOOKS:
        if h in meths:
            fail(meths[h], f"class {cls.name} defines {h}: what a pickle round trip restores is not known")
    gs, ss = meths.get("__getstate__"), meths.get("__setstate__")
    if gs is None and ss is None:
        return None
    inits = [n for c in chain for n in c.body if isinstance(n, ast.FunctionDef) and n.name == "__init__"]
    if not inits:
        fail(cls, f"class {cls.name} has pickle hooks but no __init__ among the scanned classes")
    init: dict = {}
    init_params: set = set()
    for fn in inits:
        for a, vals in _init_attrs(fn).items():
            init.setdefault(a, []).extend(vals)
        init_params |= set(params_of(fn))
    gtab = _getstate_table(gs)
    restored: dict = {}
    # attributes some OTHER method of the class (or of a scanned ancestor) assigns or updates: they carry state of
    # their own, so setting them again to what __init__ sets is not a restoration
    stateful: set = set()
    for c in chain:
        for fn in c.body:
            if isinstance(fn, (ast.FunctionDef, ast.AsyncFunctionDef)) and fn.name not in ("__init__", "__setstate__", "__getstate__"):
                for n in ast.walk(fn):
                    tgts = []
                    if isinstance(n, ast.Assign):
                        tgts = n.targets
                    elif isinstance(n, (ast.AnnAssign, ast.AugAssign)):
                        tgts = [n.target]
                    elif isinstance(n, ast.Delete):
                        tgts = n.targets
                    elif (isinstance(n, ast.Call) and isinstance(n.func, ast.Attribute)
                          and n.func.attr in ("append", "extend", "update", "add", "pop", "clear", "insert", "remove",
                                              "setdefault", "popitem")):
                        tgts = [n.func.value]
                    for t in tgts:
                        for tt in (t.elts if isinstance(t, ast.Tuple) else [t]):
                            while isinstance(tt, ast.Subscript):
                                tt = tt.value
                            if _self_attr(tt) is not None:
                                stateful.add(_self_attr(tt))

    def from_state(attr: str, key: str):
        kind, tab, removed = gtab
        if key in tab:
            if _self_attr(_unwrap(tab[key])) == attr:
                return "AWhole"
            fail(tab[key], f"{cls.name}.__getstate__: key {key!r} restored into {attr!r} is not taken from self.{attr}")
        if kind == "all" and key not in removed:
            return "AWhole" if key == attr else "AMissing"
        return "AMissing"

    def all_keys():
        """default __setstate__ / self.__dict__.update(state): every key of the state becomes the attribute of that name"""
        for a in init:
            if a not in restored:
                restored[a] = from_state(a, a)

    if ss is None:
        all_keys()
    else:
        ps = params_of(ss)
        if len(ps) != 2:
            fail(ss, "__setstate__(self, state)")
        state = ps[1]
        for st in body_no_doc(ss):
            if isinstance(st, ast.Pass):
                continue
            if isinstance(st, (ast.Assign, ast.AnnAssign)):
                tgt = st.targets[0] if isinstance(st, ast.Assign) and len(st.targets) == 1 else getattr(st, "target", None)
                if tgt is not None and u(tgt) == "self.__dict__" and u(_unwrap(st.value)) == state:
                    all_keys()
                    continue
                a = _self_attr(tgt) if tgt is not None else None
                if a is None or st.value is None:
                    fail(st, "unknown statement in __setstate__")
                val = st.value
                inner = _unwrap(val)
                k = _state_key(inner, state)
                if (k is None and isinstance(inner, ast.Call) and u(inner.func) == f"{state}.get" and inner.args
                        and isinstance(inner.args[0], ast.Constant) and isinstance(inner.args[0].value, str)):
                    k = inner.args[0].value
                if k is not None:
                    restored[a] = from_state(a, k)
                    continue
                rb = _rebuilt(val, state, gtab, a)
                if rb == "missing":
                    restored[a] = "AMissing"
                    continue
                if rb is not None:
                    restored[a] = "(ARebuilt [" + "; ".join(rb) + "])"
                    continue
                names = {n.id for n in ast.walk(val) if isinstance(n, ast.Name)}
                if state in names or names & init_params:
                    fail(st, "unknown way of restoring an attribute in __setstate__")
                if a in init and any(x is not None and u(x) == u(val) for x in init[a]):
                    if a in stateful:
                        fail(st, f"{cls.name}.{a} is set again to its initial value although other methods change it")
                    restored[a] = "ARecreated"
                    continue
                fail(st, "attribute set by __setstate__ to something __init__ does not set it to")
            elif (isinstance(st, ast.Expr) and isinstance(st.value, ast.Call)
                  and u(st.value.func) in ("self.__dict__.update", "vars(self).update")
                  and [u(x) for x in st.value.args] == [state] and not st.value.keywords):
                all_keys()
            elif (isinstance(st, ast.For) and isinstance(st.target, ast.Tuple) and len(st.target.elts) == 2
                  and u(st.iter) == f"{state}.items()" and len(st.body) == 1 and not st.orelse
                  and u(st.body[0]) == f"setattr(self, {u(st.target.elts[0])}, {u(st.target.elts[1])})"):
                all_keys()
            else:
                fail(st, "unknown statement in __setstate__")
    return cls.name, "__deepcopy__" in meths, [(a, restored.get(a, "AMissing")) for a in sorted(init)]


def pickle_rows(repo: Path):
    classes: dict = {}
    for d in PICKLE_DIRS:
        base = repo / d
        if not base.is_dir():
            fail(None, f"{d}: directory not found")
        for f in sorted(base.rglob("*.py")):
            rel = str(f.relative_to(repo))
            tree = parse(repo, rel)
            for n in ast.walk(tree):
                if isinstance(n, ast.Call) and u(n.func) in ("copyreg.pickle", "copyreg.constructor"):
                    fail(n, f"{rel}: copyreg registration")
                if isinstance(n, ast.ClassDef):
                    hooked = any(isinstance(m, ast.FunctionDef) and m.name in ("__getstate__", "__setstate__") + OPAQUE_HOOKS
                                 for m in n.body)
                    if n.name in classes and (hooked or classes[n.name][1]):
                        fail(n, f"two classes named {n.name}, one with pickle hooks")
                    classes.setdefault(n.name, (n, hooked))

    def ancestors(n: ast.ClassDef, seen=()):
        out = []
        for b in n.bases:
            nm = u(b).split(".")[-1].split("[")[0]
            if nm in classes and nm not in seen:
                out.append(classes[nm][0])
                out += ancestors(classes[nm][0], seen + (nm,))
        return out

    rows = []
    for name in sorted(classes):
        row = _hook_row(classes[name][0], ancestors(classes[name][0], (name,)))
        if row is not None:
            rows.append(row)
    return rows


GROUP = "pyxel/pipelines/model_group.py"


def group_runs_enabled_row(tree) -> bool:
    """ModelGroup.__iter__ yields the models whose `enabled` is set, in the order of self.models, and ModelGroup.run
    executes what iterating over the group yields (`for model in self: ... model(detector)`)"""
    it = find_func(tree, "__iter__", "ModelGroup")
    body = body_no_doc(it)
    ok = False

    def filtered(gen, elt) -> bool:
        return (len(gen) == 1 and u(gen[0].iter) == "self.models" and isinstance(gen[0].target, ast.Name)
                and [u(c) for c in gen[0].ifs] == [f"{gen[0].target.id}.enabled"] and u(elt) == gen[0].target.id)

    if len(body) == 1 and isinstance(body[0], ast.For) and u(body[0].iter) == "self.models" and not body[0].orelse \
            and isinstance(body[0].target, ast.Name):
        v = body[0].target.id
        b = body[0].body
        if (len(b) == 1 and isinstance(b[0], ast.If) and u(b[0].test) == f"{v}.enabled" and not b[0].orelse
                and len(b[0].body) == 1 and u(b[0].body[0]) == f"yield {v}"):
            ok = True
    elif len(body) == 1 and isinstance(body[0], ast.Expr) and isinstance(body[0].value, ast.YieldFrom):
        g = body[0].value.value
        ok = isinstance(g, (ast.GeneratorExp, ast.ListComp)) and filtered(g.generators, g.elt)
    elif len(body) == 1 and isinstance(body[0], ast.Return) and body[0].value is not None:
        g = body[0].value
        if isinstance(g, ast.Call) and u(g.func) == "iter" and len(g.args) == 1:
            g = g.args[0]
        ok = isinstance(g, (ast.GeneratorExp, ast.ListComp)) and filtered(g.generators, g.elt)
    if not ok:
        fail(it, "ModelGroup.__iter__ must yield the models of self.models whose `enabled` is set, in order")
    run = find_func(tree, "run", "ModelGroup")
    loops = [n for n in ast.walk(run) if isinstance(n, ast.For) and u(n.iter) == "self"]
    if len(loops) != 1 or not isinstance(loops[0].target, ast.Name):
        fail(run, "ModelGroup.run must execute `for model in self`")
    v = loops[0].target.id
    execs = [n for n in ast.walk(loops[0]) if isinstance(n, ast.Call) and u(n.func) == v
             and [u(a) for a in n.args] + [u(k.value) for k in n.keywords] == ["detector"]]
    if len(execs) != 1:
        fail(loops[0], "ModelGroup.run must call every model it iterates over exactly once with the detector")
    if any(isinstance(n, ast.For) and n is not loops[0] and u(n.iter) in ("self.models", "self") for n in ast.walk(run)):
        fail(run, "a second loop over the models in ModelGroup.run")
    return True


def render_hooks(rows) -> str:
    body = ";\n  ".join('mkHook "%s" %s [%s]' % (c, "true" if dc else "false", "; ".join('("%s", %s)' % (a, r) for a, r in attrs))
                         for c, dc, attrs in rows)
    return ("\n(* pickle hooks (__getstate__ / __setstate__) of the classes whose objects travel to the workers of a process\n"
            "   pool: for every attribute __init__ sets, how it comes back from a round trip *)\n"
            "Definition src_pickle_hooks : list hook_row := [\n  " + body + "\n]%string.\n"
            "\n(* ModelGroup.__iter__ yields the models whose `enabled` is set, in the order of self.models, and ModelGroup.run\n"
            "   calls exactly those (`executed` of Model/Parallel.v) *)\n"
            "Definition src_group_runs_enabled_only : bool := true.\n")


TEMPLATE = """From Coq Require Import String.
From Coq Require Import List Bool.
From PyxelV Require Import Model.Parallel.
Import ListNotations.

(* SequentialMode.create_params / ProductMode.create_params / convert_custom_data+CustomMode.create_params /
   _run_pipelines_array_to_datatree / run_pipelines_with_dask / _get_short_dimension_names_new /
   Observation._get_parameter_types + run_pipelines / the three create_params (tuple order) *)
Definition src_cfg : dask_cfg :=
  mkCfg {seq} {prod} {custom} {bind} {same} {names} {types} {tuples}.

(* run_pipelines_with_dask: file index = np.arange(size).reshape(shape) (row-major), one cell per task (.chunk(1) on
   both arrays), handed unchanged through _run_pipelines_tuple_to_array / _run_pipelines_array_to_datatree to
   run_pipeline as an ARGUMENT of the call *)
Definition src_file_index_row_major : bool := {fidx}.
(* ArchipelagoDataTree._build: it = executor.map(create_island, seeds) / map(create_island, seeds); islands pushed in
   the order the mapper yields them (= submission order) *)
Definition src_islands_by_submission : bool := {isl}.
(* DaskBFE.__call__: dvs_1d.reshape((-1, nx)) cut into chunks of chunk_size >= 1 rows, result ravel()ed *)
Definition src_bfe_row_major : bool := {bfe}.
"""


HOOKS_UNCHANGED = [("ModelGroup", True, [("_log", "ARecreated"), ("_name", "AWhole"), ("models", "AWhole")])]


def render(seq, prod, custom, bind="BindPosition", same=True, names=True, types=True, tuples=True, fidx=True,
           isl=True, bfe=True, hooks=None) -> str:
    b = lambda x: "true" if x else "false"  # noqa: E731
    return (HEADER + TEMPLATE.format(seq=seq, prod=prod, custom=custom, bind=bind, same=b(same), names=b(names),
                                     types=b(types), tuples=b(tuples), fidx=b(fidx), isl=b(isl), bfe=b(bfe))
            + render_hooks(HOOKS_UNCHANGED if hooks is None else hooks))


def rows(repo: Path) -> dict:
    dask, obs, misc = parse(repo, DASK), parse(repo, OBS), parse(repo, MISC)
    bind, _ = bind_row(dask)
    same = same_mapping_row(dask)
    names = names_order_row(obs)
    types = types_order_row(obs)
    prod = product_row(misc)
    seq = sequential_row(misc, obs)
    custom = custom_row(misc)
    fidx = file_index_row(dask)
    isl = islands_row(parse(repo, ARCHI))
    bfe = bfe_row(parse(repo, UDEF))
    hooks = pickle_rows(repo)
    group_runs_enabled_row(parse(repo, GROUP))
    return dict(seq=seq, prod=prod, custom=custom, bind=bind, same=same, names=names, types=types, tuples=True,
                fidx=fidx, isl=isl, bfe=bfe, hooks=hooks)


def translate(repo: Path) -> str:
    return render(**rows(repo))


# the text for the tree after the round-2 repairs (used only to keep a model for the search when translation fails)
FALLBACK = render("SeqEnumerate", "LevelsDedup", "ByPlaceholder")
