"""C17 translator, part 4: the lifecycle of the detector buckets (used by translator/c17.py).

Reads, fail closed, from the source tree under test:

a. the Detector family: every class under pyxel/ whose base chain reaches `Detector` (pyxel/detectors/detector.py),
   its parent, and - for every class that defines its own `empty(self, reset=...)` - what the method does for
   reset = True and for reset = False.  The body is *interpreted* for each of the two values (not pattern-matched):
   tests that depend only on `reset` are decided, tests on the detector's own state are followed on both sides.
   Recorded: the buckets emptied on every path (`self.x.empty()`, `self.x.array *= 0`, `self.x = Ctor()`,
   `self.x.array = np.zeros...`), the buckets emptied on some path only, and the value with which the parent's
   `empty` is called (`super().empty(reset)` -> the value of reset; `super().empty()` -> the parent's default).
b. the readout loops: every function under pyxel/ that calls `detector.empty(...)`; interpreted for
   non_destructive = True and = False: the calls before the loop, and the single call at the top of the loop body
   (before the pipeline is run) with the value of its argument.

Gen_C17.v gets `det_table : list det_class` and `loop_table : list loop_def` (Model/FluxDet.v); Properties/C17.v
proves over them that an exposure on any class of the family, by any of the loops, from any initial bucket content
is Model/Flux.v's run_exposure.
"""
from __future__ import annotations

import ast
from pathlib import Path

from harness.core import TranslationError

from .common import body_no_doc, parse

ROOT_FILE, ROOT_CLASS = "pyxel/detectors/detector.py", "Detector"
PKG = "pyxel"
HARMLESS_BASES = {"object", "ABC", "Generic", "Protocol"}
HARMLESS_DECORATORS = {"override", "typing.override", "typing_extensions.override"}
LOG_ROOTS = {"logging", "logger", "log", "warnings"}
ND_ATTRS = {"non_destructive_readout", "non_destructive", "_non_destructive"}
DET_NAMES = {"detector", "_detector"}
RUN_NAMES = {"run_pipeline"}
UNKNOWN = None


def _err(rel, node, msg):
    raise TranslationError(f"{rel}:{getattr(node, 'lineno', '?')}: {msg}: {ast.unparse(node)[:160] if node is not None else ''}")


def _dotted(n):
    parts = []
    while isinstance(n, ast.Attribute):
        parts.append(n.attr)
        n = n.value
    if isinstance(n, ast.Name):
        parts.append(n.id)
        return ".".join(reversed(parts))
    return None


def _base_name(b):
    if isinstance(b, ast.Subscript):
        b = b.value
    if isinstance(b, ast.Name):
        return b.id
    if isinstance(b, ast.Attribute):
        return b.attr
    return None


# ------------------------------------------------------------------------------------------ three-valued booleans


def _not(v):
    return UNKNOWN if v is UNKNOWN else (not v)


def _and(vs):
    if any(v is False for v in vs):
        return False
    return True if all(v is True for v in vs) else UNKNOWN


def _or(vs):
    if any(v is True for v in vs):
        return True
    return False if all(v is False for v in vs) else UNKNOWN


def ev(e, env, atom=None):
    """True / False / UNKNOWN.  `atom(expr)` may decide leaves (the readout mode)."""
    if atom is not None:
        a = atom(e)
        if a is not UNKNOWN:
            return a
    if isinstance(e, ast.Constant):
        if isinstance(e.value, (bool, int, float)) or e.value is None:
            return bool(e.value)
        return UNKNOWN
    if isinstance(e, ast.Name):
        return env.get(e.id, UNKNOWN)
    if isinstance(e, ast.UnaryOp) and isinstance(e.op, ast.Not):
        return _not(ev(e.operand, env, atom))
    if isinstance(e, ast.BoolOp):
        vs = [ev(x, env, atom) for x in e.values]
        return _and(vs) if isinstance(e.op, ast.And) else _or(vs)
    if isinstance(e, ast.IfExp):
        t = ev(e.test, env, atom)
        if t is UNKNOWN:
            a, b = ev(e.body, env, atom), ev(e.orelse, env, atom)
            return a if a == b else UNKNOWN
        return ev(e.body if t else e.orelse, env, atom)
    if isinstance(e, ast.Call) and isinstance(e.func, ast.Name) and e.func.id == "bool" and len(e.args) == 1 and not e.keywords:
        return ev(e.args[0], env, atom)
    if isinstance(e, ast.Compare) and len(e.ops) == 1:
        a, b = ev(e.left, env, atom), ev(e.comparators[0], env, atom)
        lit = lambda x: isinstance(x, ast.Constant) and isinstance(x.value, bool)  # noqa: E731
        if a is not UNKNOWN and b is not UNKNOWN and (lit(e.left) or lit(e.comparators[0])):
            if isinstance(e.ops[0], (ast.Is, ast.Eq)):
                return a == b
            if isinstance(e.ops[0], (ast.IsNot, ast.NotEq)):
                return a != b
    return UNKNOWN


# ------------------------------------------------------------------------------------------ a. the Detector family


def scan_classes(repo: Path):
    """{class name: (rel, ClassDef)} of every class under pyxel/ (duplicates of a family name fail closed later)."""
    out: dict[str, list] = {}
    base = repo / PKG
    if not base.is_dir():
        raise TranslationError(f"{PKG}: directory not found")
    for f in sorted(base.rglob("*.py")):
        rel = f.relative_to(repo).as_posix()
        text = f.read_text()
        if "class " not in text:
            continue
        tree = parse(repo, rel)
        for n in ast.walk(tree):
            if isinstance(n, ast.ClassDef):
                out.setdefault(n.name, []).append((rel, n))
    return out


def _bucket_of(target, rel):
    """'x' for self.x / self._x / self.x.array / self._x._array ...; (bucket, rest-of-path)."""
    d = _dotted(target)
    if d is None:
        return None, None
    parts = d.split(".")
    if parts[0] != "self" or len(parts) < 2:
        return None, None
    return parts[1].lstrip("_"), parts[2:]


def _is_zero(e):
    return isinstance(e, ast.Constant) and not isinstance(e.value, bool) and e.value in (0, 0.0)


def _is_fresh_value(e):
    if isinstance(e, ast.Constant) and e.value is None:
        return True
    if isinstance(e, ast.Call):
        d = _dotted(e.func) or ""
        last = d.split(".")[-1]
        return last in ("zeros", "zeros_like") or (last[:1].isupper() and not e.args)
    return False


class _EmptyInterp:
    """One run of an `empty` body for a concrete value of reset."""

    def __init__(self, rel, cls, rname, reset, parents):
        self.rel, self.cls, self.rname, self.parents = rel, cls, rname, parents
        self.env = {rname: reset}
        self.certain_clears, self.may_clears = [], []
        self.supers = []          # [(value | 'default', certain)]

    def clear(self, b, certain):
        (self.certain_clears if certain else self.may_clears).append(b)

    def super_call(self, call):
        """The argument list of a call of the parent's empty, or None if `call` is not one."""
        f = call.func
        if not (isinstance(f, ast.Attribute) and f.attr == "empty"):
            return None
        v = f.value
        if isinstance(v, ast.Call) and isinstance(v.func, ast.Name) and v.func.id == "super":
            return list(call.args), call.keywords
        if isinstance(v, ast.Name) and v.id in self.parents and call.args and isinstance(call.args[0], ast.Name) \
                and call.args[0].id == "self":
            return list(call.args[1:]), call.keywords
        return None

    def call(self, c, certain):
        sc = self.super_call(c)
        if sc is not None:
            args, kws = sc
            if len(args) + len(kws) > 1 or any(k.arg != self.rname and k.arg != "reset" for k in kws):
                _err(self.rel, c, "call of the parent's empty with an unknown argument list")
            if not certain:
                _err(self.rel, c, "the parent's empty is called only under a condition on the detector's state")
            if not args and not kws:
                self.supers.append("default")
            else:
                v = ev(args[0] if args else kws[0].value, self.env)
                if v is UNKNOWN:
                    _err(self.rel, c, "the argument passed to the parent's empty is not determined by reset")
                self.supers.append(v)
            return
        d = _dotted(c.func)
        if d and d.split(".")[0] in LOG_ROOTS:
            return
        if isinstance(c.func, ast.Attribute) and c.func.attr == "empty":
            b, rest = _bucket_of(c.func.value, self.rel)
            if b is not None and rest == [] and not c.args and not c.keywords:
                self.clear(b, certain)
                return
        _err(self.rel, c, f"statement of an unknown shape in {self.cls}.empty")

    def run(self, stmts, certain):
        """Returns 'no' | 'yes' | 'maybe': does the flow leave the function inside stmts?"""
        for i, st in enumerate(stmts):
            if isinstance(st, ast.Pass) or (isinstance(st, ast.Expr) and isinstance(st.value, ast.Constant)):
                continue
            if isinstance(st, ast.Return):
                if st.value is not None and not (isinstance(st.value, ast.Constant) and st.value.value is None):
                    _err(self.rel, st, "empty returns a value")
                return "yes"
            if isinstance(st, ast.Expr) and isinstance(st.value, ast.Call):
                self.call(st.value, certain)
                continue
            if isinstance(st, ast.AugAssign):
                b, rest = _bucket_of(st.target, self.rel)
                if b is not None and rest in (["array"], ["_array"]) and isinstance(st.op, ast.Mult) and _is_zero(st.value):
                    self.clear(b, certain)
                    continue
                _err(self.rel, st, f"statement of an unknown shape in {self.cls}.empty")
            if isinstance(st, (ast.Assign, ast.AnnAssign)):
                targets = st.targets if isinstance(st, ast.Assign) else [st.target]
                value = st.value
                if len(targets) == 1 and isinstance(targets[0], ast.Name) and value is not None:
                    self.env[targets[0].id] = ev(value, self.env) if certain else UNKNOWN
                    continue
                if len(targets) == 1 and value is not None:
                    b, rest = _bucket_of(targets[0], self.rel)
                    if b is not None and rest in ([], ["array"], ["_array"]) and _is_fresh_value(value):
                        self.clear(b, certain)
                        continue
                    if b is not None and rest in (["array"], ["_array"]) and isinstance(value, ast.BinOp) \
                            and isinstance(value.op, ast.Mult) and (_is_zero(value.left) or _is_zero(value.right)):
                        self.clear(b, certain)
                        continue
                _err(self.rel, st, f"statement of an unknown shape in {self.cls}.empty")
            if isinstance(st, ast.If):
                t = ev(st.test, self.env)
                if t is True:
                    r = self.run(st.body, certain)
                elif t is False:
                    r = self.run(st.orelse, certain)
                else:
                    saved = dict(self.env)
                    ra = self.run(st.body, False)
                    env_a, self.env = self.env, dict(saved)
                    rb = self.run(st.orelse, False)
                    self.env = {k: (v if env_a.get(k, UNKNOWN) == v else UNKNOWN) for k, v in self.env.items()}
                    r = "yes" if ra == rb == "yes" else ("no" if ra == rb == "no" else "maybe")
                if r == "yes":
                    return "yes"
                if r == "maybe":
                    certain = False
                continue
            _err(self.rel, st, f"statement of an unknown shape in {self.cls}.empty")
        return "no" if certain else "maybe"


def _empty_def(rel, cls_name, fn, parents):
    if fn.decorator_list and not all((_dotted(d) or "") in HARMLESS_DECORATORS for d in fn.decorator_list):
        _err(rel, fn.decorator_list[0], f"{cls_name}.empty is decorated")
    a = fn.args
    if a.vararg or a.kwarg or a.kwonlyargs or a.posonlyargs or len(a.args) != 2:
        _err(rel, fn, f"{cls_name}.empty: signature other than (self, reset[=default])")
    rname = a.args[1].arg
    default = None
    if a.defaults:
        d = a.defaults[-1]
        if not (isinstance(d, ast.Constant) and isinstance(d.value, bool)):
            _err(rel, d, f"{cls_name}.empty: default of '{rname}' is not a boolean literal")
        default = d.value
    cases = {}
    for reset in (True, False):
        it = _EmptyInterp(rel, cls_name, rname, reset, parents)
        it.run(body_no_doc(fn), True)
        if len(it.supers) > 1:
            _err(rel, fn, f"{cls_name}.empty calls the parent's empty more than once")
        clears = sorted(set(it.certain_clears))
        cases[reset] = dict(super=(it.supers[0] if it.supers else None), clears=clears,
                            may=sorted(set(it.may_clears) - set(clears)))
    return dict(default=default, on_true=cases[True], on_false=cases[False])


def detector_family(repo: Path) -> list[dict]:
    classes = scan_classes(repo)
    roots = [(rel, n) for rel, n in classes.get(ROOT_CLASS, []) if rel == ROOT_FILE]
    if len(roots) != 1:
        raise TranslationError(f"{ROOT_FILE}: class {ROOT_CLASS}: found {len(roots)}")
    family = {ROOT_CLASS: (ROOT_FILE, roots[0][1], "")}
    changed = True
    while changed:
        changed = False
        for name, defs in classes.items():
            for rel, n in defs:
                bases = [_base_name(b) for b in n.bases]
                fam = [b for b in bases if b in family]
                if not fam or (name in family and family[name][1] is n):
                    continue
                if name in family:
                    raise TranslationError(f"{rel}: a second class named {name} in the Detector family")
                if len(fam) != 1:
                    raise TranslationError(f"{rel}: class {name} has {len(fam)} bases in the Detector family")
                for b in bases:
                    if b in family or b in HARMLESS_BASES:
                        continue
                    if b is None or b not in classes:
                        raise TranslationError(f"{rel}: class {name}: base class of an unknown origin")
                    for _, bn in classes[b]:   # a mix-in that brings its own `empty` changes the method resolution
                        if any(isinstance(x, ast.FunctionDef) and x.name == "empty" for x in bn.body):
                            raise TranslationError(f"{rel}: class {name}: mix-in {b} defines empty")
                family[name] = (rel, n, fam[0])
                changed = True
    out = []
    for name in [ROOT_CLASS] + sorted(k for k in family if k != ROOT_CLASS):
        rel, n, parent = family[name]
        fns = [x for x in n.body if isinstance(x, (ast.FunctionDef, ast.AsyncFunctionDef)) and x.name == "empty"]
        for x in ast.walk(n):   # `empty = something` in the class body, or a conditional definition
            if isinstance(x, (ast.Assign, ast.AnnAssign)):
                tg = x.targets if isinstance(x, ast.Assign) else [x.target]
                if any(isinstance(t, ast.Name) and t.id == "empty" for t in tg) and x in n.body:
                    _err(rel, x, f"{name}.empty is bound by an assignment")
        nested = [x for x in ast.walk(n) if isinstance(x, (ast.FunctionDef, ast.AsyncFunctionDef)) and x.name == "empty"
                  and x not in n.body and not any(x in getattr(c, "body", []) for c in ast.walk(n)
                                                    if isinstance(c, ast.ClassDef) and c is not n)]
        if len(fns) > 1 or nested or any(isinstance(x, ast.AsyncFunctionDef) for x in fns):
            raise TranslationError(f"{rel}: class {name}: empty is defined more than once / conditionally")
        parents = {parent} if parent else set()
        out.append(dict(name=name, parent=parent, file=rel,
                        empty=_empty_def(rel, name, fns[0], parents) if fns else None))
    if out[0]["empty"] is None:
        raise TranslationError(f"{ROOT_FILE}: {ROOT_CLASS} does not define empty")
    if out[0]["empty"]["on_true"]["super"] is not None or out[0]["empty"]["on_false"]["super"] is not None:
        raise TranslationError(f"{ROOT_FILE}: {ROOT_CLASS}.empty calls a parent's empty")
    if len(out) < 2:
        raise TranslationError("no detector class derives from Detector")
    # resolve `super().empty()` (no argument) to the default of the parent's effective definition
    by = {c["name"]: c for c in out}

    def eff_default(name):
        seen = set()
        while name and name not in seen:
            seen.add(name)
            if by[name]["empty"] is not None:
                return by[name]["empty"]["default"]
            name = by[name]["parent"]
        return None

    for c in out:
        if c["empty"] is None:
            continue
        for k in ("on_true", "on_false"):
            if c["empty"][k]["super"] == "default":
                d = eff_default(c["parent"])
                if d is None:
                    raise TranslationError(f"{c['file']}: {c['name']}.empty calls the parent's empty without an argument, "
                                           "and the parent's has no default")
                c["empty"][k]["super"] = d
                c["empty"][k]["super_implicit"] = True
    return out


# ------------------------------------------------------------------------------------------ b. the readout loops


def _is_det_empty(c):
    return (isinstance(c, ast.Call) and isinstance(c.func, ast.Attribute) and c.func.attr == "empty"
            and ((_dotted(c.func.value) or "").split(".")[-1] in DET_NAMES))


def _is_run(c):
    return isinstance(c, ast.Call) and isinstance(c.func, ast.Attribute) and c.func.attr in RUN_NAMES


def _contains(node, pred):
    return any(pred(x) for x in ast.walk(node))


class _LoopInterp:
    def __init__(self, rel, qn, nd):
        self.rel, self.qn, self.nd = rel, qn, nd
        self.env = {}
        self.pre, self.inloop, self.post = [], [], []     # inloop: ('empty', arg) | ('run',)
        self.loops = 0

    def atom(self, e):
        if isinstance(e, ast.Attribute) and e.attr in ND_ATTRS:
            return self.nd
        return UNKNOWN

    def arg(self, c):
        if len(c.args) + len(c.keywords) > 1 or any(k.arg != "reset" for k in c.keywords):
            _err(self.rel, c, "detector.empty called with an unknown argument list")
        if not c.args and not c.keywords:
            return "default"
        v = ev(c.args[0] if c.args else c.keywords[0].value, self.env, self.atom)
        if v is UNKNOWN:
            _err(self.rel, c, "the argument of detector.empty is not determined by the readout mode")
        return v

    def record(self, c, where):
        a = self.arg(c)
        if where == "pre":
            self.pre.append(a)
        elif where == "loop":
            self.inloop.append(("empty", a))
        else:
            self.post.append(a)

    def run(self, stmts, where, certain=True):
        for st in stmts:
            has_empty = _contains(st, _is_det_empty)
            if isinstance(st, ast.Expr) and isinstance(st.value, ast.Call) and _is_det_empty(st.value):
                if not certain:
                    _err(self.rel, st, "detector.empty is called under a condition that the readout mode does not decide")
                self.record(st.value, where)
                continue
            if isinstance(st, (ast.Assign, ast.AnnAssign)) and not has_empty:
                targets = st.targets if isinstance(st, ast.Assign) else [st.target]
                if len(targets) == 1 and isinstance(targets[0], ast.Name) and st.value is not None:
                    self.env[targets[0].id] = ev(st.value, self.env, self.atom) if certain else UNKNOWN
                else:
                    for t in targets:
                        for x in ast.walk(t):
                            if isinstance(x, ast.Name):
                                self.env[x.id] = UNKNOWN
                if where == "loop" and _contains(st, _is_run):
                    self.inloop.append(("run",))
                continue
            if isinstance(st, ast.If):
                t = ev(st.test, self.env, self.atom)
                if t is True:
                    self.run(st.body, where, certain)
                elif t is False:
                    self.run(st.orelse, where, certain)
                else:
                    saved = dict(self.env)
                    self.run(st.body, where, False)
                    env_a, self.env = self.env, dict(saved)
                    self.run(st.orelse, where, False)
                    self.env = {k: (v if env_a.get(k, UNKNOWN) == v else UNKNOWN)
                                for k, v in self.env.items() if k in env_a}
                continue
            if isinstance(st, ast.With):
                self.run(st.body, where, certain)
                continue
            if isinstance(st, ast.Try):
                self.run(st.body, where, certain)
                for h in st.handlers:
                    self.run(h.body, where, False)
                self.run(st.orelse, where, certain)
                self.run(st.finalbody, where, certain)
                continue
            if isinstance(st, ast.For):
                if has_empty:
                    if where != "pre" or not certain:
                        _err(self.rel, st, "detector.empty inside a nested / conditional loop")
                    self.loops += 1
                    if self.loops > 1:
                        _err(self.rel, st, "more than one loop calls detector.empty")
                    self.run(st.body, "loop", True)
                    if _contains(ast.Module(body=st.orelse, type_ignores=[]), _is_det_empty):
                        _err(self.rel, st, "detector.empty in the else-branch of the loop")
                    where = "post"
                elif where == "loop" and _contains(st, _is_run):
                    self.inloop.append(("run",))
                continue
            if has_empty:
                _err(self.rel, st, "detector.empty inside a statement of an unknown shape")
            if where == "loop" and _contains(st, _is_run):
                self.inloop.append(("run",))


def _functions(tree):
    out = []

    def visit(node, prefix):
        for ch in ast.iter_child_nodes(node):
            if isinstance(ch, (ast.FunctionDef, ast.AsyncFunctionDef)):
                out.append((prefix + ch.name, ch))
                visit(ch, prefix + ch.name + ".")
            elif isinstance(ch, ast.ClassDef):
                visit(ch, prefix + ch.name + ".")
            elif isinstance(ch, (ast.If, ast.Try, ast.With)):
                visit(ch, prefix)

    visit(tree, "")
    return out


def readout_loops(repo: Path) -> list[dict]:
    out = []
    base = repo / PKG
    for f in sorted(base.rglob("*.py")):
        text = f.read_text()
        if ".empty(" not in text:
            continue
        rel = f.relative_to(repo).as_posix()
        tree = parse(repo, rel)
        fns = _functions(tree)
        inner = {id(x) for _, fn in fns for x in ast.walk(fn) if x is not fn and isinstance(x, (ast.FunctionDef, ast.AsyncFunctionDef, ast.Lambda))}
        # a block around detector.empty extracted into a module-level helper is read as if it were still in place
        from .c17_norm import inline_calls

        bodies, inlined = {}, {}
        for qn, fn in fns:
            body, counts = inline_calls(tree, fn, lambda h: _contains(h, _is_det_empty))
            bodies[qn] = body
            for h, c in counts.items():
                inlined[h] = inlined.get(h, 0) + c
        for qn, fn in fns:
            whole = ast.Module(body=bodies[qn], type_ignores=[])
            own_calls = [x for x in ast.walk(whole) if _is_det_empty(x)]
            if not own_calls:
                continue
            if qn in inlined and sum(1 for x in ast.walk(tree) if isinstance(x, ast.Name) and x.id == qn) == inlined[qn] \
                    and not any(qn in g.read_text() for g in base.rglob("*.py") if g != f):
                continue          # lives on only through its (inlined) call sites
            # calls that belong to a nested function are that function's
            nested_calls = {id(x) for ch in ast.walk(whole) if id(ch) in inner for x in ast.walk(ch)
                            if _is_det_empty(x)}
            if all(id(x) in nested_calls for x in own_calls):
                continue
            if nested_calls:
                _err(rel, fn, "detector.empty is called from a nested function")
            res = {}
            for nd in (True, False):
                it = _LoopInterp(rel, qn, nd)
                it.run(bodies[qn], "pre")
                if it.loops != 1:
                    _err(rel, fn, f"{qn} calls detector.empty but not from a readout loop")
                if it.post:
                    _err(rel, fn, f"{qn} empties the detector after the readout loop")
                empties = [i for i, e in enumerate(it.inloop) if e[0] == "empty"]
                runs = [i for i, e in enumerate(it.inloop) if e[0] == "run"]
                if len(empties) != 1:
                    _err(rel, fn, f"{qn}: {len(empties)} calls of detector.empty in the loop body "
                                  f"(non_destructive={nd})")
                if not runs or runs[0] < empties[0]:
                    _err(rel, fn, f"{qn}: detector.empty does not precede the pipeline run in the loop body")
                res[nd] = (list(it.pre), it.inloop[empties[0]][1])
            if res[True][0] != res[False][0]:
                _err(rel, fn, f"{qn}: the empties before the loop depend on the readout mode")
            out.append(dict(name=f"{rel}:{qn}", pre=res[True][0], nd=res[True][1], d=res[False][1]))
    if not out:
        raise TranslationError("no readout loop calls detector.empty")
    return out


# ------------------------------------------------------------------------------------------ rendering


def _s(x):
    return '"' + str(x).replace('"', "'") + '"'


def _b(x):
    return "true" if x else "false"


def _ob(x):
    return "None" if x is None else f"(Some {_b(x)})"


def _earg(a):
    return "EDefault" if a == "default" else f"(EBool {_b(a)})"


def _case(k):
    return (f"{{| ec_super := {_ob(k['super'])}; ec_clears := [{'; '.join(_s(b) for b in k['clears'])}]; "
            f"ec_may := [{'; '.join(_s(b) for b in k['may'])}] |}}")


def render_life(fam: list[dict], loops: list[dict]) -> str:
    L = ["(* the Detector family: parent, and what each own definition of empty(reset) does for reset = True / False *)",
         "Definition det_table : list det_class := ["]
    rows = []
    for c in fam:
        if c["empty"] is None:
            e = "None"
        else:
            d = c["empty"]
            e = (f"Some {{| ed_default := {_ob(d['default'])};\n        ed_true := {_case(d['on_true'])};\n"
                 f"        ed_false := {_case(d['on_false'])} |}}")
        rows.append(f"  {{| dc_name := {_s(c['name'])}; dc_parent := {_s(c['parent'])};\n     dc_empty := {e} |}}")
    L.append(";\n".join(rows))
    L.append("].\n")
    L.append("(* the functions that run the readouts of an exposure: empties before the loop, argument of the empty at the top\n"
             "   of every readout in non-destructive / destructive mode *)")
    L.append("Definition loop_table : list loop_def := [")
    L.append(";\n".join(f"  {{| lp_name := {_s(lp['name'])}; lp_pre := [{'; '.join(_earg(a) for a in lp['pre'])}]; "
                        f"lp_nd := {_earg(lp['nd'])}; lp_d := {_earg(lp['d'])} |}}" for lp in loops))
    L.append("].")
    return "\n".join(L) + "\n"
