"""C10: the four small functions that walk the calibration decision vector -> a DESCRIPTION (Gen_C10.v).

Read from the current source, by a small symbolic execution of the loop bodies (one pass per class of
variable: scalar "_" / list of placeholders with shared boundaries / with per-component boundaries):

  pyxel/observation/parameter_values.py
    ParameterValues.__init__    the boundaries are kept as np.array(boundaries) (a copy), unchanged after the
                                shape test; which 2-D shape is accepted            -> d_pv_rows
    ParameterValues.boundaries  returns the kept array itself or a copy            -> sb_getter
  pyxel/calibration/fitting_datatree.py  (class ModelFittingDataTree)
    _set_bound                  iteration over self._variables in order; per class which element / column of
                                var.boundaries is appended to the lower and to the upper list, whether and how
                                log10 is applied under `if var.logarithmic` (rebinding or IN PLACE, math or numpy)
                                                                                   -> sb_desc
    convert_to_parameters       works on np.array(x) (a copy); a = 0; per class the slice [start:stop] that gets
                                10 ** and the new offset, as linear forms in (a, width)   -> cv_desc
    update_processor            deepcopy of the processor; per class the index / slice handed to
                                Processor.set(key=var.key, ...) and the new offset  -> up_desc
    __init__                    keeps deepcopy(processor); stores _set_bound()'s pair in the order get_bounds
                                returns it                                         -> d_init_copy
    fitness                     update_processor gets convert_to_parameters(x)     -> d_fit_converts
    _apply_parameters, apply_parameters_to_processors   the island's row -> update_processor -> run_pipeline
  pyxel/calibration/archipelago_datatree.py  (class ArchipelagoDataTree)
    _get_champions              champion_parameters = convert_to_parameters(champion_decision = get_champions_x())
    get_best_individuals        best_parameters = convert_to_parameters(best_decision = population.get_x())
    run_evolve                  the final runs get champion_parameters of the last evolution   -> src_report

Only the listed statement shapes are accepted; anything else raises TranslationError (fail closed).  Whole
bodies are not fingerprinted: statements that do not touch the tracked names (logging, annotations, asserts,
comments, the champion arrays of __init__ ...) are ignored outside the walked loops.
"""
from __future__ import annotations

import ast
import copy
from pathlib import Path

from .common import HEADER, body_no_doc, fail, find_func, parse

FD = "pyxel/calibration/fitting_datatree.py"
PV = "pyxel/observation/parameter_values.py"
CLS = "ModelFittingDataTree"

SCALAR, SHARED, PERCOMP = "scalar", "shared", "percomp"
LIST_CLASSES = (SHARED, PERCOMP)


def u(node) -> str:
    return ast.unparse(node)


def is_name(n, ident=None):
    return isinstance(n, ast.Name) and (ident is None or n.id == ident)


def is_attr(n, base, attr):
    """<base>.<attr> with <base> a plain name"""
    return isinstance(n, ast.Attribute) and n.attr == attr and is_name(n.value, base)


def is_var_values(n, var):
    return is_attr(n, var, "values")


def is_len_values(n, var):
    return (isinstance(n, ast.Call) and is_name(n.func, "len") and len(n.args) == 1 and not n.keywords
            and is_var_values(n.args[0], var))


def loop_over_variables(fn, stmts):
    """The single `for var in self._variables:` of a function body -> (index in stmts, loop, var name)."""
    loops = [(i, s) for i, s in enumerate(stmts) if isinstance(s, ast.For)]
    if len(loops) != 1:
        fail(fn, f"{fn.name}: expected exactly one for loop at top level, found {len(loops)}")
    i, loop = loops[0]
    if not (is_name(loop.target) and is_attr(loop.iter, "self", "_variables") and not loop.orelse):
        fail(loop, f"{fn.name}: the loop must be `for <var> in self._variables:` (declaration order)")
    return i, loop, loop.target.id


# ------------------------------------------------------------------------------------------ class tests


# class names of isinstance tests -> pycls of Model/DecisionKinds.v; ISINST: (holds for the string "_", for a list)
PY_CLASSES = {"list": "CList", "tuple": "CTuple", "str": "CStr", "Sequence": "CSeq", "abc.Sequence": "CSeq",
              "collections.abc.Sequence": "CSeq", "np.ndarray": "CArr", "numpy.ndarray": "CArr", "ndarray": "CArr"}
ISINST = {"CList": (False, True), "CTuple": (False, False), "CStr": (True, False), "CSeq": (True, True),
          "CArr": (False, False)}


def py_classes(node):
    """the class argument of isinstance -> [pycls, ...] or None if a class is not listed"""
    elts = node.elts if isinstance(node, ast.Tuple) else [node]
    if isinstance(node, ast.BinOp) and isinstance(node.op, ast.BitOr):       # list | tuple
        elts, todo = [], [node]
        while todo:
            n = todo.pop()
            if isinstance(n, ast.BinOp) and isinstance(n.op, ast.BitOr):
                todo += [n.right, n.left]
            else:
                elts.append(n)
    out = []
    for e in elts:
        c = PY_CLASSES.get(u(e))
        if c is None:
            return None
        out.append(c)
    return out or None


def base_of(cls):
    """A class is "scalar" | "shared" | "percomp", or a PATH ("path", base, kind, n): the tests on var.values are
    decided for an object of that kind with n placeholders, everything else as for the base class."""
    return cls[1] if isinstance(cls, tuple) else cls


def class_test(test, var, cls):
    """Truth value of a branch test for a variable of class `cls`, or None if the shape is not listed."""
    cls = base_of(cls)
    scalar = cls == SCALAR
    # var.values == "_"   /   var.values != "_"
    if (isinstance(test, ast.Compare) and len(test.ops) == 1 and is_var_values(test.left, var)
            and isinstance(test.comparators[0], ast.Constant) and test.comparators[0].value == "_"):
        if isinstance(test.ops[0], ast.Eq):
            return scalar
        if isinstance(test.ops[0], ast.NotEq):
            return not scalar
        return None
    # isinstance(var.values, list | Sequence | abc.Sequence | (list, tuple))
    # (a str is a Sequence too, but every accepted chain tests `== "_"` first; see `if_chain`)
    if (isinstance(test, ast.Call) and is_name(test.func, "isinstance") and len(test.args) == 2
            and is_var_values(test.args[0], var)):
        cs = py_classes(test.args[1])
        if cs is None:
            return None
        if cs == ["CSeq"]:
            return "sequence"
        return any(ISINST[c][0 if scalar else 1] for c in cs)
    # type(var.values) is list | == list
    if (isinstance(test, ast.Compare) and len(test.ops) == 1 and isinstance(test.ops[0], (ast.Is, ast.Eq))
            and isinstance(test.left, ast.Call) and is_name(test.left.func, "type") and len(test.left.args) == 1
            and is_var_values(test.left.args[0], var)):
        cs = py_classes(test.comparators[0])
        if cs and len(cs) == 1 and cs[0] != "CSeq":
            return ISINST[cs[0]][0 if scalar else 1]
        return None
    # all(x == "_" for x in var.values[:] | var.values)
    if (isinstance(test, ast.Call) and is_name(test.func, "all") and len(test.args) == 1
            and isinstance(test.args[0], ast.GeneratorExp)):
        g = test.args[0]
        if len(g.generators) == 1 and not g.generators[0].ifs and is_name(g.generators[0].target):
            it = g.generators[0].iter
            if isinstance(it, ast.Subscript) and isinstance(it.slice, ast.Slice) and it.slice.lower is None \
                    and it.slice.upper is None and it.slice.step is None:
                it = it.value
            x = g.generators[0].target.id
            e = g.elt
            if (is_var_values(it, var) and isinstance(e, ast.Compare) and len(e.ops) == 1
                    and isinstance(e.ops[0], ast.Eq) and is_name(e.left, x)
                    and isinstance(e.comparators[0], ast.Constant) and e.comparators[0].value == "_"):
                return True          # holds for "_" and for a list of "_" alike
        return None
    # not A   (a str is a Sequence: `not isinstance(var.values, Sequence)` is false for "_" and for a list)
    if isinstance(test, ast.UnaryOp) and isinstance(test.op, ast.Not):
        v = class_test(test.operand, var, cls)
        return None if v is None else (False if v == "sequence" else not v)
    # A or B
    if isinstance(test, ast.BoolOp) and isinstance(test.op, ast.Or):
        vals = [class_test(t, var, cls) for t in test.values]
        return None if any(v is None for v in vals) else any(bool(v) for v in vals)
    # A and B
    if isinstance(test, ast.BoolOp) and isinstance(test.op, ast.And):
        vals = [class_test(t, var, cls) for t in test.values]
        if any(v is None for v in vals):
            return None
        if "sequence" in vals:
            return "sequence" if all(v in (True, "sequence") for v in vals) else False
        return all(vals)
    # var.boundaries.ndim == k
    if (isinstance(test, ast.Compare) and len(test.ops) == 1 and isinstance(test.ops[0], ast.Eq)
            and isinstance(test.left, ast.Attribute) and test.left.attr == "ndim"
            and is_attr(test.left.value, var, "boundaries")
            and isinstance(test.comparators[0], ast.Constant) and isinstance(test.comparators[0].value, int)):
        return test.comparators[0].value == (2 if cls == PERCOMP else 1)
    return None


def resolve_test(test, var, cls, scalar_tested):
    """-> bool.  `isinstance(var.values, Sequence)` is true for the string "_" as well: it is accepted only
    after an earlier test of the same chain has sent the scalar class elsewhere."""
    if isinstance(cls, tuple) and mentions_values(test, var):
        return bool(ttest_of(test, var)[1](cls[2], cls[3]))
    v = class_test(test, var, cls)
    if v is None:
        fail(test, "branch test is not one of the listed shapes")
    if v == "sequence":
        if cls == SCALAR and not scalar_tested:
            fail(test, "isinstance(var.values, Sequence) is reached by the scalar class")
        return True
    return bool(v)


def mentions_scalar_test(test, var):
    return any(isinstance(n, ast.Compare) and is_var_values(n.left, var) and n.comparators
               and isinstance(n.comparators[0], ast.Constant) and n.comparators[0].value == "_"
               for n in ast.walk(test))


def only_raises(stmts):
    return len(stmts) == 1 and isinstance(stmts[0], ast.Raise)


class Refused(Exception):
    """the class of variable reaches a `raise` (a refusal of the declaration)"""


def flatten(stmts, var, cls, on_log=None):
    """The straight-line statements a variable of class `cls` executes in a loop body: if/elif chains on the
    class are resolved; `if var.logarithmic:` blocks are kept (handled by the caller)."""
    out = []
    for s in stmts:
        if isinstance(s, ast.If) and not is_attr(s.test, var, "logarithmic"):
            node, scalar_tested, taken = s, False, None
            while True:
                if resolve_test(node.test, var, cls, scalar_tested):
                    taken = node.body
                    break
                scalar_tested = scalar_tested or mentions_scalar_test(node.test, var)
                if len(node.orelse) == 1 and isinstance(node.orelse[0], ast.If) \
                        and not is_attr(node.orelse[0].test, var, "logarithmic"):
                    node = node.orelse[0]
                    continue
                taken = node.orelse
                break
            if only_raises(taken):
                raise Refused()
            out += flatten(taken, var, cls)
        else:
            out.append(s)
    return out


def skip_stmt(s):
    """Statements without effect on the walk: bare annotations, asserts, docstrings, pass."""
    if isinstance(s, ast.AnnAssign) and s.value is None:
        return True
    if isinstance(s, (ast.Assert, ast.Pass)):
        return True
    if isinstance(s, ast.Expr) and isinstance(s.value, ast.Constant):
        return True
    # logging / warnings / print of values that are only READ (names, attributes, items, literals, f-strings)
    if isinstance(s, ast.Expr) and isinstance(s.value, ast.Call):
        c, f = s.value, s.value.func
        log = (isinstance(f, ast.Attribute) and f.attr in LOG_METHODS
               and u(f.value) in ("logging", "logger", "log", "_logger", "LOGGER", "self._log", "self._logger", "self.log",
                                  "self.logger")
               or u(f) in ("warnings.warn", "print"))
        if log and all(isinstance(n, (ast.Constant, ast.JoinedStr, ast.FormattedValue, ast.Name, ast.Attribute,
                                      ast.Subscript, ast.Load, ast.Tuple, ast.keyword))
                       for a in list(c.args) + list(c.keywords) for n in ast.walk(a)):
            return True
    return False


LOG_METHODS = ("debug", "info", "warning", "error", "exception", "critical", "log")


def assign_parts(s):
    """`x = e` | `x: T = e` -> (target node, value node) else None"""
    if isinstance(s, ast.Assign) and len(s.targets) == 1:
        return s.targets[0], s.value
    if isinstance(s, ast.AnnAssign) and s.value is not None:
        return s.target, s.value
    return None


# ------------------------------------------------------------------------------------------ linear forms


def lin_add(x, y):
    return tuple(a + b for a, b in zip(x, y))


def lin_of(e, env, var):
    """integer expression -> (c, ca, cw): c + ca * a_entry + cw * width"""
    if isinstance(e, ast.Constant) and isinstance(e.value, int) and not isinstance(e.value, bool) and e.value >= 0:
        return (e.value, 0, 0)
    if isinstance(e, ast.Name):
        if e.id not in env:
            fail(e, "integer name is not bound on this path")
        return env[e.id]
    if is_len_values(e, var):
        return (0, 0, 1)
    if isinstance(e, ast.BinOp) and isinstance(e.op, ast.Add):
        return lin_add(lin_of(e.left, env, var), lin_of(e.right, env, var))
    if isinstance(e, ast.BinOp) and isinstance(e.op, ast.Mult):
        for k, o in ((e.left, e.right), (e.right, e.left)):
            if isinstance(k, ast.Constant) and isinstance(k.value, int) and not isinstance(k.value, bool) and k.value >= 0:
                return tuple(k.value * c for c in lin_of(o, env, var))
    fail(e, "integer expression is not linear in the listed form")


def int_stmt(s, env, var):
    """`n = <lin>` | `n += <lin>` | `n, m = <lin>, <lin>` on integer names -> True if handled"""
    if isinstance(s, ast.AugAssign) and isinstance(s.op, ast.Add) and is_name(s.target):
        if s.target.id not in env:
            fail(s, "augmented assignment to an unbound integer")
        env[s.target.id] = lin_add(env[s.target.id], lin_of(s.value, env, var))
        return True
    ap = assign_parts(s)
    if ap is None:
        return False
    t, v = ap
    if is_name(t):
        try:
            env[t.id] = lin_of(v, dict(env), var)
        except Exception:  # noqa: BLE001  (not an integer expression: the caller decides)
            return False
        return True
    if isinstance(t, ast.Tuple) and isinstance(v, ast.Tuple) and len(t.elts) == len(v.elts) \
            and all(is_name(x) for x in t.elts):
        old = dict(env)
        for x, e in zip(t.elts, v.elts):
            env[x.id] = lin_of(e, old, var)
        return True
    return False


def clin(l):
    return f"(mkLin {l[0]} {l[1]} {l[2]})"


def width_of(cls):
    return "(WConst 1)" if base_of(cls) == SCALAR else "WLen"


USED_LEN = [False]      # set by at_width_one: the last path executed for the scalar class used len(var.values)


def at_width_one(l):
    """a linear form where the width is the constant 1 (the scalar class; len("_") = 1)"""
    if l[2]:
        USED_LEN[0] = True
    return (l[0] + l[2], l[1], 0)


# ------------------------------------------------------------------------------------------ _set_bound

LOG_FUNCS = {"math.log10": "MathLog10", "log10": "MathLog10", "np.log10": "NpLog10", "numpy.log10": "NpLog10"}


def is_boundaries(n, var):
    return is_attr(n, var, "boundaries")


def sb_value(e, env, var):
    """expression of _set_bound -> symbolic value ("num", i) | ("arr", "SRepeat"|"SColumn", i) or None"""
    # np.array([x] * len(var.values)) | np.full(len(var.values), x) | np.repeat(x, len(var.values))
    if isinstance(e, ast.Call) and u(e.func) in ("np.array", "numpy.array") and len(e.args) == 1 and not \
            [k for k in e.keywords if k.arg != "dtype"]:
        a = e.args[0]
        if isinstance(a, ast.BinOp) and isinstance(a.op, ast.Mult):
            for lst, n in ((a.left, a.right), (a.right, a.left)):
                if isinstance(lst, ast.List) and len(lst.elts) == 1 and is_name(lst.elts[0]) and is_len_values(n, var):
                    v = env.get(lst.elts[0].id)
                    if v and v[0] == "num" and v[2] == "LNone":
                        return ("arr", "SRepeat", v[1], "LNone")
    if isinstance(e, ast.Call) and u(e.func) in ("np.full", "np.repeat") and len(e.args) == 2 and not e.keywords:
        n, x = (e.args[0], e.args[1]) if u(e.func) == "np.full" else (e.args[1], e.args[0])
        if is_len_values(n, var) and is_name(x):
            v = env.get(x.id)
            if v and v[0] == "num" and v[2] == "LNone":
                return ("arr", "SRepeat", v[1], "LNone")
    # var.boundaries[:, k]
    if isinstance(e, ast.Subscript) and is_boundaries(e.value, var) and isinstance(e.slice, ast.Tuple) \
            and len(e.slice.elts) == 2:
        r, c = e.slice.elts
        if isinstance(r, ast.Slice) and r.lower is None and r.upper is None and r.step is None \
                and isinstance(c, ast.Constant) and isinstance(c.value, int) and c.value >= 0:
            return ("arr", "SColumn", c.value, "LNone")
    return None


def sb_log_stmt(s, env):
    """a statement under `if var.logarithmic:` -> updates env or fails"""
    # x = f(x)
    ap = assign_parts(s)
    if ap is not None:
        t, v = ap
        if isinstance(v, ast.Call) and u(v.func) in LOG_FUNCS and len(v.args) == 1 and is_name(v.args[0]):
            fn = LOG_FUNCS[u(v.func)]
            src = v.args[0].id
            out_kw = [k for k in v.keywords if k.arg == "out"]
            if [k for k in v.keywords if k.arg != "out"]:
                fail(s, "log10 call with unlisted keywords")
            if src not in env or env[src][-1] != "LNone":
                fail(s, "log10 of a value that is not a fresh read of the boundaries")
            val = env[src]
            if val[0] == "num" and fn != "MathLog10" or val[0] == "arr" and fn != "NpLog10":
                # math.log10 of an array raises / np.log10 of a number does not raise: not the listed pairing
                if not (val[0] == "num" and fn == "NpLog10"):
                    fail(s, "math.log10 applied to an array")
            if is_name(t) and not out_kw:
                if t.id != src:
                    fail(s, "log10 result bound to another name")
                env[src] = val[:-1] + (f"(LRebind {fn})",)
                return
            # x[:] = f(x)   /   x[...] = f(x)
            if isinstance(t, ast.Subscript) and is_name(t.value, src) and not out_kw and val[0] == "arr" and (
                    isinstance(t.slice, ast.Constant) and t.slice.value is Ellipsis or
                    isinstance(t.slice, ast.Slice) and t.slice.lower is None and t.slice.upper is None
                    and t.slice.step is None):
                env[src] = val[:-1] + (f"(LInPlace {fn})",)
                return
            # x = f(x, out=x)
            if is_name(t, src) and len(out_kw) == 1 and is_name(out_kw[0].value, src) and val[0] == "arr":
                env[src] = val[:-1] + (f"(LInPlace {fn})",)
                return
        fail(s, "statement under `if var.logarithmic` is not a listed log10 form")
    # f(x, out=x)
    if isinstance(s, ast.Expr) and isinstance(s.value, ast.Call):
        v = s.value
        if u(v.func) in LOG_FUNCS and len(v.args) == 1 and is_name(v.args[0]) and len(v.keywords) == 1 \
                and v.keywords[0].arg == "out" and is_name(v.keywords[0].value, v.args[0].id):
            src = v.args[0].id
            if src in env and env[src][0] == "arr" and env[src][-1] == "LNone" and LOG_FUNCS[u(v.func)] == "NpLog10":
                env[src] = env[src][:-1] + ("(LInPlace NpLog10)",)
                return
    if skip_stmt(s):
        return
    fail(s, "statement under `if var.logarithmic` is not a listed log10 form")


def sb_append(s, accs, env):
    """lbd += [x] | lbd += x.tolist() | lbd.append(x) | lbd.extend(x.tolist()) -> (acc, value) or None"""
    tgt = arg = None
    if isinstance(s, ast.AugAssign) and isinstance(s.op, ast.Add) and is_name(s.target) and s.target.id in accs:
        tgt, arg = s.target.id, s.value
        kind = "extend"
    elif isinstance(s, ast.Expr) and isinstance(s.value, ast.Call) and isinstance(s.value.func, ast.Attribute) \
            and is_name(s.value.func.value) and s.value.func.value.id in accs and len(s.value.args) == 1 \
            and not s.value.keywords and s.value.func.attr in ("append", "extend"):
        tgt, arg, kind = s.value.func.value.id, s.value.args[0], s.value.func.attr
    else:
        return None
    if kind == "append":
        if is_name(arg) and env.get(arg.id, ("",))[0] == "num":
            return tgt, env[arg.id]
        fail(s, "append of something that is not a tracked number")
    if isinstance(arg, ast.List) and len(arg.elts) == 1 and is_name(arg.elts[0]) \
            and env.get(arg.elts[0].id, ("",))[0] == "num":
        return tgt, env[arg.elts[0].id]
    if isinstance(arg, ast.Call) and isinstance(arg.func, ast.Attribute) and arg.func.attr == "tolist" \
            and not arg.args and not arg.keywords and is_name(arg.func.value) \
            and env.get(arg.func.value.id, ("",))[0] == "arr":
        return tgt, env[arg.func.value.id]
    if isinstance(arg, ast.Call) and is_name(arg.func, "list") and len(arg.args) == 1 and is_name(arg.args[0]) \
            and env.get(arg.args[0].id, ("",))[0] == "arr":
        return tgt, env[arg.args[0].id]
    fail(s, "the boundary lists grow by something that is not a tracked value")


def set_bound(tree):
    fn = find_func(tree, "_set_bound", CLS)
    stmts = body_no_doc(fn)
    i, loop, var = loop_over_variables(fn, stmts)
    # accumulators: the two names returned, initialised to []
    ret = stmts[-1]
    if not (isinstance(ret, ast.Return) and isinstance(ret.value, ast.Tuple) and len(ret.value.elts) == 2
            and all(is_name(e) for e in ret.value.elts)):
        fail(ret, "_set_bound must end with `return <lower list>, <upper list>`")
    low_acc, high_acc = (e.id for e in ret.value.elts)
    if low_acc == high_acc:
        fail(ret, "_set_bound returns the same list twice")
    inits = {}
    for s in stmts[:i]:
        if skip_stmt(s):
            continue
        ap = assign_parts(s)
        if ap and is_name(ap[0]) and isinstance(ap[1], ast.List) and not ap[1].elts:
            inits[ap[0].id] = True
            continue
        fail(s, "_set_bound: statement before the loop is not a listed shape")
    if not (inits.get(low_acc) and inits.get(high_acc)) or any(not skip_stmt(s) for s in stmts[i + 1:-1]):
        fail(fn, "_set_bound: the two lists must start empty and be returned right after the loop")
    def run(cls):
        line = flatten(loop.body, var, cls)
        base = base_of(cls)
        env, got = {}, {}
        for s in line:
            if skip_stmt(s):
                continue
            if isinstance(s, ast.If):     # if var.logarithmic:
                if s.orelse:
                    fail(s, "`if var.logarithmic` with an else branch")
                for t in s.body:
                    sb_log_stmt(t, env)
                continue
            ap = assign_parts(s)
            # lo, hi = var.boundaries
            if ap and isinstance(ap[0], ast.Tuple) and len(ap[0].elts) == 2 and all(is_name(e) for e in ap[0].elts) \
                    and is_boundaries(ap[1], var):
                if base == PERCOMP:
                    fail(s, "unpacking of 2-D boundaries")
                for k, e in enumerate(ap[0].elts):
                    env[e.id] = ("num", k, "LNone")
                continue
            if ap and is_name(ap[0]) and is_name(ap[1]) and env.get(ap[1].id, ("",))[0] == "num":
                env[ap[0].id] = env[ap[1].id]          # a copy of a number (immutable): same value, same log10 state
                continue
            if ap and is_name(ap[0]):
                val = sb_value(ap[1], env, var)
                if val is None:
                    fail(s, "_set_bound: assignment is not a listed read of var.boundaries")
                if val[1] == "SColumn" and base != PERCOMP or val[1] == "SRepeat" and base == PERCOMP:
                    fail(s, "_set_bound: read does not fit the boundaries shape of this class")
                env[ap[0].id] = val
                continue
            app = sb_append(s, (low_acc, high_acc), env)
            if app is not None:
                if app[0] in got:
                    fail(s, "a boundary list grows twice in one iteration")
                got[app[0]] = app[1]
                continue
            fail(s, "_set_bound: statement in the loop is not a listed shape")
        if set(got) != {low_acc, high_acc}:
            fail(loop, f"_set_bound: class {cls} does not extend both lists")
        sides = []
        for acc in (low_acc, high_acc):
            v = got[acc]
            if v[0] == "num":
                if base != SCALAR:
                    fail(loop, "a list of placeholders contributes a single number")
                sides.append(f"(mkSide (SUnpack {v[1]}) {v[2]})")
            else:
                if base == SCALAR:
                    fail(loop, "a scalar contributes an array")
                sides.append(f"(mkSide ({v[1]} {v[2]}) {v[3]})")
        return f"(mkSBranch {sides[0]} {sides[1]})"

    branches = {}
    for cls in (SCALAR, SHARED, PERCOMP):
        try:
            branches[cls] = run(cls)
        except Refused:
            fail(loop, f"_set_bound refuses every variable of class {cls}")
    branches["tests"] = walk_tree(fn, loop, var, run, branches)
    return branches


# ------------------------------------------------------------------------------------------ convert_to_parameters


def is_pow10(v, sub_dump):
    """np.power(10, <sub>) | 10 ** <sub>   with <sub> the same subscript expression as the target"""
    ten = lambda c: isinstance(c, ast.Constant) and c.value in (10, 10.0) and not isinstance(c.value, bool)  # noqa: E731
    if isinstance(v, ast.Call) and u(v.func) in ("np.power", "numpy.power", "np.float_power") and len(v.args) == 2 \
            and not v.keywords and ten(v.args[0]):
        return ast.dump(v.args[1]) == sub_dump
    if isinstance(v, ast.BinOp) and isinstance(v.op, ast.Pow) and ten(v.left):
        return ast.dump(v.right) == sub_dump
    return False


def pow10_exponent(v):
    """np.power(10, <e>) | 10 ** <e>  ->  <e>"""
    ten = lambda c: isinstance(c, ast.Constant) and c.value in (10, 10.0) and not isinstance(c.value, bool)  # noqa: E731
    if isinstance(v, ast.Call) and u(v.func) in ("np.power", "numpy.power", "np.float_power") and len(v.args) == 2 \
            and not v.keywords and ten(v.args[0]):
        return v.args[1]
    if isinstance(v, ast.BinOp) and isinstance(v.op, ast.Pow) and ten(v.left):
        return v.right
    return None


def arr_slice(e, arr, env, var):
    """<arr>[..., lo:hi] -> (linear form of lo, of hi) under the current integer environment, else None"""
    if not (isinstance(e, ast.Subscript) and is_name(e.value, arr)):
        return None
    sl = e.slice
    if not (isinstance(sl, ast.Tuple) and len(sl.elts) == 2 and isinstance(sl.elts[0], ast.Constant)
            and sl.elts[0].value is Ellipsis and isinstance(sl.elts[1], ast.Slice)
            and sl.elts[1].step is None and sl.elts[1].lower is not None and sl.elts[1].upper is not None):
        return None
    return (lin_of(sl.elts[1].lower, env, var), lin_of(sl.elts[1].upper, env, var))


def convert(tree):
    fn = find_func(tree, "convert_to_parameters", CLS)
    params = [a.arg for a in fn.args.args]
    if len(params) != 2:
        fail(fn, "convert_to_parameters signature")
    stmts = body_no_doc(fn)
    i, loop, var = loop_over_variables(fn, stmts)
    env0, arr, copy = {}, None, None
    for s in stmts[:i]:
        if skip_stmt(s):
            continue
        ap = assign_parts(s)
        if ap and is_name(ap[0]) and isinstance(ap[1], ast.Call) and len(ap[1].args) == 1 \
                and is_name(ap[1].args[0], params[1]) and u(ap[1].func) in ("np.array", "numpy.array", "np.asarray",
                                                                          "numpy.asarray", "np.copy"):
            kws = {k.arg: k.value for k in ap[1].keywords}
            if set(kws) - {"dtype", "copy"}:
                fail(s, "np.array with unlisted keywords")
            copy = u(ap[1].func) in ("np.array", "numpy.array", "np.copy")
            if "copy" in kws:
                if not isinstance(kws["copy"], ast.Constant) or kws["copy"].value not in (True, False, None):
                    fail(s, "np.array copy= is not a literal")
                copy = kws["copy"].value is True
            arr = ap[0].id
            continue
        if ap and is_name(ap[0]) and is_name(ap[1], params[1]):
            arr, copy = ap[0].id, False
            continue
        if int_stmt(s, env0, var):
            continue
        fail(s, "convert_to_parameters: statement before the loop is not a listed shape")
    if arr is None:
        fail(fn, "convert_to_parameters: the working array is not created from the argument")
    tail = [s for s in stmts[i + 1:] if not skip_stmt(s)]
    if not (len(tail) == 1 and isinstance(tail[0], ast.Return) and is_name(tail[0].value, arr)):
        fail(fn, "convert_to_parameters must return the working array right after the loop")
    offs = [k for k, v in env0.items() if v[1:] == (0, 0)]
    a0s = []

    def run(cls):
        line = flatten(loop.body, var, cls)
        # a_entry is symbolic for the name(s) initialised before the loop
        res = None
        for a_name in offs:
            env = {k: v for k, v in env0.items()}
            env[a_name] = (0, 1, 0)
            site = None
            held = {}
            for s in line:
                if skip_stmt(s):
                    continue
                if isinstance(s, ast.If):
                    if s.orelse:
                        fail(s, "`if var.logarithmic` with an else branch")
                    for t in s.body:
                        if skip_stmt(t):
                            continue
                        ap = assign_parts(t)
                        if ap and isinstance(ap[0], ast.Subscript) and is_name(ap[0].value, arr):
                            dst = arr_slice(ap[0], arr, env, var)
                            if dst is None:
                                fail(t, "the exponentiated slice must be <array>[..., start:stop]")
                            ex = pow10_exponent(ap[1])
                            if ex is None:
                                fail(t, "the slice must be assigned 10 ** (the same slice)")
                            src_sl = held.get(ex.id) if is_name(ex) else arr_slice(ex, arr, env, var)
                            if src_sl != dst:
                                fail(t, "the slice must be assigned 10 ** (the same slice)")
                            if site is not None:
                                fail(t, "two exponentiations in one iteration")
                            site = dst
                            continue
                        # chunk = <array>[..., start:stop]   (a named intermediate: the slice it names is fixed here)
                        if ap and is_name(ap[0]) and isinstance(ap[1], ast.Subscript) and is_name(ap[1].value, arr) \
                                and arr_slice(ap[1], arr, env, var) is not None and ap[0].id not in env:
                            if site is not None or ap[0].id in held:
                                fail(t, "the working array is read again after it was exponentiated")
                            held[ap[0].id] = arr_slice(ap[1], arr, env, var)
                            continue
                        if int_stmt(t, env, var):
                            continue
                        fail(t, "statement under `if var.logarithmic` is not a listed shape")
                    continue
                if int_stmt(s, env, var):
                    continue
                fail(s, "convert_to_parameters: statement in the loop is not a listed shape")
            if site is None:
                fail(loop, "no exponentiation under `if var.logarithmic`")
            # the offset name is the one the slice depends on
            if site[0][1] or site[1][1] or len(offs) == 1:
                res = (a_name, site, env[a_name])
                break
        if res is None:
            fail(loop, "convert_to_parameters: no running offset found")
        a_name, site, step = res
        # statements under `if var.logarithmic` may also have moved integers: they must not (offset moves
        # unconditionally) - re-run without the block and compare
        env = {k: v for k, v in env0.items()}
        env[a_name] = (0, 1, 0)
        for s in line:
            if isinstance(s, ast.If) or skip_stmt(s):
                continue
            int_stmt(s, env, var)
        if env[a_name] != step:
            fail(loop, "the running offset moves differently for logarithmic and linear variables")
        a0s.append(env0[a_name][0])
        forms = (site[0], site[1], step)
        if base_of(cls) == SCALAR:
            forms = tuple(at_width_one(f) for f in forms)
        return f"(mkCBranch {width_of(cls)} {clin(forms[0])} {clin(forms[1])} {clin(forms[2])})"

    branches = {}
    for cls in (SCALAR, SHARED):
        try:
            branches[cls] = run(cls)
        except Refused:
            fail(loop, f"convert_to_parameters refuses class {cls}")
    a0 = a0s[0]
    if any(a != a0 for a in a0s):
        fail(loop, "convert_to_parameters: two running offsets")
    branches["tests"] = walk_tree(fn, loop, var, run, branches, width_only=True)
    return copy, a0, branches


# ------------------------------------------------------------------------------------------ update_processor


def is_deepcopy_of(e, name):
    return (isinstance(e, ast.Call) and u(e.func) in ("copy.deepcopy", "deepcopy") and len(e.args) == 1
            and not e.keywords and is_name(e.args[0], name))


def param_selection(v, env, var, one):
    """parameter[i] | parameter[s:t] (| a copy of it) -> (Coq selection, does it depend on the running offset) or None"""
    # a copy of the element / slice carries the same values (C06 repair: parameter[start:stop].copy())
    if isinstance(v, ast.Call) and not v.keywords:
        if isinstance(v.func, ast.Attribute) and v.func.attr == "copy" and not v.args:
            v = v.func.value
        elif isinstance(v.func, ast.Attribute) and is_name(v.func.value, "np") \
                and v.func.attr in ("copy", "array") and len(v.args) == 1:
            v = v.args[0]
    if not (isinstance(v, ast.Subscript) and is_name(v.value, "parameter")):
        return None
    if isinstance(v.slice, ast.Slice):
        if v.slice.step is not None or v.slice.lower is None or v.slice.upper is None:
            fail(v, "the slice must be parameter[start:stop]")
        lo, hi = lin_of(v.slice.lower, env, var), lin_of(v.slice.upper, env, var)
        return f"(USlice {clin(one(lo))} {clin(one(hi))})", lo[1] or hi[1]
    l = lin_of(v.slice, env, var)
    return f"(UIndex {clin(one(l))})", l[1]


def update(tree):
    fn = find_func(tree, "update_processor", CLS)
    params = [a.arg for a in fn.args.args]
    if params != ["self", "parameter", "processor"]:
        fail(fn, "update_processor signature")
    stmts = body_no_doc(fn)
    i, loop, var = loop_over_variables(fn, stmts)
    env0, target, copy = {}, None, None
    for s in stmts[:i]:
        if skip_stmt(s):
            continue
        ap = assign_parts(s)
        if ap and is_name(ap[0]) and is_deepcopy_of(ap[1], "processor"):
            target, copy = ap[0].id, True
            continue
        if ap and is_name(ap[0]) and is_name(ap[1], "processor"):
            target, copy = ap[0].id, False
            continue
        if int_stmt(s, env0, var):
            continue
        fail(s, "update_processor: statement before the loop is not a listed shape")
    if target is None:
        target, copy = "processor", False
    tail = [s for s in stmts[i + 1:] if not skip_stmt(s)]
    if not (len(tail) == 1 and isinstance(tail[0], ast.Return) and is_name(tail[0].value, target)):
        fail(fn, "update_processor must return the processor it configured right after the loop")
    a0s = []

    def run(cls):
        line = flatten(loop.body, var, cls)
        one = at_width_one if base_of(cls) == SCALAR else (lambda l: l)
        res = None
        for a_name in [k for k, v in env0.items() if v[1:] == (0, 0)]:
            env = dict(env0)
            env[a_name] = (0, 1, 0)
            sel = None
            held = {}
            for s in line:
                if skip_stmt(s):
                    continue
                ap = assign_parts(s)
                if ap and is_name(ap[0]) and ap[0].id not in env and ap[0].id != target \
                        and param_selection(ap[1], env, var, one) is not None:
                    if ap[0].id in held:
                        fail(s, "a selection of `parameter` is bound twice")
                    held[ap[0].id] = param_selection(ap[1], env, var, one)
                    continue
                if isinstance(s, ast.Expr) and isinstance(s.value, ast.Call) and isinstance(s.value.func, ast.Attribute) \
                        and s.value.func.attr == "set":
                    c = s.value
                    if not is_name(c.func.value, target):
                        fail(s, ".set on something that is not the processor to be returned")
                    kws = {k.arg: k.value for k in c.keywords}
                    for name, a in zip(("key", "value"), c.args):           # Processor.set(key, value)
                        if name in kws:
                            fail(s, ".set gets an argument twice")
                        kws[name] = a
                    if len(c.args) > 2 or set(kws) != {"key", "value"} or not is_attr(kws["key"], var, "key"):
                        fail(s, ".set must be called as set(key=var.key, value=...)")
                    v = kws["value"]
                    got = held.get(v.id) if is_name(v) else param_selection(v, env, var, one)
                    if got is None:
                        fail(s, "the value set is not an element / slice of `parameter`")
                    if sel is not None:
                        fail(s, "two .set calls in one iteration")
                    sel, dep = got
                    continue
                if int_stmt(s, env, var):
                    continue
                fail(s, "update_processor: statement in the loop is not a listed shape")
            if sel is None:
                fail(loop, f"update_processor: class {cls} is not handed to Processor.set")
            if dep or len(env0) == 1:
                res = (a_name, sel, env[a_name])
                break
        if res is None:
            # two integer names start at a constant (a, b = 0, 0): the offset is the one the selection uses
            fail(loop, "update_processor: no running offset found")
        a_name, sel, step = res
        a0s.append(env0[a_name][0])
        return f"(mkUBranch {width_of(cls)} {sel} {clin(one(step))})"

    branches = {}
    for cls in (SCALAR, SHARED):
        try:
            branches[cls] = run(cls)
        except Refused:
            fail(loop, f"update_processor refuses class {cls}")
    a0 = a0s[0]
    if any(a != a0 for a in a0s):
        fail(loop, "update_processor: two running offsets")
    branches["tests"] = walk_tree(fn, loop, var, run, branches)
    return copy, a0, branches


# ------------------------------------------------------------------------------------------ __init__, fitness, getters


def init_and_fitness(tree):
    init = find_func(tree, "__init__", CLS)
    # lower, upper = self._set_bound(); self._lower_boundaries = lower; self._upper_boundaries = upper
    # data flow of the pair: names / attributes of self that hold the pair or its element k
    pair, attrs, procs_copy = None, {}, None
    holds = {}                       # local name -> "pair" | 0 | 1
    for s in ast.walk(init):
        ap = assign_parts(s) if isinstance(s, (ast.Assign, ast.AnnAssign)) else None
        if not ap:
            continue
        t, v = ap
        what = None
        if isinstance(v, ast.Call) and u(v.func) == "self._set_bound" and not v.args and not v.keywords:
            what = pair = "pair"
        elif is_name(v) and v.id in holds:
            what = holds[v.id]
        elif isinstance(v, ast.Subscript) and is_name(v.value) and holds.get(v.value.id) == "pair" \
                and isinstance(v.slice, ast.Constant) and v.slice.value in (0, 1, -1, -2) \
                and not isinstance(v.slice.value, bool):
            what = v.slice.value % 2
        if what is not None:
            dests = [(t, what)]
            if isinstance(t, ast.Tuple):
                if what != "pair" or len(t.elts) != 2:
                    fail(s, "__init__: result of _set_bound() is not unpacked into two parts")
                dests = [(t.elts[0], 0), (t.elts[1], 1)]
            for d, w in dests:
                if is_name(d):
                    if d.id in holds and holds[d.id] != w:
                        fail(s, "__init__: a name holds two different parts of the result of _set_bound()")
                    holds[d.id] = w
                elif isinstance(d, ast.Attribute) and is_name(d.value, "self") and w != "pair":
                    if d.attr in attrs and attrs[d.attr] != w:
                        fail(s, "__init__: an attribute is assigned two different boundary lists")
                    attrs[d.attr] = w
                else:
                    fail(s, "__init__: the result of _set_bound() goes somewhere that is not a listed shape")
            continue
        if is_name(t) and t.id in holds or isinstance(t, ast.Attribute) and is_name(t.value, "self") and t.attr in attrs:
            fail(s, "__init__: a holder of the boundary lists is assigned something else")
        if is_name(t) and isinstance(v, ast.List) and len(v.elts) == 1 and isinstance(v.elts[0], ast.Call) \
                and u(v.elts[0].func) in ("deepcopy", "copy.deepcopy", "copy.copy", "copy"):
            if not (len(v.elts[0].args) == 1 and is_name(v.elts[0].args[0], "processor")):
                fail(s, "__init__: copy of something that is not the processor")
            procs_copy = (t.id, u(v.elts[0].func) in ("deepcopy", "copy.deepcopy"))
        elif is_name(t) and isinstance(v, ast.List) and len(v.elts) == 1 and is_name(v.elts[0], "processor"):
            procs_copy = (t.id, False)
    if pair is None:
        fail(init, "__init__ does not call self._set_bound()")
    if procs_copy is None:
        fail(init, "__init__: the processor list is not [deepcopy(processor)] / [processor]")
    stored = [s for s in ast.walk(init) if isinstance(s, (ast.Assign, ast.AnnAssign)) and assign_parts(s)
              and isinstance(assign_parts(s)[0], ast.Attribute) and assign_parts(s)[0].attr == "param_processor_list"]
    if len(stored) != 1 or not is_name(assign_parts(stored[0])[1], procs_copy[0]):
        fail(init, "__init__: param_processor_list is not the list built from the processor")
    gb = find_func(tree, "get_bounds", CLS)
    ret = body_no_doc(gb)
    if not (len(ret) == 1 and isinstance(ret[0], ast.Return) and isinstance(ret[0].value, ast.Tuple)
            and len(ret[0].value.elts) == 2):
        fail(gb, "get_bounds must return a pair of attributes")
    order = []
    for e in ret[0].value.elts:
        if not (isinstance(e, ast.Attribute) and is_name(e.value, "self") and e.attr in attrs):
            fail(gb, "get_bounds returns something that __init__ did not take from _set_bound()")
        order.append(attrs[e.attr])
    if order != [0, 1]:
        fail(gb, "get_bounds does not return (lower, upper) in the order _set_bound() produced them")

    fit = find_func(tree, "fitness", CLS)
    x = fit.args.args[1].arg
    conv_names, fit_converts, n_upd = set(), None, 0
    for s in ast.walk(fit):
        ap = assign_parts(s) if isinstance(s, (ast.Assign, ast.AnnAssign)) else None
        if ap and is_name(ap[0]) and isinstance(ap[1], ast.Call) and u(ap[1].func) == "self.convert_to_parameters":
            if not (len(ap[1].args) == 1 and is_name(ap[1].args[0], x) and not ap[1].keywords):
                fail(s, "fitness: convert_to_parameters is not applied to the decision vector")
            conv_names.add(ap[0].id)
    for c in ast.walk(fit):
        if isinstance(c, ast.Call) and u(c.func) == "self.update_processor":
            n_upd += 1
            kws = bind_args(c, ("parameter", "processor"))
            if kws is None:
                fail(c, "fitness: update_processor must be called with (parameter, processor)")
            pv = kws["parameter"]
            if is_name(pv) and pv.id in conv_names or isinstance(pv, ast.Call) \
                    and u(pv.func) == "self.convert_to_parameters" and len(pv.args) == 1 and not pv.keywords \
                    and is_name(pv.args[0], x):
                fit_converts = True
            elif is_name(pv, x):
                fit_converts = False
            else:
                fail(c, "fitness: update_processor gets neither the converted nor the raw decision vector")
    if n_upd != 1:
        fail(fit, f"fitness: expected one call of update_processor, found {n_upd}")
    # a name bound to the converted vector must not be rebound
    for s in ast.walk(fit):
        if isinstance(s, (ast.AugAssign,)) and is_name(s.target) and s.target.id in conv_names:
            fail(s, "fitness: the converted vector is modified before it is applied")
    return procs_copy[1], fit_converts


def parameter_values(tree):
    cls = [n for n in ast.walk(tree) if isinstance(n, ast.ClassDef) and n.name == "ParameterValues"]
    if len(cls) != 1:
        fail(tree, "class ParameterValues")
    init = find_func(tree, "__init__", "ParameterValues")
    arr, rows = None, None
    touching = []
    for s in ast.walk(init):
        if isinstance(s, ast.stmt) and not isinstance(s, (ast.If, ast.FunctionDef, ast.For, ast.While, ast.With, ast.Try)):
            names = {n.id for n in ast.walk(s) if isinstance(n, ast.Name)}
            touching.append((s, names))
    # boundaries_array = np.array(boundaries, dtype=np.float64)
    for s, names in touching:
        ap = assign_parts(s)
        if ap and is_name(ap[0]) and isinstance(ap[1], ast.Call) and u(ap[1].func) in ("np.array", "numpy.array") \
                and len(ap[1].args) == 1 and is_name(ap[1].args[0], "boundaries"):
            if [k for k in ap[1].keywords if k.arg != "dtype"]:
                fail(s, "ParameterValues: np.array(boundaries) with unlisted keywords")
            arr = ap[0].id
    if arr is None:
        fail(init, "ParameterValues.__init__: boundaries are not kept as np.array(boundaries, ...)")
    stored = 0
    # names that hold the array (or None): the array's own name and plain copies of it
    holders = {arr}
    for _ in range(3):
        for s, names in touching:
            ap = assign_parts(s)
            if ap and is_name(ap[0]) and is_name(ap[1]) and ap[1].id in holders:
                holders.add(ap[0].id)
    for s, names in touching:
        if not (holders & names):
            continue
        ap = assign_parts(s)
        if ap and is_name(ap[0]) and ap[0].id in holders:
            v = ap[1]
            if isinstance(v, ast.Constant) and v.value is None:
                continue
            if isinstance(v, ast.Call) and u(v.func) in ("np.array", "numpy.array") and ap[0].id == arr:
                continue
            if is_name(v) and v.id in holders:
                continue
            fail(s, "ParameterValues.__init__: the boundaries array is rebound after it was created")
        if ap and isinstance(ap[0], ast.Attribute) and is_name(ap[0].value, "self") and is_name(ap[1]) \
                and ap[1].id in holders:
            if ap[0].attr != "_boundaries":
                fail(s, "ParameterValues.__init__: the boundaries array is kept under another attribute")
            stored += 1
            continue
        if isinstance(s, ast.Raise):
            continue
        fail(s, "ParameterValues.__init__: statement on the boundaries array is not a listed shape")
    if stored != 1:
        fail(init, "ParameterValues.__init__: self._boundaries is not assigned exactly once from the array")
    # if A.shape != (len(values), 2): raise   under   A.ndim == 2
    for n in ast.walk(init):
        if isinstance(n, ast.Compare) and len(n.ops) == 1 and isinstance(n.ops[0], ast.NotEq) \
                and isinstance(n.left, ast.Attribute) and n.left.attr == "shape" and is_name(n.left.value, arr) \
                and isinstance(n.comparators[0], ast.Tuple) and len(n.comparators[0].elts) == 2:
            r, c = n.comparators[0].elts
            if not (isinstance(c, ast.Constant) and c.value == 2):
                fail(n, "ParameterValues: 2-D boundaries must have two columns")
            if isinstance(r, ast.Call) and is_name(r.func, "len") and len(r.args) == 1 and is_name(r.args[0], "values"):
                rows = "WLen"
            elif isinstance(r, ast.Constant) and isinstance(r.value, int) and r.value >= 0:
                rows = f"(WConst {r.value})"
            else:
                fail(n, "ParameterValues: the row count of 2-D boundaries is not len(values) or a literal")
    if rows is None:
        fail(init, "ParameterValues.__init__: no shape test `!= (len(values), 2)` on 2-D boundaries")
    # the read-only properties used by the walks
    getter = None
    for prop, attr in (("boundaries", "_boundaries"), ("values", "_values"), ("logarithmic", "_logarithmic"),
                       ("key", "_key")):
        fns = [f for f in cls[0].body if isinstance(f, ast.FunctionDef) and f.name == prop
               and any(u(d) == "property" for d in f.decorator_list)]
        if len(fns) != 1:
            fail(cls[0], f"ParameterValues.{prop}: expected one property getter")
        b = body_no_doc(fns[0])
        if not (len(b) == 1 and isinstance(b[0], ast.Return)):
            fail(fns[0], f"ParameterValues.{prop}: the getter must be a single return")
        r = b[0].value
        if is_attr(r, "self", attr):
            kind = "GAlias"
        elif prop == "boundaries" and (
                isinstance(r, ast.Call) and isinstance(r.func, ast.Attribute) and r.func.attr == "copy"
                and is_attr(r.func.value, "self", attr) and not r.args
                or isinstance(r, ast.Call) and u(r.func) in ("np.array", "np.copy", "copy.deepcopy", "deepcopy")
                and len(r.args) == 1 and is_attr(r.args[0], "self", attr) and not r.keywords):
            kind = "GCopy"
        else:
            fail(fns[0], f"ParameterValues.{prop}: the getter does not return self.{attr}")
        if prop == "boundaries":
            getter = kind
        if any(isinstance(f, ast.FunctionDef) and f.name == prop
               and any(u(d) == f"{prop}.setter" for d in f.decorator_list) for f in cls[0].body):
            fail(cls[0], f"ParameterValues.{prop} has a setter")
    return rows, getter


# ------------------------------------------------------------------------------------------ reporting

AR = "pyxel/calibration/archipelago_datatree.py"
ARCLS = "ArchipelagoDataTree"


def is_item(n, base, keyname):
    """<base>["<keyname>"]"""
    return (isinstance(n, ast.Subscript) and is_name(n.value, base) and isinstance(n.slice, ast.Constant)
            and n.slice.value == keyname)


def dataarray_arg(v):
    """xr.DataArray(<e>, ...) -> <e>"""
    if isinstance(v, ast.Call) and u(v.func) in ("xr.DataArray", "xarray.DataArray", "DataArray") and v.args:
        return v.args[0]
    return None


def convert_arg(e):
    """self.problem.convert_to_parameters(<e>) -> <e>"""
    if isinstance(e, ast.Call) and u(e.func) == "self.problem.convert_to_parameters" and len(e.args) == 1 \
            and not e.keywords:
        return e.args[0]
    return None


def bind_args(call, params, others=False):
    """the arguments of a call by parameter name (positional in the order of `params`, or keywords) -> dict or None;
    others: further keyword arguments are allowed"""
    if len(call.args) > len(params) or any(isinstance(a, ast.Starred) for a in call.args):
        return None
    out = dict(zip(params, call.args))
    for k in call.keywords:
        if k.arg is None or k.arg in out:
            return None
        if k.arg in params:
            out[k.arg] = k.value
        elif not others:
            return None
    return out if set(out) == set(params) else None


def single_defs(stmts):
    """names bound exactly once in the statements (nested blocks included), by a plain `n = e` at the top level of
    the list -> {n: e}.  (Data flow through such a name: what is stored under the name is the value of e.)"""
    counts = {}
    for s in stmts:
        for n in ast.walk(s):
            if isinstance(n, ast.Name) and isinstance(n.ctx, (ast.Store, ast.Del)):
                counts[n.id] = counts.get(n.id, 0) + 1
    out = {}
    for s in stmts:
        ap = assign_parts(s)
        if ap and is_name(ap[0]) and counts.get(ap[0].id) == 1:
            out[ap[0].id] = ap[1]
    return out


def deref(e, defs):
    """follow single-assignment names to the expression they were bound to"""
    seen = 0
    while isinstance(e, ast.Name) and e.id in defs and seen < 20:
        e, seen = defs[e.id], seen + 1
    return e


def root_name(e, defs):
    """the first name of a chain of plain copies n1 = n2 = ... = <expression>"""
    seen = 0
    while is_name(e) and e.id in defs and is_name(defs[e.id]) and seen < 20:
        e, seen = defs[e.id], seen + 1
    return e.id


def reporting(ar_tree, fd_tree):
    """-> (champion parameters are the conversion of the champion decisions,
           best parameters are the conversion of the best decisions,
           the final pipeline runs get the reported parameters,
           the island's row handed to update_processor stays 1-D whatever its length)"""
    # ---- _get_champions
    fn = find_func(ar_tree, "_get_champions", ARCLS)
    ds, stored = None, {}
    defs = single_defs(body_no_doc(fn))
    for s in body_no_doc(fn):
        ap = assign_parts(s)
        if not ap:
            continue
        t, v = ap
        if isinstance(t, ast.Subscript) and is_name(t.value) and isinstance(t.slice, ast.Constant):
            ds = ds or t.value.id
            if t.value.id != ds:
                fail(s, "_get_champions fills two datasets")
            if t.slice.value in stored:
                fail(s, "_get_champions stores a variable twice")
            stored[t.slice.value] = v
    ret = body_no_doc(fn)[-1]
    if not (isinstance(ret, ast.Return) and is_name(ret.value, ds)):
        fail(fn, "_get_champions must return the dataset it filled")
    dec = dataarray_arg(stored.get("champion_decision"))
    dec_v = deref(dec, defs)
    if not (isinstance(dec_v, ast.Call) and u(dec_v.func) == "self._pygmo_archi.get_champions_x" and not dec_v.args
            and not dec_v.keywords):
        fail(fn, "champion_decision is not the archipelago's get_champions_x()")
    par = dataarray_arg(stored.get("champion_parameters"))
    if par is None:
        fail(fn, "champion_parameters is not stored as a DataArray")
    par = deref(par, defs)
    src = convert_arg(par)
    e = src if src is not None else par
    if not (is_item(e, ds, "champion_decision") or is_name(dec) and is_name(e)
            and root_name(e, defs) == root_name(dec, defs)):
        fail(fn, "champion_parameters is not computed from champion_decision")
    champion = src is not None
    # ---- get_best_individuals
    fn = find_func(ar_tree, "get_best_individuals", ARCLS)
    loops = [s for s in body_no_doc(fn) if isinstance(s, ast.For)]
    if len(loops) != 1:
        fail(fn, "get_best_individuals: expected one loop over the islands")
    xs, ds, stored = None, None, {}
    defs = single_defs(loops[0].body)
    for s in loops[0].body:
        ap = assign_parts(s)
        if not ap:
            continue
        t, v = ap
        if is_name(t) and isinstance(v, ast.Call) and isinstance(v.func, ast.Attribute) and v.func.attr == "get_x" \
                and not v.args and t.id in defs:
            if xs is not None:
                fail(s, "get_best_individuals reads two populations")
            xs = t.id
        elif isinstance(t, ast.Subscript) and is_name(t.value) and isinstance(t.slice, ast.Constant) \
                and str(t.slice.value).startswith("best_"):
            ds = ds or t.value.id
            if t.value.id != ds or t.slice.value in stored:
                fail(s, "get_best_individuals stores a variable twice / in two datasets")
            stored[t.slice.value] = v
    dec = dataarray_arg(stored.get("best_decision"))
    if xs is None or not is_name(dec, xs):
        fail(fn, "best_decision is not the population's get_x()")
    par = dataarray_arg(stored.get("best_parameters"))
    if par is None:
        fail(fn, "best_parameters is not stored as a DataArray")
    par = deref(par, {k: v for k, v in defs.items() if k != xs})
    if convert_arg(par) is not None and is_name(convert_arg(par), xs):
        best = True
    elif is_name(par, xs):
        best = False
    else:
        fail(fn, "best_parameters is not computed from the decision vectors of the population")
    # ---- run_evolve: the final application
    fn = find_func(ar_tree, "run_evolve", ARCLS)
    calls = [c for c in ast.walk(fn) if isinstance(c, ast.Call)
             and u(c.func) == "self.problem.apply_parameters_to_processors"]
    kws = bind_args(calls[0], ("parameters",)) if len(calls) == 1 else None
    if kws is None:
        fail(fn, "run_evolve: expected one apply_parameters_to_processors(parameters=...)")
    a = deref(kws["parameters"], single_defs(body_no_doc(fn)))
    if not (isinstance(a, ast.Subscript) and is_name(a.value) and isinstance(a.slice, ast.Constant)
            and a.slice.value in ("champion_parameters", "champion_decision")):
        fail(a, "run_evolve: the parameters applied at the end are not the champions'")
    last = a.value.id
    ok_last = False
    for s in ast.walk(fn):
        ap = assign_parts(s) if isinstance(s, (ast.Assign, ast.AnnAssign)) else None
        if ap and is_name(ap[0], last):
            v = ap[1]
            if isinstance(v, ast.Call) and isinstance(v.func, ast.Attribute) and v.func.attr == "isel" and not v.args \
                    and [k.arg for k in v.keywords] == ["evolution"] and u(v.keywords[0].value) == "-1":
                ok_last = True
            else:
                fail(s, "run_evolve: the champions applied at the end are not those of the last evolution")
    if not ok_last:
        fail(fn, "run_evolve: the champions applied at the end are not those of the last evolution")
    final = a.slice.value == "champion_parameters"
    # ---- fitting_datatree: apply_parameters_to_processors -> _apply_parameters -> update_processor -> run_pipeline
    ap_fn = find_func(fd_tree, "_apply_parameters", CLS)
    upd = [c for c in ast.walk(ap_fn) if isinstance(c, ast.Call) and u(c.func) == "self.update_processor"]
    if len(upd) != 1:
        fail(ap_fn, "_apply_parameters: expected one call of update_processor")
    kws = bind_args(upd[0], ("parameter", "processor"))
    if kws is None or not is_name(kws["parameter"], "parameter") or not is_name(kws["processor"], "processor"):
        fail(upd[0], "_apply_parameters must call update_processor(parameter=parameter, processor=processor)")
    defs = single_defs(body_no_doc(ap_fn))
    runs = [c for c in ast.walk(ap_fn) if isinstance(c, ast.Call) and u(c.func) == "run_pipeline"]
    if len(runs) != 1:
        fail(ap_fn, "_apply_parameters: expected one call of run_pipeline")
    rk = bind_args(runs[0], ("processor",), others=True)
    if rk is None or deref(rk["processor"], defs) is not upd[0]:
        fail(ap_fn, "_apply_parameters: run_pipeline does not get the processor returned by update_processor")
    ap_all = find_func(fd_tree, "apply_parameters_to_processors", CLS)
    inner = [c for c in ast.walk(ap_all) if isinstance(c, ast.Call) and isinstance(c.func, ast.Call)
             and u(c.func.func) == "delayed" and len(c.func.args) == 1 and u(c.func.args[0]) == "self._apply_parameters"]
    if len(inner) != 1:
        fail(ap_all, "apply_parameters_to_processors: expected one delayed(self._apply_parameters)(...)")
    kws = bind_args(inner[0], ("processor", "parameter"))
    if kws is None:
        fail(inner[0], "apply_parameters_to_processors: _apply_parameters is not called with (processor, parameter)")
    ok_param, grp, keeps_1d = False, None, False
    for s in ast.walk(ap_all):
        if isinstance(s, ast.For) and isinstance(s.iter, ast.Call) and isinstance(s.iter.func, ast.Attribute) \
                and s.iter.func.attr == "groupby" and is_name(s.iter.func.value, "parameters") \
                and len(s.iter.args) == 1 and isinstance(s.iter.args[0], ast.Constant) and s.iter.args[0].value == "island" \
                and isinstance(s.target, ast.Tuple) and len(s.target.elts) == 2 and is_name(s.target.elts[1]):
            if grp is not None:
                fail(s, "apply_parameters_to_processors: two loops over the islands")
            grp, grp_loop = s.target.elts[1].id, s
    if grp is not None:
        # the island's row of `parameters` as a numpy array: <group>.squeeze().to_numpy() and variants, possibly through
        # names bound once in the loop over the islands
        from .c10_norm import Subst
        defs = {k: v for k, v in single_defs(grp_loop.body).items() if k not in (grp, "np")}
        e = kws["parameter"]
        for _ in range(6):
            e = Subst(defs).visit(copy.deepcopy(e))
        names_in = {n.id for n in ast.walk(e) if isinstance(n, ast.Name)}
        calls = [c for c in ast.walk(e) if isinstance(c, ast.Call) and isinstance(c.func, ast.Attribute)]
        attrs = {c.func.attr for c in calls}
        ok_param = names_in <= {grp, "np"} and grp in names_in \
            and attrs <= {"squeeze", "to_numpy", "asarray", "array", "ravel", "atleast_1d", "isel", "reshape"}
        # a bare .squeeze() also drops a parameter axis of length one (-> 0-d array); the row stays 1-D when the
        # squeeze names the island dimension, or the result is made 1-D again
        bare = any(c.func.attr == "squeeze" and not c.args and not c.keywords for c in calls)
        for c in calls:
            if c.func.attr == "squeeze" and (c.args or c.keywords):
                dims = [u(a) for a in c.args] + [u(k.value) for k in c.keywords]
                if dims != ["'island'"]:
                    ok_param = False
            if c.func.attr == "isel" and (c.args or [k.arg for k in c.keywords] != ["island"]):
                ok_param = False
            if c.func.attr == "reshape" and [u(a) for a in c.args] != ["-1"]:
                ok_param = False
        keeps_1d = (not bare) or bool(attrs & {"atleast_1d", "ravel", "reshape"})
    if not ok_param:
        fail(ap_all, "apply_parameters_to_processors: the island's row of `parameters` is not what is applied")
    return champion, best, final, keeps_1d


# ------------------------------------------------------------------------------------------ type tests of the walks


def mentions_values(test, var):
    """does the test look at var.values other than through len(var.values)?"""
    lens = {id(n.args[0]) for n in ast.walk(test) if is_len_values(n, var)}
    return any(is_var_values(n, var) and id(n) not in lens for n in ast.walk(test))


def ttest_of(test, var):
    """branch test on var.values -> (Coq ttest term, python evaluator (kind, n) -> bool)"""
    if isinstance(test, ast.Compare) and len(test.ops) == 1 and isinstance(test.ops[0], (ast.Eq, ast.NotEq)):
        a, b = test.left, test.comparators[0]
        if isinstance(a, ast.Constant):
            a, b = b, a
        if is_var_values(a, var) and isinstance(b, ast.Constant) and b.value == "_":
            eq = ("TEq", lambda k, n: k == "KUnd" or (k == "KArr" and n == 1))
            if isinstance(test.ops[0], ast.Eq):
                return eq
            return ("(TNot TEq)", lambda k, n: not eq[1](k, n))
    # type(var.values) is list / == list
    if isinstance(test, ast.Compare) and len(test.ops) == 1 and isinstance(test.ops[0], (ast.Is, ast.Eq)) \
            and isinstance(test.left, ast.Call) and is_name(test.left.func, "type") and len(test.left.args) == 1 \
            and is_var_values(test.left.args[0], var):
        cs = py_classes(test.comparators[0])
        if cs and len(cs) == 1 and cs[0] != "CSeq":
            return (f"(TInst [{cs[0]}])", lambda k, n, cs=cs: KIND_INST[k][cs[0]])
    if (isinstance(test, ast.Call) and is_name(test.func, "isinstance") and len(test.args) == 2 and not test.keywords
            and is_var_values(test.args[0], var)):
        cs = py_classes(test.args[1])
        if cs is None:
            fail(test, "isinstance test on var.values with a class that is not listed")
        return (f"(TInst [{'; '.join(cs)}])", lambda k, n, cs=cs: any(KIND_INST[k][c] for c in cs))
    if class_test(test, var, SHARED) is True and isinstance(test, ast.Call) and is_name(test.func, "all"):
        return ("TAllPh", lambda k, n: True)
    if isinstance(test, ast.BoolOp):
        parts = [ttest_of(t, var) for t in test.values]
        con, py = ("TAnd", all) if isinstance(test.op, ast.And) else ("TOr", any)
        term = parts[-1][0]
        for t, _ in reversed(parts[:-1]):
            term = f"({con} {t} {term})"
        return (term, lambda k, n, parts=parts, py=py: py(f(k, n) for _, f in parts))
    if isinstance(test, ast.UnaryOp) and isinstance(test.op, ast.Not):
        t, f = ttest_of(test.operand, var)
        return (f"(TNot {t})", lambda k, n, f=f: not f(k, n))
    fail(test, "test on var.values is not one of the listed shapes")


# isinst of Model/DecisionKinds.v
KIND_INST = {
    "KUnd": dict(CList=False, CTuple=False, CStr=True, CArr=False, CSeq=True),
    "KList": dict(CList=True, CTuple=False, CStr=False, CArr=False, CSeq=True),
    "KTuple": dict(CList=False, CTuple=True, CStr=False, CArr=False, CSeq=True),
    "KStr": dict(CList=False, CTuple=False, CStr=True, CArr=False, CSeq=True),
    "KArr": dict(CList=False, CTuple=False, CStr=False, CArr=True, CSeq=False),
    "KSeq": dict(CList=False, CTuple=False, CStr=False, CArr=False, CSeq=True),
    "KIter": dict(CList=False, CTuple=False, CStr=False, CArr=False, CSeq=False),
}


def type_tree(stmts, var, fn):
    """The if / elif chains on var.values of a loop body as a decision tree.
    -> ("leaf", raises, id) | ("if", (term, evaluator), then, else)"""
    tests = [s for s in stmts if isinstance(s, ast.If) and mentions_values(s.test, var)]
    for s in stmts:
        if s in tests:
            continue
        for n in ast.walk(s):
            if isinstance(n, (ast.If, ast.IfExp, ast.While)) and mentions_values(n.test, var):
                fail(n, f"{fn.name}: a test on var.values below a statement that is not such a test")
            if isinstance(n, (ast.Try, ast.Match)):
                fail(n, f"{fn.name}: try / match in a walk over the variables")
    if not tests:
        return ("leaf", only_raises([s for s in stmts if not skip_stmt(s)]), object())
    if len(tests) > 1:
        fail(tests[1], f"{fn.name}: two separate chains of tests on var.values in one block")
    s = tests[0]
    return ("if", ttest_of(s.test, var), type_tree(s.body, var, fn), type_tree(s.orelse, var, fn))


def tree_leaf(tree, k, n):
    while tree[0] == "if":
        tree = tree[2] if tree[1][1](k, n) else tree[3]
    return tree


def emit_tree(tree, labels):
    if tree[0] == "leaf":
        return f"(GLeaf {labels.get(id(tree[2]), 'ORaise' if tree[1] else 'OSkip')})"
    return f"(GIf {tree[1][0]} {emit_tree(tree[2], labels)} {emit_tree(tree[3], labels)})"


KINDS = ["KUnd", "KList", "KTuple", "KStr", "KArr", "KSeq", "KIter"]
# canonical objects first: their leaves are labelled by what "_" and a list do
REPRESENTATIVES = [("KUnd", 1), ("KList", 2)] + [(k, n) for k in KINDS for n in (0, 1, 2) if (k == "KUnd") <= (n == 1)]


def leaf_label(run, branches, k, n):
    """What the walk does on the path an object of kind k with n placeholders takes, compared with what it does
    for "_" (branches[SCALAR]) and for a list (branches[SHARED])."""
    from harness.core import TranslationError

    for base, lab in ((SHARED, "OVector"), (SCALAR, "OScalar")):
        try:
            USED_LEN[0] = False
            # the scalar thing: the same forms as for "_" with a width that is the CONSTANT 1
            if run(("path", base, k, n)) == branches[base] and not (base == SCALAR and USED_LEN[0]):
                return lab
        except Refused:
            return "ORaise"
        except TranslationError:
            pass
    return "OSkip"


def walk_tree(fn, loop, var, run, branches, width_only=False):
    """-> Coq gtree of one walk: its if / elif chains on var.values as a decision tree; every leaf that some
    container reaches is labelled with what the walk does on that path - the scalar thing (what it does for "_"),
    the vector thing (what it does for a list), a refusal, or something else (OSkip: no branch taken, nothing
    assigned, a stale width ...).
    width_only: the walk uses nothing but the number of components (convert_to_parameters, the count of
    __init__); there "_" may share the branch of a list (len("_") = 1 component)."""
    tree = type_tree(loop.body, var, fn)
    ls, lv = tree_leaf(tree, "KUnd", 1), tree_leaf(tree, "KList", 2)
    if ls is lv and not width_only:
        fail(loop, f"{fn.name}: the string \"_\" and a list of placeholders take the same branch")
    labels = {}
    for k, n in REPRESENTATIVES:
        leaf = tree_leaf(tree, k, n)
        if id(leaf[2]) not in labels:
            labels[id(leaf[2])] = leaf_label(run, branches, k, n)
    if width_only and ls is lv:
        labels[id(ls[2])] = "OVector"          # len(var.values) components, 1 for "_"
    elif labels[id(ls[2])] != "OScalar" or labels[id(lv[2])] != "OVector":
        fail(loop, f"{fn.name}: the branches of \"_\" and of a list are not told apart")
    return emit_tree(tree, labels)


def init_count(fd_tree):
    """__init__: the count of parameters (a loop over self._variables at top level of the body) -> option gtree"""
    init = find_func(fd_tree, "__init__", CLS)
    loops = [s for s in body_no_doc(init) if isinstance(s, ast.For) and is_attr(s.iter, "self", "_variables")]
    if len(loops) > 1:
        fail(loops[1], "__init__: more than one loop over self._variables")
    if not loops:
        return "None"
    loop = loops[0]
    if not is_name(loop.target) or loop.orelse:
        fail(loop, "__init__: the loop must be `for <var> in self._variables:`")
    var = loop.target.id

    def run(cls):
        one = at_width_one if base_of(cls) == SCALAR else (lambda l: l)
        env, incs = {}, []
        for s in flatten(loop.body, var, cls):
            if skip_stmt(s):
                continue
            if isinstance(s, ast.AugAssign) and isinstance(s.op, ast.Add) and is_name(s.target) and s.target.id not in env:
                incs.append((s.target.id, one(lin_of(s.value, env, var))))     # the counter, bound before the loop
                continue
            if int_stmt(s, env, var):
                continue
            fail(s, "__init__: statement in the loop over the variables is not a listed shape")
        if len(incs) != 1:
            fail(loop, "__init__: the loop over the variables does not move exactly one counter")
        return incs[0]

    branches = {}
    for cls in (SCALAR, SHARED):
        try:
            branches[cls] = run(cls)
        except Refused:
            fail(loop, f"__init__: the count of parameters refuses class {cls}")
    if branches[SCALAR][1] != (1, 0, 0) or branches[SHARED][1] != (0, 0, 1) or branches[SCALAR][0] != branches[SHARED][0]:
        fail(loop, "__init__: the count of parameters is not 1 for \"_\" and len(var.values) for a list")
    return f"(Some {walk_tree(init, loop, var, run, branches, width_only=True)})"


CONTAINERS = {"list": "KList", "tuple": "KTuple", "np.array": "KArr", "np.asarray": "KArr", "numpy.array": "KArr"}


def container_of(e, env):
    """the kind of the OUTER container an expression of convert_values builds, or None"""
    if isinstance(e, (ast.ListComp, ast.List)):
        return "KList"
    if isinstance(e, ast.Tuple):
        return "KTuple"
    if isinstance(e, ast.Call) and u(e.func) in CONTAINERS and len(e.args) == 1:
        return CONTAINERS[u(e.func)]
    if isinstance(e, ast.Name):
        return env.get(e.id)
    return None


def convert_values_norm(pv_tree):
    """convert_values (parameter_values.py): which outer container `ParameterValues.values` is, per class of the
    container handed in -> norm_desc"""
    fn = find_func(pv_tree, "convert_values")
    params = [a.arg for a in fn.args.args]
    if len(params) != 2:
        fail(fn, "convert_values signature")
    vname, tname = params
    stmts = [s for s in body_no_doc(fn) if not skip_stmt(s)]
    keep_simple = keep_und = False
    # if parameter_type is ParameterType.Simple or values == "_": return values
    if stmts and isinstance(stmts[0], ast.If) and not stmts[0].orelse and len(stmts[0].body) == 1 \
            and isinstance(stmts[0].body[0], ast.Return) and is_name(stmts[0].body[0].value, vname):
        t = stmts[0].test
        for c in (t.values if isinstance(t, ast.BoolOp) and isinstance(t.op, ast.Or) else [t]):
            if isinstance(c, ast.Compare) and len(c.ops) == 1 and isinstance(c.ops[0], (ast.Is, ast.Eq)) \
                    and is_name(c.left, tname) and u(c.comparators[0]) == "ParameterType.Simple":
                keep_simple = True
            elif isinstance(c, ast.Compare) and len(c.ops) == 1 and isinstance(c.ops[0], ast.Eq) \
                    and is_name(c.left, vname) and isinstance(c.comparators[0], ast.Constant) \
                    and c.comparators[0].value == "_":
                keep_und = True
            else:
                fail(c, "convert_values: the guard of `return values` is not a listed shape")
        stmts = stmts[1:]
    env, rules, default = {}, [], None
    for s in stmts:
        ap = assign_parts(s)
        if ap and is_name(ap[0]):
            k = container_of(ap[1], env)
            if k is None:
                fail(s, "convert_values: assignment of something that is not a listed container")
            env[ap[0].id] = k
            continue
        if isinstance(s, ast.If) and not s.orelse and len(s.body) == 1 and isinstance(s.body[0], ast.Return) \
                and isinstance(s.test, ast.Call) and is_name(s.test.func, "isinstance") and len(s.test.args) == 2 \
                and is_name(s.test.args[0], vname):
            cs = py_classes(s.test.args[1])
            k = container_of(s.body[0].value, env)
            if cs is None or k is None:
                fail(s, "convert_values: `if isinstance(values, ...): return ...` with an unlisted class / container")
            rules += [(c, k) for c in cs]
            continue
        if isinstance(s, ast.For) and not s.orelse:
            # a loop that fills a list built before it (`out = []` ... `out.append(x)`): the outer container is unchanged
            stored = {n.id for n in ast.walk(s) if isinstance(n, ast.Name) and isinstance(n.ctx, (ast.Store, ast.Del))}
            touched = [n for n in ast.walk(s) if isinstance(n, ast.Attribute) and is_name(n.value) and n.value.id in env]
            if not (stored & (set(env) | {vname})) and all(env[n.value.id] == "KList" and n.attr in ("append", "extend")
                                                           for n in touched) \
                    and not any(isinstance(n, (ast.Return, ast.Subscript)) and (isinstance(n, ast.Return) or
                                is_name(n.value) and n.value.id in env and isinstance(n.ctx, (ast.Store, ast.Del)))
                                for n in ast.walk(s)):
                continue
            fail(s, "convert_values: loop is not a listed shape")
        if isinstance(s, ast.Return):
            default = container_of(s.value, env)
            if default is None:
                fail(s, "convert_values: the value returned is not a listed container")
            if s is not stmts[-1]:
                fail(s, "convert_values: statements after the final return")
            continue
        fail(s, "convert_values: statement is not a listed shape")
    if default is None:
        fail(fn, "convert_values: no final return of a container")
    # ParameterValues.__init__ keeps convert_values(values, ...) and nothing else under self._values
    init = find_func(pv_tree, "__init__", "ParameterValues")
    kept = [assign_parts(s) for s in ast.walk(init) if isinstance(s, (ast.Assign, ast.AnnAssign)) and assign_parts(s)
            and is_attr(assign_parts(s)[0], "self", "_values")]
    if len(kept) != 1 or not (isinstance(kept[0][1], ast.Call) and is_name(kept[0][1].func, "convert_values")
                              and kept[0][1].args and is_name(kept[0][1].args[0], "values")):
        fail(init, "ParameterValues.__init__: self._values is not convert_values(values, ...)")
    rl = "[" + "; ".join(f"({c}, {k})" for c, k in rules) + "]"
    return f"(mkNorm {cb(keep_simple)} {cb(keep_und)} {rl} {default})"


# ------------------------------------------------------------------------------------------ emission

PRELUDE = ("From Coq Require Import List Bool Arith String.\n"
           "From PyxelV Require Import Model.Decision Model.DecisionSrc Model.DecisionKinds.\n"
           "Import ListNotations.\n")


def cb(b: bool) -> str:
    return "true" if b else "false"


def emit_kinds(norm, sb, init, cv, up) -> str:
    return ("Definition src_kinds : kdesc :=\n"
            f"  mkKd {norm}\n"
            f"    {sb}\n    {init}\n    {cv}\n    {up}.\n")


def emit(rows, getter, sb, cv, up, init_copy, fit_conv, rep) -> str:
    cvc, cva0, cvb = cv
    upc, upa0, upb = up
    return (HEADER + PRELUDE +
            "Definition src_desc : wdesc :=\n"
            f"  mkDesc {rows}\n"
            f"    (mkSb {sb[SCALAR]}\n          {sb[SHARED]}\n          {sb[PERCOMP]}\n          {getter})\n"
            f"    (mkCv {cb(cvc)} {cva0} {cvb[SCALAR]} {cvb[SHARED]})\n"
            f"    (mkUp {cb(upc)} {upa0} {upb[SCALAR]} {upb[SHARED]})\n"
            f"    {cb(init_copy)} {cb(fit_conv)}.\n"
            f"Definition src_report : rp_desc := mkRp {cb(rep[0])} {cb(rep[1])} {cb(rep[2])} {cb(rep[3])}.\n")


# functions the translator anchors on (read as they are, never inlined into their callers)
ANCHORS = ("_set_bound", "convert_to_parameters", "update_processor", "_apply_parameters",
           "apply_parameters_to_processors", "get_bounds", "fitness", "_get_champions", "get_best_individuals",
           "run_evolve", "convert_values", "build_processors", "run_pipeline")


def parse_norm(repo: Path, rel: str) -> ast.Module:
    """the module after the behaviour-preserving normalisations of translator/c10_norm.py"""
    from .c10_norm import normalise

    tree = parse(repo, rel)
    try:
        return normalise(tree, repo, ANCHORS)
    except Exception:  # noqa: BLE001  (the source is then read as it is written; unknown shapes fail closed)
        return tree


def translate(repo: Path) -> str:
    fd = parse_norm(repo, FD)
    pv = parse_norm(repo, PV)
    rows, getter = parameter_values(pv)
    sb = set_bound(fd)
    cv = convert(fd)
    up = update(fd)
    init_copy, fit_conv = init_and_fitness(fd)
    rep = reporting(parse_norm(repo, AR), fd)
    return emit(rows, getter, sb, cv, up, init_copy, fit_conv, rep) + \
        emit_kinds(convert_values_norm(pv), sb["tests"], init_count(fd), cv[2]["tests"], up[2]["tests"])


# the description of the unchanged tree; used only to keep a model available for the failing-input search
# when the translation itself fails (the failed translation is already a broken obligation)
FALLBACK = (HEADER + PRELUDE + "Definition src_desc : wdesc := desc_as_coded.\n"
            "Definition src_report : rp_desc := mkRp true true true true.\n"
            "Definition src_kinds : kdesc := kinds_as_coded.\n")
