"""Fail-closed helpers for the python-ast -> Gallina table translators."""
from __future__ import annotations

import ast
from pathlib import Path

from harness.core import TranslationError


def parse(repo: Path, rel: str) -> ast.Module:
    p = repo / rel
    if not p.exists():
        raise TranslationError(f"{rel}: file not found")
    try:
        return ast.parse(p.read_text(), filename=str(p))
    except SyntaxError as ex:
        raise TranslationError(f"{rel}: {ex}") from ex


def find_func(tree: ast.AST, name: str, cls: str | None = None) -> ast.FunctionDef:
    scope = tree
    if cls is not None:
        cands = [n for n in ast.walk(tree) if isinstance(n, ast.ClassDef) and n.name == cls]
        if len(cands) != 1:
            raise TranslationError(f"class {cls}: found {len(cands)}")
        scope = cands[0]
    cands = [n for n in scope.body if isinstance(n, ast.FunctionDef) and n.name == name]  # type: ignore[attr-defined]
    if len(cands) != 1:
        raise TranslationError(f"function {cls + '.' if cls else ''}{name}: found {len(cands)}")
    return cands[0]


def find_funcs(tree: ast.AST, name: str, cls: str) -> list[ast.FunctionDef]:
    cands = [n for n in ast.walk(tree) if isinstance(n, ast.ClassDef) and n.name == cls]
    if len(cands) != 1:
        raise TranslationError(f"class {cls}: found {len(cands)}")
    return [n for n in cands[0].body if isinstance(n, ast.FunctionDef) and n.name == name]


def body_no_doc(fn: ast.FunctionDef) -> list[ast.stmt]:
    b = list(fn.body)
    if b and isinstance(b[0], ast.Expr) and isinstance(b[0].value, ast.Constant) and isinstance(b[0].value.value, str):
        b = b[1:]
    return b


def fail(node: ast.AST | None, msg: str):
    ln = getattr(node, "lineno", "?")
    raise TranslationError(f"line {ln}: {msg}: {ast.unparse(node) if node is not None else ''}"[:300])


def int_const(node: ast.AST) -> int:
    if isinstance(node, ast.Constant) and isinstance(node.value, int) and not isinstance(node.value, bool):
        return node.value
    if isinstance(node, ast.UnaryOp) and isinstance(node.op, ast.USub):
        return -int_const(node.operand)
    fail(node, "expected an integer literal")


HEADER = "(* GENERATED on every run from the current source tree by /verif/translator — do not edit *)\n"
