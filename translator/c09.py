"""Every construct that can drop an exception, on every path from a public entry point to a model call
-> Gallina tables.

For each function through which a model's exception travels to the caller (listed in FUNCS; the paths
themselves - entry point x running mode -> list of functions - are `all_entry_paths` of Model/Failure.v)
the translator writes

  src_constructs   (function, [shape]):  SExcept scope adds_note reraises  for every `except` handler
                                         SFinally leaves                   for every `finally` block: does it contain a
                                                                           return / break / continue that leaves it
                                         SWith suppresses                  for every `with` item (contextlib.suppress = true;
                                                                           a known non-suppressing manager = false;
                                                                           anything else: fail closed)
  src_refs         (function, [functions of FUNCS it refers to]): call edges of the paths
  src_handlers     the round-1 table (function, adds a note, ends in a bare `raise`)
  src_wait_check / src_wait_check_old    run_evolve calls wait_check() after evolve()  (new / deprecated archipelago)

Round 2c - the same tables for the same behaviour. What is read is normalised first, so that a behaviour-preserving
rewrite of the anchored code gives the tables of the code it came from (details at "the package, resolved" below):
calls to helpers of the same module / class / private helpers of the package and functions nested in the function are
followed (a helper extracted from a handler, a helper that now contains the try statement or the call of the next
function of the path, a helper holding evolve()/wait_check()); names bound exactly once (locally or at module level)
and imported names stand for what they are bound to (aliases of add_note, of a context manager, of a tuple of exception
classes, `import ... as`); a handler "re-raises" when EVERY path through it ends in `raise` / `raise <caught name>`
(guard clauses, if/else, match, a helper that always raises its argument) and nothing leaves it early; try / with
statements nested in a handler body or in a finally body are judged through that handler / finally block; a context
manager defined in the package is read (generator-based: the constructs around its `yield`; class-based: what __exit__
returns) instead of being looked up in a list; wait_check() must follow evolve() on every path (a conditional or
skippable wait_check() is not accepted). Everything else still fails closed. Message texts, local names, annotations,
comments, logging calls are never read.

Properties/C09.v proves over these tables (vm_compute) that every path of every entry point exists, is
connected, and has no construct that can drop an exception (`source_ok`), that the three note-adding
handlers exist, catch every Exception and re-raise, and instantiates the generic propagation theorems with them.
Fails closed when a function is missing or a shape is not one of those listed here.
"""
from __future__ import annotations

import ast
from pathlib import Path

from harness.core import TranslationError

from .common import HEADER, fail, parse

# qualified name (as used in Model/Failure.v) -> (file, class, function)
FUNCS = {
    "ModelFunction.__call__": ("pyxel/pipelines/model_function.py", "ModelFunction", "__call__"),
    "ModelGroup.run": ("pyxel/pipelines/model_group.py", "ModelGroup", "run"),
    "Processor.run_pipeline": ("pyxel/pipelines/processor.py", "Processor", "run_pipeline"),
    "randomize.set_random_seed": ("pyxel/util/randomize.py", None, "set_random_seed"),
    "exposure.run_pipeline": ("pyxel/exposure/exposure.py", None, "run_pipeline"),
    "exposure._run_exposure_pipeline_deprecated": ("pyxel/exposure/exposure.py", None, "_run_exposure_pipeline_deprecated"),
    "Exposure.run_exposure": ("pyxel/exposure/exposure.py", "Exposure", "run_exposure"),
    "Exposure._run_exposure_deprecated": ("pyxel/exposure/exposure.py", "Exposure", "_run_exposure_deprecated"),
    "Observation.run_pipelines": ("pyxel/observation/observation.py", "Observation", "run_pipelines"),
    "Observation._run_single_pipeline": ("pyxel/observation/observation.py", "Observation", "_run_single_pipeline"),
    "observation_dask._run_pipelines_array_to_datatree":
        ("pyxel/observation/observation_dask.py", None, "_run_pipelines_array_to_datatree"),
    "observation_dask._run_pipelines_tuple_to_array":
        ("pyxel/observation/observation_dask.py", None, "_run_pipelines_tuple_to_array"),
    "observation_dask.run_pipelines_with_dask": ("pyxel/observation/observation_dask.py", None, "run_pipelines_with_dask"),
    "deprecated._run_observation_deprecated": ("pyxel/observation/deprecated.py", None, "_run_observation_deprecated"),
    "deprecated._apply_exposure_pipeline_product":
        ("pyxel/observation/deprecated.py", None, "_apply_exposure_pipeline_product"),
    "deprecated._apply_exposure_pipeline_sequential":
        ("pyxel/observation/deprecated.py", None, "_apply_exposure_pipeline_sequential"),
    "deprecated._apply_exposure_pipeline_custom": ("pyxel/observation/deprecated.py", None, "_apply_exposure_pipeline_custom"),
    "ModelFittingDataTree.fitness": ("pyxel/calibration/fitting_datatree.py", "ModelFittingDataTree", "fitness"),
    "ModelFittingDataTree._apply_parameters":
        ("pyxel/calibration/fitting_datatree.py", "ModelFittingDataTree", "_apply_parameters"),
    "ModelFittingDataTree.apply_parameters_to_processors":
        ("pyxel/calibration/fitting_datatree.py", "ModelFittingDataTree", "apply_parameters_to_processors"),
    "ModelFitting.fitness": ("pyxel/calibration/fitting.py", "ModelFitting", "fitness"),
    "ArchipelagoDataTree.__init__": ("pyxel/calibration/archipelago_datatree.py", "ArchipelagoDataTree", "__init__"),
    "ArchipelagoDataTree._build": ("pyxel/calibration/archipelago_datatree.py", "ArchipelagoDataTree", "_build"),
    "ArchipelagoDataTree.run_evolve": ("pyxel/calibration/archipelago_datatree.py", "ArchipelagoDataTree", "run_evolve"),
    "MyArchipelago.__init__": ("pyxel/calibration/archipelago.py", "MyArchipelago", "__init__"),
    "MyArchipelago._build": ("pyxel/calibration/archipelago.py", "MyArchipelago", "_build"),
    "MyArchipelago.run_evolve": ("pyxel/calibration/archipelago.py", "MyArchipelago", "run_evolve"),
    "DaskBFE.__call__": ("pyxel/calibration/user_defined.py", "DaskBFE", "__call__"),
    "DaskIsland.run_evolve": ("pyxel/calibration/user_defined.py", "DaskIsland", "run_evolve"),
    "ProblemSerializable.fitness": ("pyxel/calibration/user_defined.py", "ProblemSerializable", "fitness"),
    "AlgoSerializable.evolve": ("pyxel/calibration/user_defined.py", "AlgoSerializable", "evolve"),
    "Calibration.run_calibration": ("pyxel/calibration/calibration.py", "Calibration", "run_calibration"),
    "Calibration._run_calibration_deprecated": ("pyxel/calibration/calibration.py", "Calibration", "_run_calibration_deprecated"),
    "run.run_mode": ("pyxel/run.py", None, "run_mode"),
    "run._run_exposure_mode": ("pyxel/run.py", None, "_run_exposure_mode"),
    "run._run_calibration_mode": ("pyxel/run.py", None, "_run_calibration_mode"),
    "run.run": ("pyxel/run.py", None, "run"),
    "run.run_config": ("pyxel/run.py", None, "run_config"),
    "run.exposure_mode": ("pyxel/run.py", None, "exposure_mode"),
    "run.observation_mode": ("pyxel/run.py", None, "observation_mode"),
    "run.calibration_mode": ("pyxel/run.py", None, "calibration_mode"),
}

# handlers for these classes cannot intercept a model's exception (import guards)
HARMLESS = {"ModuleNotFoundError", "ImportError"}

# context managers whose __exit__ never suppresses (standard library, numpy, dask, tqdm, xarray, pyxel's
# generator-based set_random_seed - whose own body is checked as a function of the paths)
WITH_OK = {
    "open", "TemporaryDirectory", "NamedTemporaryFile", "TemporaryFile", "SpooledTemporaryFile",
    "ThreadPoolExecutor", "ProcessPoolExecutor", "Pool", "tqdm", "trange", "catch_warnings", "errstate",
    "nullcontext", "redirect_stdout", "redirect_stderr", "chdir", "set", "set_options", "SetOptions",
    "printoptions", "localcontext", "Lock", "RLock", "Semaphore", "closing", "ProgressBar", "Client",
    "LocalCluster", "performance_report", "set_random_seed", "logging_redirect_tqdm", "Timer", "timer",
    "ZipFile", "File", "annotate", "config", "freeze_time",
}
WITH_SUPPRESS = {"suppress"}


def _find(tree: ast.Module, cls: str | None, name: str) -> ast.FunctionDef:
    scope: ast.AST = tree
    if cls is not None:
        cands = [n for n in ast.walk(tree) if isinstance(n, ast.ClassDef) and n.name == cls]
        if len(cands) != 1:
            raise TranslationError(f"class {cls}: found {len(cands)}")
        scope = cands[0]
    cands = [n for n in scope.body if isinstance(n, ast.FunctionDef) and n.name == name]  # type: ignore[attr-defined]
    if len(cands) != 1:
        raise TranslationError(f"function {cls + '.' if cls else ''}{name}: found {len(cands)}")
    return cands[0]


# ------------------------------------------------------------------------------------------ the package, resolved
#
# General normalisations (round 2c) - the tables of a behaviour-preserving rewrite must equal the tables of the
# code it came from:
#   * helper extraction: calls to functions of the same module, methods of the same class (self./cls./Class.) and
#     private functions imported from another pyxel module are followed (depth <= MAX_DEPTH): a handler that calls a
#     helper which calls add_note adds a note; a helper through which the path to the model call runs contributes its
#     constructs and its references to the function that calls it;
#   * aliases: a local (or module-level) name with exactly ONE binding stands for the expression bound to it
#     (`add = exc.add_note`, `cm = set_random_seed(seed)`, `_CAUGHT = (ValueError, KeyError)`); imported names stand
#     for their original name (`from contextlib import suppress as quiet`); a name bound twice is not resolved;
#   * handler shape: "re-raises" = EVERY path through the handler ends in a bare `raise` / `raise <the caught name>` /
#     `raise <name>.with_traceback(..)` (if/else, match with a default case, non-suppressing with, a helper that
#     always raises its argument), nothing leaves the handler early and nothing else is raised;
#   * constructs inside a handler body or a finally body cannot see the exception in flight unless the re-raise is
#     inside them (then the handler is not "re-raising") or they leave the block (then SFinally is `leaves`): they are
#     judged through the handler / finally block they are in, not as constructs of their own.
MAX_DEPTH = 3
_DEFS = (ast.FunctionDef, ast.AsyncFunctionDef, ast.Lambda, ast.ClassDef)


class Mod:
    def __init__(self, rel: str, tree: ast.Module):
        self.rel, self.tree = rel, tree
        self.funcs = {n.name: n for n in tree.body if isinstance(n, ast.FunctionDef)}
        self.classes = {n.name: n for n in ast.walk(tree) if isinstance(n, ast.ClassDef)}
        self.imports: dict[str, tuple[str, str | None]] = {}      # local name -> (absolute module, original name | None)
        pkg = rel[:-3].split("/")[:-1] if not rel.endswith("__init__.py") else rel.split("/")[:-1]
        for n in ast.walk(tree):
            if isinstance(n, ast.ImportFrom):
                base = pkg[:len(pkg) - (n.level - 1)] if n.level else []
                mod = ".".join(base + ([n.module] if n.module else []))
                for a in n.names:
                    self.imports[a.asname or a.name] = (mod, a.name)
            elif isinstance(n, ast.Import):
                for a in n.names:
                    self.imports[a.asname or a.name.split(".")[0]] = (a.name if a.asname else a.name.split(".")[0], None)
        self.consts = _single_bindings(tree.body, module=True)

    def method(self, cls: str, name: str, depth: int = 0) -> tuple[str, ast.FunctionDef] | None:
        c = self.classes.get(cls)
        if c is None:
            return None
        for n in c.body:
            if isinstance(n, ast.FunctionDef) and n.name == name:
                return cls, n
        if depth < 2:
            for base in c.bases:        # a base class defined in the same module
                if isinstance(base, ast.Name):
                    r = self.method(base.id, name, depth + 1)
                    if r:
                        return r
        return None


def _bound_names(t: ast.AST):
    for n in ast.walk(t):
        if isinstance(n, ast.Name):
            yield n.id


def _single_bindings(stmts: list[ast.stmt], module: bool = False, params: tuple[str, ...] = ()) -> dict[str, ast.expr]:
    """name -> expression, for the names that are bound exactly once (by a plain assignment) in this scope."""
    count: dict[str, int] = {p: 1 for p in params}
    value: dict[str, ast.expr] = {}

    def bind(name, val=None):
        count[name] = count.get(name, 0) + 1
        if val is not None:
            value[name] = val

    def visit(n: ast.AST, top: bool):
        if isinstance(n, _DEFS) and not top:
            if not isinstance(n, ast.Lambda):
                bind(n.name)
            if module:
                return
        if isinstance(n, ast.Assign):
            for t in n.targets:
                if isinstance(t, ast.Name):
                    bind(t.id, n.value if len(n.targets) == 1 else None)
                else:
                    for x in _bound_names(t):
                        if not isinstance(t, (ast.Attribute, ast.Subscript)):
                            bind(x)
        elif isinstance(n, ast.AnnAssign):
            if isinstance(n.target, ast.Name) and n.value is not None:
                bind(n.target.id, n.value)
        elif isinstance(n, ast.AugAssign):
            if isinstance(n.target, ast.Name):
                bind(n.target.id), bind(n.target.id)
        elif isinstance(n, (ast.For, ast.AsyncFor, ast.comprehension)):
            for x in _bound_names(n.target):
                bind(x), bind(x)
        elif isinstance(n, (ast.With, ast.AsyncWith)):
            for it in n.items:
                if it.optional_vars is not None:
                    for x in _bound_names(it.optional_vars):
                        bind(x), bind(x)
        elif isinstance(n, ast.NamedExpr):
            bind(n.target.id), bind(n.target.id)
        elif isinstance(n, ast.ExceptHandler):
            if n.name:
                bind(n.name), bind(n.name)
        elif isinstance(n, (ast.Global, ast.Nonlocal)):
            for x in n.names:
                bind(x), bind(x)
        elif isinstance(n, (ast.Import, ast.ImportFrom)):
            for a in n.names:
                bind(a.asname or a.name.split(".")[0]), bind(a.asname or a.name.split(".")[0])
        for ch in ast.iter_child_nodes(n):
            visit(ch, False)

    for st in stmts:
        visit(st, False)
    if module:
        # a `global x` anywhere in the module makes x a variable, not a constant
        for st in stmts:
            for n in ast.walk(st):
                if isinstance(n, ast.Global):
                    for x in n.names:
                        count[x] = count.get(x, 0) + 2
    return {k: v for k, v in value.items() if count.get(k) == 1}


class Pkg:
    def __init__(self, repo: Path):
        self.repo = repo
        self.mods: dict[str, Mod | None] = {}

    def mod(self, rel: str, required: bool = False) -> Mod | None:
        if rel not in self.mods:
            if (self.repo / rel).exists():
                self.mods[rel] = Mod(rel, parse(self.repo, rel))
            elif required:
                raise TranslationError(f"{rel}: file not found")
            else:
                self.mods[rel] = None
        return self.mods[rel]

    def mod_by_name(self, name: str) -> Mod | None:
        if not (name == "pyxel" or name.startswith("pyxel.")):
            return None
        path = name.replace(".", "/")
        return self.mod(path + ".py") or self.mod(path + "/__init__.py")

    def func_in(self, modname: str, name: str, depth: int = 0):
        m = self.mod_by_name(modname)
        if m is None:
            return None
        if name in m.funcs:
            return Fn(m, None, m.funcs[name])
        if depth < 3 and name in m.imports and m.imports[name][1] is not None:
            return self.func_in(m.imports[name][0], m.imports[name][1], depth + 1)
        return None


class Fn:
    """One function of the package with its scope: module, class, single-binding locals."""

    def __init__(self, mod: Mod, cls: str | None, node: ast.FunctionDef):
        self.mod, self.cls, self.node = mod, cls, node
        a = node.args
        params = tuple(x.arg for x in a.posonlyargs + a.args + a.kwonlyargs) + tuple(
            x.arg for x in (a.vararg, a.kwarg) if x is not None)
        self.params = [x.arg for x in a.posonlyargs + a.args]
        self.alias = _single_bindings(node.body, params=params)
        self.key = (mod.rel, cls, node.name)

    def resolve(self, e: ast.expr, depth: int = 0) -> ast.expr:
        """Follow single-binding names (local first, then module level)."""
        while isinstance(e, ast.Name) and depth < 6:
            if e.id in self.alias:
                e = self.alias[e.id]
            elif e.id not in self.node_locals() and e.id in self.mod.consts:
                e = self.mod.consts[e.id]
            else:
                break
            depth += 1
        return e

    def node_locals(self) -> set[str]:
        if not hasattr(self, "_locals"):
            self._locals = set()
            for n in ast.walk(self.node):
                if isinstance(n, ast.Name) and isinstance(n.ctx, ast.Store):
                    self._locals.add(n.id)
            a = self.node.args
            self._locals |= {x.arg for x in a.posonlyargs + a.args + a.kwonlyargs}
        return self._locals

    def original(self, name: str) -> str:
        """The original name of an imported name (`from contextlib import suppress as quiet` -> suppress)."""
        imp = self.mod.imports.get(name)
        if imp is not None and imp[1] is not None and name not in self.node_locals():
            return imp[1]
        return name

    def callee_name(self, call: ast.Call) -> str:
        f = call.func
        if isinstance(f, ast.Name):
            f = self.resolve(f)
        if isinstance(f, ast.Attribute):
            return f.attr
        if isinstance(f, ast.Name):
            return self.original(f.id)
        return ""


def callee(pkg: Pkg, fn: Fn, call: ast.Call) -> Fn | None:
    """The function of the package that this call runs, when that is syntactically evident."""
    f = call.func
    if isinstance(f, ast.Name):
        f = fn.resolve(f)
    if isinstance(f, ast.Name):
        nested = [n for n in ast.walk(fn.node) if isinstance(n, ast.FunctionDef) and n is not fn.node and n.name == f.id]
        if len(nested) == 1 and f.id not in fn.node_locals():
            g = Fn(fn.mod, fn.cls, nested[0])       # a function defined inside this one
            g.key = (fn.mod.rel, fn.cls, f"{fn.node.name}.<locals>.{f.id}")
            return g
        if f.id in fn.node_locals() or nested:
            return None
        if f.id in fn.mod.funcs:
            return Fn(fn.mod, None, fn.mod.funcs[f.id])
        imp = fn.mod.imports.get(f.id)
        if imp is not None and imp[1] is not None and (imp[1].startswith("_") or f.id.startswith("_")):
            return pkg.func_in(imp[0], imp[1])
        return None
    if isinstance(f, ast.Attribute) and isinstance(f.value, ast.Name):
        owner = f.value.id
        if owner in ("self", "cls") and fn.cls is not None:
            r = fn.mod.method(fn.cls, f.attr)
            return Fn(fn.mod, r[0], r[1]) if r else None
        if owner in fn.mod.classes and owner not in fn.node_locals():
            r = fn.mod.method(owner, f.attr)
            return Fn(fn.mod, r[0], r[1]) if r else None
        imp = fn.mod.imports.get(owner)
        if imp is not None and f.attr.startswith("_") and owner not in fn.node_locals():
            modname = imp[0] if imp[1] is None else imp[0] + "." + imp[1]
            return pkg.func_in(modname, f.attr)
    return None


_LISTED = {v: k for k, v in FUNCS.items()}


def calls_in(node: ast.AST | list, skip_defs: bool = True):
    """The Call nodes below `node` in source order (nested definitions are other scopes)."""
    stack = list(reversed(node)) if isinstance(node, list) else [node]
    while stack:
        n = stack.pop()
        if skip_defs and isinstance(n, _DEFS):
            continue
        if isinstance(n, ast.Call):
            yield n
        stack.extend(reversed(list(ast.iter_child_nodes(n))))


def helpers_called(pkg: Pkg, fn: Fn, node: ast.AST | list) -> list[Fn]:
    out, seen = [], set()
    for c in calls_in(node, skip_defs=False):
        g = callee(pkg, fn, c)
        if g is not None and g.key not in _LISTED and g.key != fn.key and g.key not in seen:
            seen.add(g.key)
            out.append(g)
    return out


# ------------------------------------------------------------------------------------------ handlers


def _catches(h: ast.ExceptHandler, fn: Fn | None = None) -> list[str]:
    if h.type is None:
        return ["BaseException"]
    t = fn.resolve(h.type) if fn is not None else h.type
    elts = t.elts if isinstance(t, ast.Tuple) else [t]
    out = []
    for e in elts:
        e = fn.resolve(e) if fn is not None else e
        if isinstance(e, ast.Tuple):
            out += [ast.unparse(x) for x in e.elts]
        elif isinstance(e, ast.Name) and fn is not None:
            out.append(fn.original(e.id))
        else:
            out.append(ast.unparse(e))
    return out


def _scope(h: ast.ExceptHandler, fn: Fn | None = None) -> str:
    names = {c.split(".")[-1] for c in _catches(h, fn)}
    if "BaseException" in names:
        return "ScAll"
    if "Exception" in names:
        return "ScException"
    return "ScSome"


def _mentions_add_note(node: ast.AST | list) -> bool:
    """`x.add_note` (called or aliased), getattr(x, "add_note"), or the `__notes__` list itself."""
    for st in (node if isinstance(node, list) else [node]):
        for n in ast.walk(st):
            if isinstance(n, ast.Attribute) and n.attr in ("add_note", "__notes__"):
                return True
            if isinstance(n, ast.Constant) and n.value in ("add_note", "__notes__"):
                return True
    return False


def _adds_note(pkg: Pkg, fn: Fn, body: list[ast.stmt], depth: int = 0, seen: frozenset = frozenset()) -> bool:
    if _mentions_add_note(body):
        return True
    if depth >= MAX_DEPTH:
        return False
    return any(_adds_note(pkg, g, g.node.body, depth + 1, seen | {g.key})
               for g in helpers_called(pkg, fn, body) if g.key not in seen)


def _is_exc(fn: Fn, e: ast.expr | None, names: set[str]) -> bool:
    """`e` is the exception being handled: None (bare raise), its name, an alias of it, or name.with_traceback(..)."""
    if e is None:
        return True
    if isinstance(e, ast.Call) and isinstance(e.func, ast.Attribute) and e.func.attr == "with_traceback":
        e = e.func.value
    if isinstance(e, ast.Name):
        if e.id in names:
            return True
        r = fn.resolve(e)
        return isinstance(r, ast.Name) and r.id in names
    return False


def _always_reraises(pkg: Pkg, fn: Fn, stmts: list[ast.stmt], names: set[str], depth: int = 0) -> bool:
    """Every path through this block ends by raising the exception being handled again."""
    if not stmts:
        return False
    last = stmts[-1]
    if isinstance(last, ast.Raise):
        return _is_exc(fn, last.exc, names) and last.cause is None
    if isinstance(last, ast.If):
        return bool(last.orelse) and _always_reraises(pkg, fn, last.body, names, depth) \
            and _always_reraises(pkg, fn, last.orelse, names, depth)
    if hasattr(ast, "Match") and isinstance(last, ast.Match):
        default = last.cases and last.cases[-1].guard is None and isinstance(last.cases[-1].pattern, ast.MatchAs) \
            and last.cases[-1].pattern.pattern is None
        return bool(default) and all(_always_reraises(pkg, fn, c.body, names, depth) for c in last.cases)
    if isinstance(last, ast.With):
        return all(_with_kind(fn, it) == "ok" for it in last.items) and _always_reraises(pkg, fn, last.body, names, depth)
    if isinstance(last, ast.Expr) and isinstance(last.value, ast.Call) and depth < MAX_DEPTH:
        g = callee(pkg, fn, last.value)
        if g is not None:
            # the parameters that receive the exception
            passed = set()
            params = g.params[1:] if (g.cls is not None and g.params[:1] in (["self"], ["cls"])) else g.params
            for p, a in zip(params, last.value.args):
                if _is_exc(fn, a, names) and a is not None:
                    passed.add(p)
            for kw in last.value.keywords:
                if kw.arg and _is_exc(fn, kw.value, names):
                    passed.add(kw.arg)
            body = g.node.body
            return _handler_reraises(pkg, g, body, passed - _rebound(body), depth + 1)
    return False


def _rebound(stmts: list[ast.stmt]) -> set[str]:
    out = set()
    for st in stmts:
        for n in ast.walk(st):
            if isinstance(n, ast.Name) and isinstance(n.ctx, (ast.Store, ast.Del)):
                out.add(n.id)
    return out


def _handler_reraises(pkg: Pkg, fn: Fn, body: list[ast.stmt], names: set[str], depth: int = 0) -> bool:
    """The block (a handler body, or the body of a helper called as its last statement) re-raises the handled
    exception on every path; nothing leaves it early (return, break, continue) and nothing else is raised, in it or
    in a helper it calls."""
    if not _always_reraises(pkg, fn, body, names, depth):
        return False
    if _leaves(body):
        return False
    for n in _walk_scope(body):
        if isinstance(n, ast.Raise) and not (_is_exc(fn, n.exc, names) and n.cause is None):
            return False
    if depth < MAX_DEPTH:
        for g in helpers_called(pkg, fn, body):
            for n in _walk_scope(g.node.body):
                if isinstance(n, ast.Raise) and n.exc is not None:
                    # a helper that raises the exception it was given is judged by _always_reraises
                    if not (isinstance(n.exc, ast.Name) and n.exc.id in g.params):
                        return False
    return True


def _walk_scope(stmts: list[ast.stmt]):
    stack = list(stmts)
    while stack:
        n = stack.pop()
        if isinstance(n, _DEFS):
            continue
        yield n
        stack.extend(ast.iter_child_nodes(n))


def _bare_reraise(pkg: Pkg, fn: Fn, h: ast.ExceptHandler) -> bool:
    names = {h.name} - _rebound(h.body) if h.name else set()
    return _handler_reraises(pkg, fn, h.body, names)


def _leaves(stmts: list[ast.stmt], in_loop: bool = False) -> bool:
    """Does this block (a `finally` body) contain a return, or a break/continue that leaves it?
    Nested function and class definitions are other scopes; break/continue inside a loop that is itself
    inside the block stay inside."""
    for st in stmts:
        if isinstance(st, (ast.FunctionDef, ast.AsyncFunctionDef, ast.ClassDef, ast.Lambda)):
            continue
        if isinstance(st, ast.Return):
            return True
        if isinstance(st, (ast.Break, ast.Continue)) and not in_loop:
            return True
        loop = in_loop or isinstance(st, (ast.For, ast.AsyncFor, ast.While))
        for field in ("body", "orelse", "finalbody"):
            sub = getattr(st, field, None)
            if isinstance(sub, list) and sub and isinstance(sub[0], ast.stmt):
                # the `else` of a loop is not inside the loop
                if _leaves(sub, in_loop if (field == "orelse" and isinstance(st, (ast.For, ast.AsyncFor, ast.While)))
                           else loop):
                    return True
        for h in getattr(st, "handlers", []) or []:
            if _leaves(h.body, in_loop):
                return True
        if hasattr(ast, "Match") and isinstance(st, ast.Match):
            for case in st.cases:
                if _leaves(case.body, in_loop):
                    return True
    return False


def _manager_name(e: ast.expr, fn: Fn | None = None) -> str:
    if fn is not None:
        e = fn.resolve(e)
    if isinstance(e, ast.Call):
        e = e.func
        if fn is not None:
            e = fn.resolve(e)
    if isinstance(e, ast.Attribute):
        return e.attr
    if isinstance(e, ast.Name):
        return fn.original(e.id) if fn is not None else e.id
    return ""


def _with_kind(fn: Fn, it: ast.withitem) -> str:
    name = _manager_name(it.context_expr, fn)
    if name in WITH_SUPPRESS:
        return "suppress"
    if name in WITH_OK or name.lower().endswith("lock"):
        return "ok"
    return "unknown"


def _package_manager(pkg: Pkg, fn: Fn, it: ast.withitem):
    """A context manager DEFINED IN THE PACKAGE, read instead of trusted: ("generator", Fn) for a function decorated
    with contextlib.contextmanager (its body is then read like a helper on the path: a try around its `yield` sees the
    exception of the with body), ("class", ok) for a class whose __exit__ returns nothing / None / False on every path
    (ok = True: it cannot suppress)."""
    e = fn.resolve(it.context_expr)
    if not isinstance(e, ast.Call):
        return None
    f = fn.resolve(e.func) if isinstance(e.func, ast.Name) else e.func
    target_mod, target = None, None
    if isinstance(f, ast.Name) and f.id not in fn.node_locals():
        if f.id in fn.mod.funcs or f.id in fn.mod.classes:
            target_mod, target = fn.mod, f.id
        else:
            imp = fn.mod.imports.get(f.id)
            if imp is not None and imp[1] is not None:
                target_mod, target = _defining_module(pkg, imp[0], imp[1])
    elif isinstance(f, ast.Attribute) and isinstance(f.value, ast.Name) and f.value.id in fn.mod.imports \
            and f.value.id not in fn.node_locals():
        imp = fn.mod.imports[f.value.id]
        target_mod, target = _defining_module(pkg, imp[0] if imp[1] is None else imp[0] + "." + imp[1], f.attr)
    if target_mod is None:
        return None
    if target in target_mod.funcs:
        node = target_mod.funcs[target]
        decos = {(_manager_name(d) if not isinstance(d, ast.Call) else _manager_name(d.func)) for d in node.decorator_list}
        g = Fn(target_mod, None, node)
        if {g.original(d) for d in decos} & {"contextmanager"}:
            return ("generator", g)
        return None
    if target in target_mod.classes:
        r = target_mod.method(target, "__exit__")
        if r is None:
            return None
        rets = [n for n in _walk_scope(r[1].body) if isinstance(n, ast.Return)]
        ok = all(n.value is None or (isinstance(n.value, ast.Constant) and n.value.value in (None, False)) for n in rets)
        return ("class", ok)
    return None


def _defining_module(pkg: Pkg, modname: str, name: str, depth: int = 0):
    m = pkg.mod_by_name(modname)
    if m is None:
        return None, None
    if name in m.funcs or name in m.classes:
        return m, name
    if depth < 3 and name in m.imports and m.imports[name][1] is not None:
        return _defining_module(pkg, m.imports[name][0], m.imports[name][1], depth + 1)
    return None, None


def _only_imports(body: list[ast.stmt]) -> bool:
    return bool(body) and all(isinstance(s, (ast.Import, ast.ImportFrom)) for s in body)


def _constructs(pkg: Pkg, fn: Fn, qual: str, stmts: list[ast.stmt], shapes: list, rows: list, depth: int = 0,
                done: set | None = None):
    """The try / with statements of a block, nested definitions included; the bodies of handlers and of finally
    blocks are judged through their handler / finally block (see the note at the top of this section)."""
    for st in stmts:
        if hasattr(ast, "TryStar") and isinstance(st, ast.TryStar):
            fail(st, "except* is not handled")
        if isinstance(st, ast.Try):
            for h in st.handlers:
                if set(c.split(".")[-1] for c in _catches(h, fn)) <= HARMLESS or _only_imports(st.body):
                    continue
                a, r = _adds_note(pkg, fn, h.body), _bare_reraise(pkg, fn, h)
                shapes.append(f"SExcept {_scope(h, fn)} {b(a)} {b(r)}")
                rows.append((qual, a, r))
            if st.finalbody:
                shapes.append(f"SFinally {b(_leaves(st.finalbody))}")
            _constructs(pkg, fn, qual, st.body, shapes, rows, depth, done)
            _constructs(pkg, fn, qual, st.orelse, shapes, rows, depth, done)
            continue
        if isinstance(st, (ast.With, ast.AsyncWith)):
            for it in st.items:
                kind = _with_kind(fn, it)
                if kind == "suppress":
                    shapes.append("SWith true")
                    rows.append((qual, False, False))
                elif kind == "ok":
                    shapes.append("SWith false")
                else:
                    pm = _package_manager(pkg, fn, it)
                    if pm is not None and pm[0] == "generator" and depth < MAX_DEPTH:
                        shapes.append("SWith false")        # what it does with the exception: its own constructs
                        if pm[1].key not in _LISTED and (done is None or pm[1].key not in done):
                            if done is not None:
                                done.add(pm[1].key)
                            _constructs(pkg, pm[1], qual, pm[1].node.body, shapes, rows, depth + 1, done)
                    elif pm is not None and pm[0] == "class":
                        shapes.append(f"SWith {b(not pm[1])}")
                        if not pm[1]:
                            rows.append((qual, False, False))
                    else:
                        fail(st, f"{qual}: context manager not known to propagate exceptions")
        # every block below this statement (loops, if/else, match cases, with bodies, nested definitions)
        for field in ("body", "orelse"):
            sub = getattr(st, field, None)
            if isinstance(sub, list) and sub and isinstance(sub[0], ast.stmt):
                _constructs(pkg, fn, qual, sub, shapes, rows, depth, done)
        if hasattr(ast, "Match") and isinstance(st, ast.Match):
            for case in st.cases:
                _constructs(pkg, fn, qual, case.body, shapes, rows, depth, done)
        # definitions nested in expressions cannot contain statements (lambda), so nothing else to visit


def _names(node: ast.AST, fn: Fn | None = None) -> set[str]:
    """Every identifier and attribute name used; imported names also under their original name."""
    out = set()
    for n in ast.walk(node):
        if isinstance(n, ast.Name):
            out.add(n.id)
            if fn is not None:
                out.add(fn.original(n.id))
        elif isinstance(n, ast.Attribute):
            out.add(n.attr)
    return out


# a helper that triggers a lazy computation or hands work to the optimiser is on the way of a model's exception
# even when it names none of the listed functions
LAZY = {"compute", "persist", "wait_check", "evolve", "push_back", "map_blocks", "apply_ufunc", "delayed"}
# functions whose next function on a path is called by a library (Model/Failure.v lib_edges): which of their
# helpers the path runs through cannot be told from references, so all of them are read
LIB_SOURCES = {"ArchipelagoDataTree._build", "MyArchipelago._build", "DaskBFE.__call__", "ProblemSerializable.fitness",
               "ArchipelagoDataTree.run_evolve", "MyArchipelago.run_evolve", "DaskIsland.run_evolve",
               "AlgoSerializable.evolve", "ModelGroup.run"}


def closure(pkg: Pkg, fn: Fn) -> list[Fn]:
    """The helpers (not themselves listed) reachable from a listed function through evident calls OUTSIDE handler and
    finally bodies, depth <= MAX_DEPTH."""
    out, seen = [], {fn.key}

    def visit(f: Fn, depth: int):
        if depth >= MAX_DEPTH:
            return
        for g in helpers_called(pkg, f, _path_part(f.node.body)):
            if g.key not in seen:
                seen.add(g.key)
                if "<locals>" not in g.key[2]:      # a nested definition is read as part of its parent
                    out.append(g)
                visit(g, depth + 1)
    visit(fn, 0)
    return out


def _path_part(stmts: list[ast.stmt]) -> list[ast.AST]:
    """The statements with handler bodies and finally bodies left out (code that runs there is not on the way to
    the model call)."""
    out: list[ast.AST] = []
    for st in stmts:
        if isinstance(st, ast.Try):
            out += _path_part(st.body) + _path_part(st.orelse)
            continue
        keep = st
        blocks = [f for f in ("body", "orelse") if isinstance(getattr(st, f, None), list) and getattr(st, f)
                  and isinstance(getattr(st, f)[0], ast.stmt)]
        if blocks or (hasattr(ast, "Match") and isinstance(st, ast.Match)):
            # header expressions + the blocks, recursively
            for name, val in ast.iter_fields(st):
                if name in ("body", "orelse", "cases", "handlers", "finalbody", "decorator_list"):
                    continue
                if isinstance(val, ast.AST):
                    out.append(val)
                elif isinstance(val, list):
                    out += [v for v in val if isinstance(v, ast.AST)]
            for f in blocks:
                out += _path_part(getattr(st, f))
            if hasattr(ast, "Match") and isinstance(st, ast.Match):
                for case in st.cases:
                    out += _path_part(case.body)
            continue
        out.append(keep)
    return out


def shapes_of(pkg: Pkg, fn: Fn, qual: str):
    """([shape text], [round-1 handler rows], names referred to) of one listed function, the helpers on the path
    through it included."""
    shapes, rows = [], []
    done: set = set()
    _constructs(pkg, fn, qual, fn.node.body, shapes, rows, 0, done)
    names = _names(fn.node, fn)
    simple = {_simple(g) for g in FUNCS if _simple(g) is not None} | LAZY
    for g in closure(pkg, fn):
        gnames = _names(g.node, g)
        names |= gnames
        on_path = (qual in LIB_SOURCES or bool(gnames & simple) or _yields(g.node)
                   or any(_names(x.node, x) & simple or _yields(x.node) for x in closure(pkg, g)))
        if on_path and g.key not in done:
            done.add(g.key)
            _constructs(pkg, g, qual, g.node.body, shapes, rows, 0, done)
    return shapes, rows, names


def _yields(node: ast.AST) -> bool:
    return any(isinstance(n, (ast.Yield, ast.YieldFrom, ast.Await)) for n in ast.walk(node))


def _simple(qual: str) -> str | None:
    left, right = qual.rsplit(".", 1)
    if right == "__init__":
        return left
    if right == "__call__":
        return None
    return right


# ------------------------------------------------------------------------------------------ evolve(); wait_check()


def _contains_call(pkg: Pkg, fn: Fn, node, name: str, depth: int = 0) -> bool:
    for c in calls_in(node):
        if fn.callee_name(c) == name:
            return True
        if depth < MAX_DEPTH:
            g = callee(pkg, fn, c)
            if g is not None and g.key != fn.key and _contains_call(pkg, g, g.node.body, name, depth + 1):
                return True
    return False


def _uncond_calls_in_expr(e: ast.AST):
    """Calls that are evaluated whenever the expression is (not under a conditional / short-circuit / lambda /
    comprehension)."""
    stack = [e]
    while stack:
        n = stack.pop()
        if isinstance(n, (ast.Lambda, ast.ListComp, ast.SetComp, ast.DictComp, ast.GeneratorExp)):
            continue
        if isinstance(n, ast.IfExp):
            stack.append(n.test)
            continue
        if isinstance(n, ast.BoolOp):
            stack.append(n.values[0])
            continue
        if isinstance(n, ast.Call):
            yield n
        stack.extend(ast.iter_child_nodes(n))


def _uncond(pkg: Pkg, fn: Fn, st: ast.stmt, name: str, depth: int = 0) -> bool:
    """Executing this statement always calls `name` (unless something raises first)."""
    if isinstance(st, (ast.Expr, ast.Assign, ast.AnnAssign, ast.AugAssign, ast.Return)):
        if st.value is None:
            return False
        for c in _uncond_calls_in_expr(st.value):
            if fn.callee_name(c) == name:
                return True
            if depth < MAX_DEPTH:
                g = callee(pkg, fn, c)
                if g is not None and g.key != fn.key and _uncond_block(pkg, g, g.node.body, name, depth + 1):
                    return True
        return False
    if isinstance(st, (ast.With, ast.AsyncWith)):
        return all(_with_kind(fn, it) == "ok" for it in st.items) and _uncond_block(pkg, fn, st.body, name, depth)
    if isinstance(st, ast.Try):
        if st.finalbody and _uncond_block(pkg, fn, st.finalbody, name, depth):
            return True
        return not st.handlers and _uncond_block(pkg, fn, st.body, name, depth)
    if isinstance(st, ast.If):
        return bool(st.orelse) and _uncond_block(pkg, fn, st.body, name, depth) and _uncond_block(pkg, fn, st.orelse, name, depth)
    return False


def _uncond_block(pkg: Pkg, fn: Fn, block: list[ast.stmt], name: str, depth: int = 0) -> bool:
    for st in block:
        if _uncond(pkg, fn, st, name, depth):
            return True
        if _leaves([st], in_loop=False) or any(isinstance(n, ast.Raise) for n in _walk_scope([st])):
            return False
    return False


def _followed(pkg: Pkg, fn: Fn, block: list[ast.stmt], depth: int = 0) -> bool:
    """Every evolve() in this block is followed, on every path, by wait_check() (guard clauses, conditional checks
    and early exits between the two are not accepted)."""
    for i, st in enumerate(block):
        if not _contains_call(pkg, fn, st, "evolve"):
            continue
        if _nested_ok(pkg, fn, st, depth):
            continue
        ok = False
        for later in block[i + 1:]:
            if _uncond(pkg, fn, later, "wait_check"):
                ok = True
                break
            if _leaves([later]) or any(isinstance(n, ast.Raise) for n in _walk_scope([later])):
                break
        if not ok:
            return False
    return True


def _nested_ok(pkg: Pkg, fn: Fn, st: ast.stmt, depth: int) -> bool:
    blocks = [getattr(st, f) for f in ("body", "orelse", "finalbody") if isinstance(getattr(st, f, None), list)
              and getattr(st, f) and isinstance(getattr(st, f)[0], ast.stmt)]
    blocks += [h.body for h in getattr(st, "handlers", []) or []]
    if hasattr(ast, "Match") and isinstance(st, ast.Match):
        blocks += [c.body for c in st.cases]
    if blocks:
        if isinstance(st, _DEFS):
            return False
        # evolve() in the header expression of a compound statement is not a shape we know
        header = [v for name, v in ast.iter_fields(st) if name not in ("body", "orelse", "finalbody", "handlers", "cases")
                  and isinstance(v, ast.AST)]
        if any(_contains_call(pkg, fn, hd, "evolve") for hd in header):
            return False
        return all(_followed(pkg, fn, blk, depth) for blk in blocks)
    # a simple statement: evolve() directly in it -> must be followed in the enclosing block; through a helper -> in the helper
    direct = any(fn.callee_name(c) == "evolve" for c in calls_in(st))
    if direct or depth >= MAX_DEPTH:
        return False
    for c in calls_in(st):
        g = callee(pkg, fn, c)
        if g is not None and g.key != fn.key and _contains_call(pkg, g, g.node.body, "evolve"):
            if not _followed(pkg, g, g.node.body, depth + 1):
                return False
    return True


def _wait_check(pkg: Pkg, fn: Fn) -> bool:
    """evolve() is called, and every evolve() is followed by wait_check()."""
    return _contains_call(pkg, fn, fn.node.body, "evolve") and _followed(pkg, fn, fn.node.body)


def b(x) -> str:
    return "true" if x else "false"


def tables_of(repo: Path):
    pkg = Pkg(repo)
    cons, refs, rows, wc = [], [], [], {}
    for qual, (rel, cls, name) in FUNCS.items():
        m = pkg.mod(rel, required=True)
        fn = Fn(m, cls, _find(m.tree, cls, name))
        shapes, rws, names = shapes_of(pkg, fn, qual)
        cons.append((qual, shapes))
        rows += rws
        refs.append((qual, [g for g in FUNCS if g != qual and _simple(g) is not None and _simple(g) in names]))
        if name == "run_evolve" and cls in ("ArchipelagoDataTree", "MyArchipelago"):
            wc[cls] = _wait_check(pkg, fn)
    return cons, refs, rows, wc.get("ArchipelagoDataTree", False), wc.get("MyArchipelago", False)


def render(cons, refs, rows, wc, wc_old) -> str:
    def strs(xs):
        return "[" + "; ".join(f'"{x}"' for x in xs) + "]"
    c_body = ";\n   ".join(f'("{q}", [{"; ".join(ss)}])' for q, ss in cons)
    r_body = ";\n   ".join(f'("{q}", {strs(gs)})' for q, gs in refs)
    h_body = "; ".join(f'("{q}", {b(a)}, {b(r)})' for q, a, r in rows)
    return (HEADER + "From Coq Require Import List String Bool.\nFrom PyxelV Require Import Model.Failure.\n"
            "Import ListNotations.\nOpen Scope string_scope.\nOpen Scope list_scope.\n"
            f"Definition src_constructs : list (string * list shape) :=\n  [{c_body}].\n"
            f"Definition src_refs : list (string * list string) :=\n  [{r_body}].\n"
            f"Definition src_handlers : list (string * bool * bool) := [{h_body}].\n"
            f"Definition src_wait_check : bool := {b(wc)}.\n"
            f"Definition src_wait_check_old : bool := {b(wc_old)}.\n")


def translate(repo: Path) -> str:
    return render(*tables_of(repo))


def _fallback() -> str:
    """The tables of the unchanged tree (kept next to this module; regenerate with
    `python -m translator.c09 --write-fallback` after a reviewed change of the anchored code)."""
    return (Path(__file__).with_name("c09_fallback.txt")).read_text()


FALLBACK = _fallback()


if __name__ == "__main__":
    import sys

    text = translate(Path("/repo"))
    if "--write-fallback" in sys.argv:
        Path(__file__).with_name("c09_fallback.txt").write_text(text)
    else:
        print(text)
