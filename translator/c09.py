"""Every construct that can drop an exception, on every path from a public entry point to a model call
-> Gallina tables.

For each function through which a model's exception travels to the caller (listed in FUNCS; the paths
themselves - entry point x running mode -> list of functions - are `all_entry_paths` of Model/Failure.v)
the translator writes

  src_constructs   (function, [shape]):  SExcept scope adds_note reraises  for every `except` handler
                                         SFinally leaves                   for every `finally` block: does it contain a
                                                                           return / break / continue that leaves it
                                         SWith suppresses                  for every `with` item (contextlib.suppress = true;
                                                                           a known non-suppressing manager = false;
                                                                           anything else: fail closed)
  src_refs         (function, [functions of FUNCS it refers to]): call edges of the paths
  src_handlers     the round-1 table (function, adds a note, ends in a bare `raise`)
  src_wait_check / src_wait_check_old    run_evolve calls wait_check() after evolve()  (new / deprecated archipelago)

Properties/C09.v proves over these tables (vm_compute) that every path of every entry point exists, is
connected, and has no construct that can drop an exception (`source_ok`), that the three note-adding
handlers exist, catch every Exception and re-raise, and instantiates the generic propagation theorems with them.
Fails closed when a function is missing or a shape is not one of those listed here.
"""
from __future__ import annotations

import ast
from pathlib import Path

from harness.core import TranslationError

from .common import HEADER, fail, parse

# qualified name (as used in Model/Failure.v) -> (file, class, function)
FUNCS = {
    "ModelFunction.__call__": ("pyxel/pipelines/model_function.py", "ModelFunction", "__call__"),
    "ModelGroup.run": ("pyxel/pipelines/model_group.py", "ModelGroup", "run"),
    "Processor.run_pipeline": ("pyxel/pipelines/processor.py", "Processor", "run_pipeline"),
    "randomize.set_random_seed": ("pyxel/util/randomize.py", None, "set_random_seed"),
    "exposure.run_pipeline": ("pyxel/exposure/exposure.py", None, "run_pipeline"),
    "exposure._run_exposure_pipeline_deprecated": ("pyxel/exposure/exposure.py", None, "_run_exposure_pipeline_deprecated"),
    "Exposure.run_exposure": ("pyxel/exposure/exposure.py", "Exposure", "run_exposure"),
    "Exposure._run_exposure_deprecated": ("pyxel/exposure/exposure.py", "Exposure", "_run_exposure_deprecated"),
    "Observation.run_pipelines": ("pyxel/observation/observation.py", "Observation", "run_pipelines"),
    "Observation._run_single_pipeline": ("pyxel/observation/observation.py", "Observation", "_run_single_pipeline"),
    "observation_dask._run_pipelines_array_to_datatree":
        ("pyxel/observation/observation_dask.py", None, "_run_pipelines_array_to_datatree"),
    "observation_dask._run_pipelines_tuple_to_array":
        ("pyxel/observation/observation_dask.py", None, "_run_pipelines_tuple_to_array"),
    "observation_dask.run_pipelines_with_dask": ("pyxel/observation/observation_dask.py", None, "run_pipelines_with_dask"),
    "deprecated._run_observation_deprecated": ("pyxel/observation/deprecated.py", None, "_run_observation_deprecated"),
    "deprecated._apply_exposure_pipeline_product":
        ("pyxel/observation/deprecated.py", None, "_apply_exposure_pipeline_product"),
    "deprecated._apply_exposure_pipeline_sequential":
        ("pyxel/observation/deprecated.py", None, "_apply_exposure_pipeline_sequential"),
    "deprecated._apply_exposure_pipeline_custom": ("pyxel/observation/deprecated.py", None, "_apply_exposure_pipeline_custom"),
    "ModelFittingDataTree.fitness": ("pyxel/calibration/fitting_datatree.py", "ModelFittingDataTree", "fitness"),
    "ModelFittingDataTree._apply_parameters":
        ("pyxel/calibration/fitting_datatree.py", "ModelFittingDataTree", "_apply_parameters"),
    "ModelFittingDataTree.apply_parameters_to_processors":
        ("pyxel/calibration/fitting_datatree.py", "ModelFittingDataTree", "apply_parameters_to_processors"),
    "ModelFitting.fitness": ("pyxel/calibration/fitting.py", "ModelFitting", "fitness"),
    "ArchipelagoDataTree.__init__": ("pyxel/calibration/archipelago_datatree.py", "ArchipelagoDataTree", "__init__"),
    "ArchipelagoDataTree._build": ("pyxel/calibration/archipelago_datatree.py", "ArchipelagoDataTree", "_build"),
    "ArchipelagoDataTree.run_evolve": ("pyxel/calibration/archipelago_datatree.py", "ArchipelagoDataTree", "run_evolve"),
    "MyArchipelago.__init__": ("pyxel/calibration/archipelago.py", "MyArchipelago", "__init__"),
    "MyArchipelago._build": ("pyxel/calibration/archipelago.py", "MyArchipelago", "_build"),
    "MyArchipelago.run_evolve": ("pyxel/calibration/archipelago.py", "MyArchipelago", "run_evolve"),
    "DaskBFE.__call__": ("pyxel/calibration/user_defined.py", "DaskBFE", "__call__"),
    "DaskIsland.run_evolve": ("pyxel/calibration/user_defined.py", "DaskIsland", "run_evolve"),
    "ProblemSerializable.fitness": ("pyxel/calibration/user_defined.py", "ProblemSerializable", "fitness"),
    "AlgoSerializable.evolve": ("pyxel/calibration/user_defined.py", "AlgoSerializable", "evolve"),
    "Calibration.run_calibration": ("pyxel/calibration/calibration.py", "Calibration", "run_calibration"),
    "Calibration._run_calibration_deprecated": ("pyxel/calibration/calibration.py", "Calibration", "_run_calibration_deprecated"),
    "run.run_mode": ("pyxel/run.py", None, "run_mode"),
    "run._run_exposure_mode": ("pyxel/run.py", None, "_run_exposure_mode"),
    "run._run_calibration_mode": ("pyxel/run.py", None, "_run_calibration_mode"),
    "run.run": ("pyxel/run.py", None, "run"),
    "run.run_config": ("pyxel/run.py", None, "run_config"),
    "run.exposure_mode": ("pyxel/run.py", None, "exposure_mode"),
    "run.observation_mode": ("pyxel/run.py", None, "observation_mode"),
    "run.calibration_mode": ("pyxel/run.py", None, "calibration_mode"),
}

# handlers for these classes cannot intercept a model's exception (import guards)
HARMLESS = {"ModuleNotFoundError", "ImportError"}

# context managers whose __exit__ never suppresses (standard library, numpy, dask, tqdm, xarray, pyxel's
# generator-based set_random_seed - whose own body is checked as a function of the paths)
WITH_OK = {
    "open", "TemporaryDirectory", "NamedTemporaryFile", "TemporaryFile", "SpooledTemporaryFile",
    "ThreadPoolExecutor", "ProcessPoolExecutor", "Pool", "tqdm", "trange", "catch_warnings", "errstate",
    "nullcontext", "redirect_stdout", "redirect_stderr", "chdir", "set", "set_options", "SetOptions",
    "printoptions", "localcontext", "Lock", "RLock", "Semaphore", "closing", "ProgressBar", "Client",
    "LocalCluster", "performance_report", "set_random_seed", "logging_redirect_tqdm", "Timer", "timer",
    "ZipFile", "File", "annotate", "config", "freeze_time",
}
WITH_SUPPRESS = {"suppress"}


def _find(tree: ast.Module, cls: str | None, name: str) -> ast.FunctionDef:
    scope: ast.AST = tree
    if cls is not None:
        cands = [n for n in ast.walk(tree) if isinstance(n, ast.ClassDef) and n.name == cls]
        if len(cands) != 1:
            raise TranslationError(f"class {cls}: found {len(cands)}")
        scope = cands[0]
    cands = [n for n in scope.body if isinstance(n, ast.FunctionDef) and n.name == name]  # type: ignore[attr-defined]
    if len(cands) != 1:
        raise TranslationError(f"function {cls + '.' if cls else ''}{name}: found {len(cands)}")
    return cands[0]


def _catches(h: ast.ExceptHandler) -> list[str]:
    if h.type is None:
        return ["BaseException"]
    if isinstance(h.type, ast.Tuple):
        return [ast.unparse(e) for e in h.type.elts]
    return [ast.unparse(h.type)]


def _scope(h: ast.ExceptHandler) -> str:
    names = {c.split(".")[-1] for c in _catches(h)}
    if "BaseException" in names:
        return "ScAll"
    if "Exception" in names:
        return "ScException"
    return "ScSome"


def _adds_note(h: ast.ExceptHandler) -> bool:
    return any(isinstance(n, ast.Call) and isinstance(n.func, ast.Attribute) and n.func.attr == "add_note"
               for n in ast.walk(h))


def _bare_reraise(h: ast.ExceptHandler) -> bool:
    """The handler's last statement is a bare `raise`, and no statement can leave the handler earlier."""
    if not h.body:
        return False
    last = h.body[-1]
    if not (isinstance(last, ast.Raise) and last.exc is None):
        return False
    for n in ast.walk(h):
        if isinstance(n, (ast.Return, ast.Continue, ast.Break)):
            return False
        if isinstance(n, ast.Raise) and n.exc is not None:
            return False
    return True


def _leaves(stmts: list[ast.stmt], in_loop: bool = False) -> bool:
    """Does this block (a `finally` body) contain a return, or a break/continue that leaves it?
    Nested function and class definitions are other scopes; break/continue inside a loop that is itself
    inside the block stay inside."""
    for st in stmts:
        if isinstance(st, (ast.FunctionDef, ast.AsyncFunctionDef, ast.ClassDef, ast.Lambda)):
            continue
        if isinstance(st, ast.Return):
            return True
        if isinstance(st, (ast.Break, ast.Continue)) and not in_loop:
            return True
        loop = in_loop or isinstance(st, (ast.For, ast.AsyncFor, ast.While))
        for field in ("body", "orelse", "finalbody"):
            sub = getattr(st, field, None)
            if isinstance(sub, list) and sub and isinstance(sub[0], ast.stmt):
                # the `else` of a loop is not inside the loop
                if _leaves(sub, in_loop if (field == "orelse" and isinstance(st, (ast.For, ast.AsyncFor, ast.While)))
                           else loop):
                    return True
        for h in getattr(st, "handlers", []) or []:
            if _leaves(h.body, in_loop):
                return True
        if hasattr(ast, "Match") and isinstance(st, ast.Match):
            for case in st.cases:
                if _leaves(case.body, in_loop):
                    return True
    return False


def _manager_name(e: ast.expr) -> str:
    if isinstance(e, ast.Call):
        e = e.func
    if isinstance(e, ast.Attribute):
        return e.attr
    if isinstance(e, ast.Name):
        return e.id
    return ""


def _only_imports(body: list[ast.stmt]) -> bool:
    return bool(body) and all(isinstance(s, (ast.Import, ast.ImportFrom)) for s in body)


def shapes_of(fn: ast.FunctionDef, qual: str):
    """([shape text], [round-1 handler rows]) of one function (nested functions included)."""
    shapes, rows = [], []
    for n in ast.walk(fn):
        if hasattr(ast, "TryStar") and isinstance(n, ast.TryStar):
            fail(n, "except* is not handled")
        if isinstance(n, ast.Try):
            for h in n.handlers:
                if set(c.split(".")[-1] for c in _catches(h)) <= HARMLESS or _only_imports(n.body):
                    continue
                a, r = _adds_note(h), _bare_reraise(h)
                shapes.append(f"SExcept {_scope(h)} {b(a)} {b(r)}")
                rows.append((qual, a, r))
            if n.finalbody:
                shapes.append(f"SFinally {b(_leaves(n.finalbody))}")
        if isinstance(n, (ast.With, ast.AsyncWith)):
            for it in n.items:
                name = _manager_name(it.context_expr)
                if name in WITH_SUPPRESS:
                    shapes.append("SWith true")
                    rows.append((qual, False, False))
                elif name in WITH_OK or name.lower().endswith("lock"):
                    shapes.append("SWith false")
                else:
                    fail(n, f"{qual}: context manager not known to propagate exceptions")
    return shapes, rows


def _refs(fn: ast.FunctionDef) -> set[str]:
    out = set()
    for n in ast.walk(fn):
        if isinstance(n, ast.Name):
            out.add(n.id)
        elif isinstance(n, ast.Attribute):
            out.add(n.attr)
    return out


def _simple(qual: str) -> str | None:
    left, right = qual.rsplit(".", 1)
    if right == "__init__":
        return left
    if right == "__call__":
        return None
    return right


def _wait_check(fn: ast.FunctionDef) -> bool:
    """evolve() and wait_check() in the same loop body, in this order."""
    ok = False
    for loop in [x for x in ast.walk(fn) if isinstance(x, ast.For)]:
        calls = [c.func.attr for st in loop.body for c in ast.walk(st)
                 if isinstance(c, ast.Call) and isinstance(c.func, ast.Attribute)
                 and c.func.attr in ("evolve", "wait_check")]
        if "evolve" in calls:
            ok = "wait_check" in calls and calls.index("evolve") < calls.index("wait_check")
    return ok


def b(x) -> str:
    return "true" if x else "false"


def tables_of(repo: Path):
    trees: dict[str, ast.Module] = {}
    cons, refs, rows, wc = [], [], [], {}
    for qual, (rel, cls, name) in FUNCS.items():
        if rel not in trees:
            trees[rel] = parse(repo, rel)
        fn = _find(trees[rel], cls, name)
        shapes, rws = shapes_of(fn, qual)
        cons.append((qual, shapes))
        rows += rws
        names = _refs(fn)
        refs.append((qual, [g for g in FUNCS if g != qual and _simple(g) is not None and _simple(g) in names]))
        if name == "run_evolve" and cls in ("ArchipelagoDataTree", "MyArchipelago"):
            wc[cls] = _wait_check(fn)
    return cons, refs, rows, wc.get("ArchipelagoDataTree", False), wc.get("MyArchipelago", False)


def render(cons, refs, rows, wc, wc_old) -> str:
    def strs(xs):
        return "[" + "; ".join(f'"{x}"' for x in xs) + "]"
    c_body = ";\n   ".join(f'("{q}", [{"; ".join(ss)}])' for q, ss in cons)
    r_body = ";\n   ".join(f'("{q}", {strs(gs)})' for q, gs in refs)
    h_body = "; ".join(f'("{q}", {b(a)}, {b(r)})' for q, a, r in rows)
    return (HEADER + "From Coq Require Import List String Bool.\nFrom PyxelV Require Import Model.Failure.\n"
            "Import ListNotations.\nOpen Scope string_scope.\nOpen Scope list_scope.\n"
            f"Definition src_constructs : list (string * list shape) :=\n  [{c_body}].\n"
            f"Definition src_refs : list (string * list string) :=\n  [{r_body}].\n"
            f"Definition src_handlers : list (string * bool * bool) := [{h_body}].\n"
            f"Definition src_wait_check : bool := {b(wc)}.\n"
            f"Definition src_wait_check_old : bool := {b(wc_old)}.\n")


def translate(repo: Path) -> str:
    return render(*tables_of(repo))


def _fallback() -> str:
    """The tables of the unchanged tree (kept next to this module; regenerate with
    `python -m translator.c09 --write-fallback` after a reviewed change of the anchored code)."""
    return (Path(__file__).with_name("c09_fallback.txt")).read_text()


FALLBACK = _fallback()


if __name__ == "__main__":
    import sys

    text = translate(Path("/repo"))
    if "--write-fallback" in sys.argv:
        Path(__file__).with_name("c09_fallback.txt").write_text(text)
    else:
        print(text)
