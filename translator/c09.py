"""Exception handlers on the path of a model call -> Gallina table.

For every function through which a model's exception travels to the caller, list the `except`
handlers that could intercept it: (function, adds a note, ends in a bare `raise`).  Properties/C09.v
proves over this table that every handler re-raises the same exception and that the three
note-adding handlers of the model exist.  Also: does run_evolve call `wait_check()` after `evolve()`.
Fails closed when a function is missing or a construct that can swallow exceptions appears.
"""
from __future__ import annotations

import ast
from pathlib import Path

from harness.core import TranslationError

from .common import HEADER, fail, find_func, parse

FUNCS = [
    ("pyxel/pipelines/model_function.py", "ModelFunction", "__call__"),
    ("pyxel/pipelines/model_group.py", "ModelGroup", "run"),
    ("pyxel/pipelines/processor.py", "Processor", "run_pipeline"),
    ("pyxel/exposure/exposure.py", None, "run_pipeline"),
    ("pyxel/exposure/exposure.py", "Exposure", "run_exposure"),
    ("pyxel/observation/observation.py", "Observation", "run_pipelines"),
    ("pyxel/observation/observation.py", "Observation", "_run_single_pipeline"),
    ("pyxel/observation/observation_dask.py", None, "_run_pipelines_array_to_datatree"),
    ("pyxel/observation/observation_dask.py", None, "_run_pipelines_tuple_to_array"),
    ("pyxel/observation/observation_dask.py", None, "run_pipelines_with_dask"),
    ("pyxel/calibration/fitting_datatree.py", "ModelFittingDataTree", "fitness"),
    ("pyxel/calibration/fitting_datatree.py", "ModelFittingDataTree", "_apply_parameters"),
    ("pyxel/calibration/archipelago_datatree.py", "ArchipelagoDataTree", "run_evolve"),
    ("pyxel/calibration/archipelago_datatree.py", "ArchipelagoDataTree", "_build"),
    ("pyxel/calibration/calibration.py", "Calibration", "run_calibration"),
    ("pyxel/run.py", None, "run_mode"),
    ("pyxel/run.py", None, "_run_exposure_mode"),
    ("pyxel/run.py", None, "_run_calibration_mode"),
]

# handlers for these classes cannot intercept a model's exception (import guards)
HARMLESS = {"ModuleNotFoundError", "ImportError"}


def _catches(h: ast.ExceptHandler) -> list[str]:
    if h.type is None:
        return ["BaseException"]
    if isinstance(h.type, ast.Tuple):
        return [ast.unparse(e) for e in h.type.elts]
    return [ast.unparse(h.type)]


def _adds_note(h: ast.ExceptHandler) -> bool:
    return any(isinstance(n, ast.Call) and isinstance(n.func, ast.Attribute) and n.func.attr == "add_note"
               for n in ast.walk(h))


def _bare_reraise(h: ast.ExceptHandler) -> bool:
    """The handler's last statement is a bare `raise`, and no statement can leave the handler earlier."""
    if not h.body:
        return False
    last = h.body[-1]
    if not (isinstance(last, ast.Raise) and last.exc is None):
        return False
    for n in ast.walk(h):
        if isinstance(n, (ast.Return, ast.Continue, ast.Break)):
            return False
        if isinstance(n, ast.Raise) and n.exc is not None:
            return False
    return True


def rows_of(repo: Path):
    rows, wait_check = [], False
    for rel, cls, name in FUNCS:
        tree = parse(repo, rel)
        fn = find_func(tree, name, cls)
        qual = f"{cls}.{name}" if cls else f"{Path(rel).stem}.{name}"
        for n in ast.walk(fn):
            if isinstance(n, ast.Try):
                for h in n.handlers:
                    if set(_catches(h)) <= HARMLESS:
                        continue
                    rows.append((qual, _adds_note(h), _bare_reraise(h)))
            if isinstance(n, (ast.With, ast.AsyncWith)):
                for it in n.items:
                    if "suppress" in ast.unparse(it.context_expr):
                        rows.append((qual, False, False))
            if hasattr(ast, "TryStar") and isinstance(n, ast.TryStar):
                fail(n, "except* is not handled")
        if name == "run_evolve":
            # evolve() and wait_check() in the same loop body, in this order
            for loop in [x for x in ast.walk(fn) if isinstance(x, ast.For)]:
                calls = [c.func.attr for st in loop.body for c in ast.walk(st)
                         if isinstance(c, ast.Call) and isinstance(c.func, ast.Attribute)
                         and c.func.attr in ("evolve", "wait_check")]
                if "evolve" in calls:
                    wait_check = "wait_check" in calls and calls.index("evolve") < calls.index("wait_check")
    return rows, wait_check


def render(rows, wait_check) -> str:
    def b(x):
        return "true" if x else "false"
    body = "; ".join(f'("{q}", {b(a)}, {b(r)})' for q, a, r in rows)
    return (HEADER + "From Coq Require Import List String Bool.\nImport ListNotations.\nOpen Scope string_scope.\n"
            f"Definition src_handlers : list (string * bool * bool) := [{body}]%list.\n"
            f"Definition src_wait_check : bool := {b(wait_check)}.\n")


def translate(repo: Path) -> str:
    rows, wc = rows_of(repo)
    return render(rows, wc)


FALLBACK = render([("ModelGroup.run", True, True), ("Observation._run_single_pipeline", True, True),
                   ("ModelFittingDataTree.fitness", True, True)], True)
