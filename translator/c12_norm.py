"""C12: behaviour-preserving NORMALISATIONS applied to a function's AST before the recognisers of translator/c12.py
read it.  The recognisers accept few shapes (fail closed); this pass maps syntactically different but equivalent
shapes onto them.  Every rewrite below preserves what the function does on the observables the property reads (which
checks run on which value, what is stored, which section goes to which builder); a shape that cannot be rewritten
safely is LEFT AS IT IS (the recognisers then fail closed on it as before).  Message texts are never read.

One forward, flow-sensitive pass `Normalizer.block` does, statement by statement:

(a) INLINING of calls to PRIVATE helpers (`_name`) of the same package - module-level functions, functions imported from another module of
    the package (`from pyxel.x import f`, `from .x import f`), methods / staticmethods of the same class
    (`self.f(..)`, `Cls.f(..)`, `type(self).f(..)`), and property setters of the same class (`self.prop = v`):
    parameters are replaced by the argument expressions (names, constants, attribute chains, literals used once;
    anything else is bound to a fresh local first), helper locals get fresh names, early `return`s are turned into
    nested if/else (below) and the result is spliced in place of `f(..)` / `x = f(..)` / `return f(..)`.  A helper whose
    body is one `return <expr>` is also inlined inside expressions.  Not inlined: generators, decorated functions,
    *args/**kwargs, recursion deeper than 4, a `return` inside a loop that cannot be unrolled / try / with, a helper
    that re-binds a parameter it was given by name, a helper whose free names are shadowed in the caller.
(b) ALIASES: a local that is assigned exactly once, from a side-effect-free expression (name, constant, attribute
    chain, subscript, literal container, comparison, call of a side-effect-free builtin or `.get(..)`), is replaced by
    that expression in the statements that follow - until something the expression reads is re-bound or stored to
    (`cur = self._x; self._x = v; use(cur)` keeps `cur`).  A literal container is only substituted if the local is
    never mutated (`.append`, `x[k] = ..`, `+=`, passed to an unknown function).
(c) GUARD CLAUSES: `if c: A else: <ends in raise/return>` == `if not c: <..>` followed by A; `if c: pass else: B` ==
    `if not c: B`; early `return`s == nested if/else (`to_tail`); `not (a is b)` == `a is not b`, `not (a in b)` ==
    `a not in b`, `not not c` == `c`.  Ordering comparisons are never negated (NaN).
(e) `match` on `None` / literals / dotted names / class patterns without arguments / or-patterns / capture / wildcard
    == if/elif on `is None` / `==` / isinstance; a capture binds an alias of the subject.
(f) `for` over a literal tuple / list / `{..}.items()` / `.keys()` / `.values()` / `enumerate(<literal>)` with at most 16
    elements is unrolled (`continue` == nested if/else; `break` / for-else == the later elements nested in the branches
    that do not reach the `break`); the counting loop
    `n = 0; for v in L: if T: n += 1` == `n = sum(1 for v in L if T)`, `for v in L: n += T` == `n = sum(T for v in L)`,
    `xs = []; for v in L: [if T:] xs.append(E)` == `xs = [E for v in L if T]`.
(g) a name that is not bound in the function and has exactly one module-level assignment to a literal (constant,
    tuple / list / dict / set of literals) is replaced by the literal; likewise `self.NAME` / `cls.NAME` / `Cls.NAME`
    with exactly one class-level assignment to a literal and no store to it anywhere in the class.
(h) docstrings, `pass`, annotations without value, logging calls are dropped; annotated assignments become plain ones.
(e') `{"a": f, "b": g}["a"]` == `f` and `(lo, hi)[1]` == `hi` for literals with side-effect-free elements (a dispatch dict
    built in the function, after its name was substituted and the loop over its keys unrolled); `lo, hi = (0.0, 1.0)` binds
    two aliases.
(j) arithmetic on two numeric literals, `"a" + "b"` and f-strings of string literals are folded; `getattr(o, "n")` == `o.n`;
    `setattr(o, "n", v)` == `o.n = v`.
(i) `if c: self.f = a else: self.f = b` == `self.f = a if c else b`; `dict(a=x, b=y)` == `{"a": x, "b": y}`; a bare
    `return` at the very end of the function is dropped.
"""
from __future__ import annotations

import ast
import copy
from pathlib import Path

PURE_BUILTINS = {"len", "sum", "bool", "float", "int", "tuple", "list", "isinstance", "min", "max", "abs", "repr", "str",
                 "sorted", "set", "frozenset", "dict", "any", "all", "map", "enumerate", "zip", "type", "round", "range",
                 "reversed", "iter", "next", "filter", "id", "hash", "callable", "getattr", "hasattr"}
PURE_DOTTED = {"np.min", "np.max", "numpy.min", "numpy.max", "np.isnan", "numpy.isnan", "math.isnan", "np.ndim", "np.shape",
               "np.asarray", "np.array", "np.all", "np.any", "math.isfinite", "np.isfinite"}
READONLY_METHODS = {"items", "keys", "values", "get", "index", "count", "copy", "join", "format"}
LOG_ROOTS = {"logging", "logger", "log", "_logger", "_log", "LOGGER"}
MAX_UNROLL = 16
MAX_DEPTH = 4


class _No(Exception):
    """this rewrite does not apply - leave the code as it is"""


# ------------------------------------------------------------------------------------------------ small helpers


def is_literal(n) -> bool:
    if isinstance(n, ast.Constant):
        return True
    if isinstance(n, ast.UnaryOp) and isinstance(n.op, (ast.USub, ast.UAdd)) and isinstance(n.operand, ast.Constant):
        return True
    if isinstance(n, (ast.Tuple, ast.List, ast.Set)):
        return all(is_literal(e) for e in n.elts)
    if isinstance(n, ast.Dict):
        return all(k is not None and is_literal(k) and is_literal(v) for k, v in zip(n.keys, n.values))
    return False


def is_container(n) -> bool:
    return isinstance(n, (ast.List, ast.Dict, ast.Set, ast.ListComp, ast.DictComp, ast.SetComp))


def walk_shallow(node):
    """ast.walk that does not enter nested function / class / lambda bodies"""
    todo = [node]
    while todo:
        n = todo.pop()
        yield n
        for c in ast.iter_child_nodes(n):
            if isinstance(c, (ast.FunctionDef, ast.AsyncFunctionDef, ast.ClassDef, ast.Lambda)):
                continue
            todo.append(c)


def has_node(stmts, kinds) -> bool:
    return any(isinstance(n, kinds) for s in stmts for n in walk_shallow(s))


def stores_of(node) -> list[str]:
    """every local name the code binds (assignment, for, with, except, walrus, comprehension variables, import)"""
    out = []
    for n in ast.walk(node):
        if isinstance(n, ast.Name) and isinstance(n.ctx, (ast.Store, ast.Del)):
            out.append(n.id)
        elif isinstance(n, ast.ExceptHandler) and n.name:
            out.append(n.name)
        elif isinstance(n, ast.alias):
            out.append((n.asname or n.name).split(".")[0])
        elif isinstance(n, (ast.FunctionDef, ast.ClassDef)) and n is not node:
            out.append(n.name)
        elif isinstance(n, (ast.MatchAs, ast.MatchStar)) and n.name:
            out.append(n.name)
        elif isinstance(n, ast.MatchMapping) and n.rest:
            out.append(n.rest)
    return out


def params_of(fn) -> list[str]:
    a = fn.args
    names = [x.arg for x in a.posonlyargs + a.args + a.kwonlyargs]
    if a.vararg:
        names.append(a.vararg.arg)
    if a.kwarg:
        names.append(a.kwarg.arg)
    return names


def body_no_doc(fn):
    b = list(fn.body)
    if b and isinstance(b[0], ast.Expr) and isinstance(b[0].value, ast.Constant) and isinstance(b[0].value.value, str):
        b = b[1:]
    return b


def terminates(stmts) -> bool:
    return bool(stmts) and isinstance(stmts[-1], (ast.Raise, ast.Return))


def negate(test):
    """`not test`, simplified where that is exact for every operand"""
    if isinstance(test, ast.UnaryOp) and isinstance(test.op, ast.Not):
        return test.operand
    if isinstance(test, ast.Compare) and len(test.ops) == 1:
        flip = {ast.Is: ast.IsNot, ast.IsNot: ast.Is, ast.In: ast.NotIn, ast.NotIn: ast.In}.get(type(test.ops[0]))
        if flip is not None:
            return ast.Compare(left=test.left, ops=[flip()], comparators=test.comparators)
    return ast.UnaryOp(op=ast.Not(), operand=test)


class _Subst(ast.NodeTransformer):
    """replace loaded names by expressions (deep copies); does not enter nested defs that re-bind the name"""

    def __init__(self, mapping):
        self.mapping = mapping

    def visit_Name(self, node):
        if isinstance(node.ctx, ast.Load) and node.id in self.mapping:
            return copy.deepcopy(self.mapping[node.id])
        return node

    def _scoped(self, node, bound):
        inner = {k: v for k, v in self.mapping.items() if k not in bound}
        if len(inner) == len(self.mapping):
            return self.generic_visit(node)
        if not inner:
            return node
        return _Subst(inner).generic_visit(node)

    def visit_Lambda(self, node):
        return self._scoped(node, set(params_of(node)))

    def visit_FunctionDef(self, node):
        return self._scoped(node, set(params_of(node)) | set(stores_of(node)))

    def _comp(self, node):
        bound = set()
        for g in node.generators:
            bound |= set(stores_of(g.target))
        return self._scoped(node, bound)

    visit_ListComp = visit_SetComp = visit_DictComp = visit_GeneratorExp = _comp


def subst(node, mapping):
    if not mapping:
        return node
    return ast.fix_missing_locations(_Subst(mapping).visit(node))


class _Rename(ast.NodeTransformer):
    def __init__(self, mapping):
        self.mapping = mapping

    def visit_Name(self, node):
        if node.id in self.mapping:
            return ast.copy_location(ast.Name(id=self.mapping[node.id], ctx=node.ctx), node)
        return node

    def visit_ExceptHandler(self, node):
        if node.name in self.mapping:
            node.name = self.mapping[node.name]
        return self.generic_visit(node)

    def visit_alias(self, node):
        local = (node.asname or node.name).split(".")[0]
        if local in self.mapping and "." not in (node.asname or node.name):
            node.asname = self.mapping[local]
        return node

    def visit_MatchAs(self, node):
        if node.name in self.mapping:
            node.name = self.mapping[node.name]
        return self.generic_visit(node)


def _trivial(v) -> bool:
    """names, constants and literal containers of them: evaluating it reads no object state and cannot fail"""
    if isinstance(v, (ast.Name, ast.Constant)):
        return True
    if isinstance(v, ast.UnaryOp) and isinstance(v.operand, ast.Constant):
        return True
    if isinstance(v, (ast.Tuple, ast.List, ast.Set)):
        return all(_trivial(e) for e in v.elts)
    if isinstance(v, ast.Dict):
        return all(k is not None and _trivial(k) and _trivial(x) for k, x in zip(v.keys, v.values))
    return False


def _is_self_attr(node) -> bool:
    return isinstance(node, ast.Attribute) and isinstance(node.value, ast.Name) and node.value.id == "self"


def text(node) -> str:
    return ast.unparse(node)


def attr_chain(node):
    """a.b.c -> 'a.b.c' ; None for anything else"""
    parts = []
    while isinstance(node, ast.Attribute):
        parts.append(node.attr)
        node = node.value
    if isinstance(node, ast.Name):
        parts.append(node.id)
        return ".".join(reversed(parts))
    return None


# ------------------------------------------------------------------------------------------------ module context


class ModuleCtx:
    """one parsed module of the repository: its functions, classes, literal constants and package imports"""
    _cache: dict = {}

    def __init__(self, repo: Path, rel: str, tree: ast.Module | None = None):
        self.repo, self.rel = Path(repo), rel
        self.tree = tree if tree is not None else ast.parse((self.repo / rel).read_text())
        self.funcs = {}
        self.classes = {}
        self.consts = {}
        self.imports = {}          # local name -> (module rel path, remote name)
        assigned = {}
        for st in self.tree.body:
            if isinstance(st, ast.FunctionDef):
                self.funcs[st.name] = None if st.name in self.funcs else st
            elif isinstance(st, ast.ClassDef):
                self.classes[st.name] = st
            elif isinstance(st, ast.ImportFrom):
                mod = self._module_path(st)
                for al in st.names:
                    if mod is not None and al.name != "*":
                        self.imports[al.asname or al.name] = (mod, al.name)
            for nm in stores_of(st) if not isinstance(st, (ast.FunctionDef, ast.ClassDef)) else [st.name]:
                assigned[nm] = assigned.get(nm, 0) + 1
        globals_declared = {g for n in ast.walk(self.tree) if isinstance(n, ast.Global) for g in n.names}
        touched = set()                 # names that may be mutated in place somewhere in the module
        for n in ast.walk(self.tree):
            if isinstance(n, ast.Call) and isinstance(n.func, ast.Attribute) and isinstance(n.func.value, ast.Name) \
                    and n.func.attr not in READONLY_METHODS:
                touched.add(n.func.value.id)
            elif isinstance(n, (ast.Subscript, ast.Attribute)) and isinstance(n.ctx, (ast.Store, ast.Del)):
                b = n.value
                while isinstance(b, (ast.Subscript, ast.Attribute)):
                    b = b.value
                if isinstance(b, ast.Name):
                    touched.add(b.id)
            elif isinstance(n, ast.AugAssign) and isinstance(n.target, ast.Name):
                touched.add(n.target.id)
        for st in self.tree.body:
            tgt = val = None
            if isinstance(st, ast.Assign) and len(st.targets) == 1 and isinstance(st.targets[0], ast.Name):
                tgt, val = st.targets[0].id, st.value
            elif isinstance(st, ast.AnnAssign) and isinstance(st.target, ast.Name) and st.value is not None:
                tgt, val = st.target.id, st.value
            if tgt and assigned.get(tgt) == 1 and tgt not in globals_declared and is_literal(val) \
                    and not (tgt in touched and any(is_container(m) for m in ast.walk(val))):
                self.consts[tgt] = val

    def _module_path(self, st: ast.ImportFrom):
        if st.level:
            base = Path(self.rel).parent
            for _ in range(st.level - 1):
                base = base.parent
            parts = list(base.parts) + (st.module.split(".") if st.module else [])
        else:
            parts = (st.module or "").split(".")
        if not parts or parts[0] != "pyxel":
            return None
        for cand in ("/".join(parts) + ".py", "/".join(parts) + "/__init__.py"):
            if (self.repo / cand).exists():
                return cand
        return None

    @classmethod
    def load(cls, repo: Path, rel: str):
        key = (str(repo), rel)
        try:
            mtime = (Path(repo) / rel).stat().st_mtime_ns
        except OSError:
            return None
        hit = cls._cache.get(key)
        if hit and hit[0] == mtime:
            return hit[1]
        try:
            m = cls(repo, rel)
        except (SyntaxError, OSError):
            return None
        cls._cache[key] = (mtime, m)
        return m

    def class_consts(self, cname: str) -> dict:
        cn = self.classes.get(cname)
        if cn is None or cn.decorator_list:
            return {}                      # dataclass & co: a class-level value is the default of an instance field
        cnt, vals = {}, {}
        for st in cn.body:
            tgt = val = None
            if isinstance(st, ast.Assign) and len(st.targets) == 1 and isinstance(st.targets[0], ast.Name):
                tgt, val = st.targets[0].id, st.value
            for nm in stores_of(st) if not isinstance(st, (ast.FunctionDef, ast.ClassDef)) else [st.name]:
                cnt[nm] = cnt.get(nm, 0) + 1
            if tgt and is_literal(val):
                vals[tgt] = val
        stored_attrs = {n.attr for n in ast.walk(cn) if isinstance(n, ast.Attribute) and isinstance(n.ctx, (ast.Store, ast.Del))}
        return {k: v for k, v in vals.items() if cnt.get(k) == 1 and k not in stored_attrs}


# ------------------------------------------------------------------------------------------------ early returns


def to_tail(stmts, terminators=(ast.Return,)):
    """the same statements with every `return` (or `continue`) in tail position: the statements that follow an `if` which
    contains one are moved into its branches.  raises _No if one sits inside a loop / try / with."""
    out = []
    for i, s in enumerate(stmts):
        if isinstance(s, terminators) or isinstance(s, ast.Raise):
            out.append(s)
            return out
        if any(isinstance(n, terminators) for n in walk_shallow(s)):
            if not isinstance(s, ast.If):
                raise _No("return inside a loop / try / with")
            rest = stmts[i + 1:]
            body = to_tail(list(s.body) + copy.deepcopy(rest), terminators)
            orelse = to_tail(list(s.orelse) + copy.deepcopy(rest), terminators)
            out.append(ast.If(test=s.test, body=body or [ast.Pass()], orelse=orelse))
            return out
        out.append(s)
    return out


def map_tails(stmts, on_return, on_fall):
    """rewrite the tail positions of a `to_tail` block: `return e` -> on_return(e) ; falling off the end -> on_fall()"""
    if not stmts:
        return on_fall()
    *init, last = stmts
    if isinstance(last, ast.Return):
        return init + on_return(last.value)
    if isinstance(last, ast.Raise):
        return stmts
    if isinstance(last, ast.If) and has_node([last], ast.Return):
        new = ast.If(test=last.test, body=map_tails(list(last.body), on_return, on_fall) or [ast.Pass()],
                     orelse=map_tails(list(last.orelse), on_return, on_fall))
        return init + [new]
    return stmts + on_fall()


# ------------------------------------------------------------------------------------------------ the pass


class Normalizer:
    def __init__(self, repo: Path, rel: str, tree: ast.Module | None = None, cls: str | None = None, atoms=None):
        self.atoms = atoms or (lambda name: False)      # functions the recognisers read by name: never inlined
        self.repo = Path(repo)
        self.mod = ModuleCtx(self.repo, rel, tree) if tree is not None else (ModuleCtx.load(self.repo, rel) or ModuleCtx(self.repo, rel))
        self.cls = cls
        self.counter = 0
        self.notes: list[str] = []

    # -------------------------------------------------------------------------------- entry
    def function(self, fn: ast.FunctionDef) -> ast.FunctionDef:
        fn = copy.deepcopy(fn)
        self.fn_params = set(params_of(fn))
        body = body_no_doc(fn)
        try:
            body = self._prepare(body, self.mod, self.cls, set(stores_of(fn)) | self.fn_params)
            self.store_count = self._count_stores(body)
            self.mutated = self._mutated_names(body)
            body = self.block(body, {}, depth=0)
            body = self.drop_dead(body)
            if body and isinstance(body[-1], ast.Return) and body[-1].value is None:
                body = body[:-1]                  # a bare `return` at the very end
        except RecursionError:
            return fn
        fn.body = body or [ast.Pass()]
        return ast.fix_missing_locations(fn)

    # -------------------------------------------------------------------------------- preparation (g), (h), (e)
    def _prepare(self, body, mod: ModuleCtx, cls, bound: set):
        """constants of the module / class -> literals; drop annotations-only, pass, logging; match -> if"""
        consts = {k: v for k, v in mod.consts.items() if k not in bound}
        for nm, (orel, remote) in mod.imports.items():          # a constant imported from another module of the package
            if nm not in bound and nm not in consts and nm not in mod.funcs and nm not in mod.classes:
                other = ModuleCtx.load(self.repo, orel)
                if other is not None and remote in other.consts:
                    consts[nm] = other.consts[remote]
        ccs = mod.class_consts(cls) if cls else {}
        out = []
        for st in body:
            st = subst(st, consts)
            if ccs:
                st = self._class_consts(st, ccs, cls)
            out.append(st)
        return out

    def _class_consts(self, st, ccs, cls):
        outer = self

        class T(ast.NodeTransformer):
            def visit_Attribute(self, node):
                self.generic_visit(node)
                if (isinstance(node.ctx, ast.Load) and node.attr in ccs
                        and (text(node.value) in ("self", "cls", cls, "type(self)", "self.__class__"))):
                    return copy.deepcopy(ccs[node.attr])
                return node
        return ast.fix_missing_locations(T().visit(st))

    def _count_stores(self, body) -> dict:
        cnt = {}
        for s in body:
            for nm in stores_of(s):
                cnt[nm] = cnt.get(nm, 0) + 1
        return cnt

    def _mutated_names(self, body) -> set:
        """locals that may be mutated in place: receiver of a non-read-only method, subscript / attribute store, augmented
        assignment, `del`, argument of a call that is neither a side-effect-free builtin nor inlinable"""
        out = set()
        for s in body:
            for n in ast.walk(s):
                if isinstance(n, ast.Call):
                    f = n.func
                    if isinstance(f, ast.Attribute) and isinstance(f.value, ast.Name) and f.attr not in READONLY_METHODS:
                        out.add(f.value.id)
                    pure = (isinstance(f, ast.Name) and f.id in PURE_BUILTINS) or text(f) in PURE_DOTTED \
                        or (isinstance(f, ast.Attribute) and f.attr in READONLY_METHODS)
                    if not pure and self._resolve(n, self.mod, self.cls) is None:
                        for a in list(n.args) + [k.value for k in n.keywords]:
                            for m in ast.walk(a):
                                if isinstance(m, ast.Name):
                                    out.add(m.id)
                elif isinstance(n, (ast.Subscript, ast.Attribute)) and isinstance(n.ctx, (ast.Store, ast.Del)):
                    base = n.value
                    while isinstance(base, (ast.Subscript, ast.Attribute)):
                        base = base.value
                    if isinstance(base, ast.Name):
                        out.add(base.id)
                elif isinstance(n, ast.AugAssign) and isinstance(n.target, ast.Name):
                    out.add(n.target.id)
        return out

    # -------------------------------------------------------------------------------- purity
    def pure(self, e) -> bool:
        """evaluating `e` has no side effect and gives the same result until something it reads changes"""
        if isinstance(e, (ast.Constant, ast.Name)):
            return True
        if isinstance(e, ast.Attribute):
            return self.pure(e.value)
        if isinstance(e, ast.Subscript):
            return self.pure(e.value) and self.pure(e.slice)
        if isinstance(e, (ast.Tuple, ast.List, ast.Set)):
            return all(self.pure(x) for x in e.elts)
        if isinstance(e, ast.Dict):
            return all(k is not None and self.pure(k) and self.pure(v) for k, v in zip(e.keys, e.values))
        if isinstance(e, ast.UnaryOp):
            return self.pure(e.operand)
        if isinstance(e, ast.BinOp):
            return self.pure(e.left) and self.pure(e.right)
        if isinstance(e, ast.BoolOp):
            return all(self.pure(v) for v in e.values)
        if isinstance(e, ast.Compare):
            return self.pure(e.left) and all(self.pure(c) for c in e.comparators)
        if isinstance(e, ast.IfExp):
            return self.pure(e.test) and self.pure(e.body) and self.pure(e.orelse)
        if isinstance(e, (ast.GeneratorExp, ast.ListComp, ast.SetComp)):
            return self.pure(e.elt) and all(self.pure(g.iter) and all(self.pure(i) for i in g.ifs) for g in e.generators)
        if isinstance(e, ast.Call):
            f = e.func
            ok = (isinstance(f, ast.Name) and f.id in PURE_BUILTINS) or text(f) in PURE_DOTTED \
                or (isinstance(f, ast.Attribute) and f.attr in ("get", "items", "keys", "values") and self.pure(f.value))
            return ok and all(self.pure(a) for a in e.args) and all(k.arg is not None and self.pure(k.value) for k in e.keywords)
        if isinstance(e, ast.JoinedStr):
            return True
        return False

    def _pure_call(self, n: ast.Call) -> bool:
        f = n.func
        return (isinstance(f, ast.Name) and f.id in PURE_BUILTINS) or text(f) in PURE_DOTTED \
            or (isinstance(f, ast.Attribute) and f.attr in READONLY_METHODS) \
            or (isinstance(f, ast.Name) and f.id[:1].isupper() and f.id.endswith(("Error", "Exception", "Warning")))

    # -------------------------------------------------------------------------------- the forward pass
    def kill(self, env: dict, st):
        """forget aliases whose expression reads something `st` binds or stores to"""
        names = set(stores_of(st))
        attrs = set()
        for n in ast.walk(st):
            if isinstance(n, (ast.Attribute, ast.Subscript)) and isinstance(n.ctx, (ast.Store, ast.Del)):
                attrs.add(text(n))
                b = n.value
                attrs.add(text(b))
        impure_calls = [n for n in ast.walk(st) if isinstance(n, ast.Call) and not self._pure_call(n)]
        impure = bool(impure_calls)
        for c in impure_calls:           # the receiver and the arguments of an unknown call may be mutated by it
            for part in [c.func.value if isinstance(c.func, ast.Attribute) else None] + list(c.args) + [k.value for k in c.keywords]:
                if part is not None:
                    names |= {m.id for m in ast.walk(part) if isinstance(m, ast.Name)}
        if impure:                       # an unknown call may change any object: aliases of attributes / items are stale
            for k in list(env):
                if any(isinstance(m, (ast.Attribute, ast.Subscript)) for m in ast.walk(env[k])):
                    del env[k]
        if not names and not attrs:
            return
        for k in list(env):
            v = env[k]
            reads = {m.id for m in ast.walk(v) if isinstance(m, ast.Name)}
            chains = {text(m) for m in ast.walk(v) if isinstance(m, (ast.Attribute, ast.Subscript))}
            if k in names or (reads & names) or (chains & attrs):
                del env[k]

    def block(self, stmts, env: dict, depth: int, elif_pos=False):
        out = []
        acc = {}                                   # accumulators: name -> ('int' | 'list')
        saved = (getattr(self, "_cur_out", None), getattr(self, "_acc_init", None))
        self._acc_init = {}
        for st in stmts:
            self._cur_out = out
            for new in self.statement(st, env, depth, acc):
                out.append(new)
        self._cur_out, self._acc_init = saved
        return self.flatten(out, elif_pos)

    def flatten(self, stmts, elif_pos=False):
        """(c) guard-clause normal form, (h) drops, (i) conditional assignment"""
        out = []
        elif_pos = elif_pos and len(stmts) == 1
        for pos, st in enumerate(stmts):
            # (c) `if ok: A; return` followed by statements that end in raise == `if not ok: <those>` followed by A; return
            if (isinstance(st, ast.If) and not st.orelse and st.body and isinstance(st.body[-1], ast.Return)
                    and not has_node(st.body[:-1], (ast.Return,)) and stmts[pos + 1:]
                    and isinstance(stmts[pos + 1:][-1], ast.Raise) and not has_node(stmts[pos + 1:], (ast.Return, ast.If))):
                out.append(ast.If(test=negate(st.test), body=self.flatten(stmts[pos + 1:]), orelse=[]))
                out.extend(self.flatten(st.body))
                return out
            if isinstance(st, ast.Pass):
                continue
            if isinstance(st, ast.AnnAssign) and st.value is None:
                continue
            if isinstance(st, ast.Expr) and isinstance(st.value, ast.Constant):
                continue
            if isinstance(st, ast.Expr) and isinstance(st.value, ast.Call):
                root = st.value.func
                while isinstance(root, ast.Attribute):
                    root = root.value
                if isinstance(root, ast.Name) and root.id in LOG_ROOTS and isinstance(st.value.func, ast.Attribute):
                    continue
            if isinstance(st, ast.If):
                st.body = self.flatten(st.body)
                st.orelse = self.flatten(st.orelse, elif_pos=True)
                if not st.body and not st.orelse:
                    if self.pure(st.test):
                        continue
                    st.body = [ast.Pass()]
                elif not st.body:
                    st = ast.If(test=negate(st.test), body=st.orelse, orelse=[])
                # (i) both branches assign the same single target
                if (len(st.body) == 1 and len(st.orelse) == 1 and isinstance(st.body[0], ast.Assign)
                        and isinstance(st.orelse[0], ast.Assign) and len(st.body[0].targets) == 1
                        and len(st.orelse[0].targets) == 1 and text(st.body[0].targets[0]) == text(st.orelse[0].targets[0])
                        and _is_self_attr(st.body[0].targets[0])):
                    out.append(ast.Assign(targets=[st.body[0].targets[0]],
                                          value=ast.IfExp(test=st.test, body=st.body[0].value, orelse=st.orelse[0].value),
                                          lineno=getattr(st, "lineno", 0)))
                    continue
                # (c) a branch that ends in raise / return becomes a guard clause, the other branch follows
                if elif_pos:                      # the last link of an if/elif chain stays a chain
                    out.append(st)
                    continue
                if st.orelse and terminates(st.orelse) and not terminates(st.body):
                    out.append(ast.If(test=negate(st.test), body=st.orelse, orelse=[]))
                    out.extend(st.body)
                    continue
                if st.orelse and terminates(st.body) and not self._is_elif_chain_of_guards(st):
                    out.append(ast.If(test=st.test, body=st.body, orelse=[]))
                    out.extend(st.orelse)
                    continue
            out.append(st)
        return out

    def _is_elif_chain_of_guards(self, st) -> bool:
        return False

    def drop_dead(self, body):
        """`name = <side-effect-free expression>` whose name is never read is dropped (left-over aliases, the last binding of
        an unrolled loop variable); the expression could at most have raised on a missing attribute / key"""
        def trivial(v):
            if isinstance(v, (ast.Name, ast.Constant)):
                return True
            if isinstance(v, (ast.Tuple, ast.List, ast.Set)):
                return all(trivial(e) for e in v.elts)
            if isinstance(v, ast.Dict):
                return all(k is not None and trivial(k) and trivial(x) for k, x in zip(v.keys, v.values))
            return False

        for _ in range(8):
            loaded = {n.id for s in body for n in ast.walk(s) if isinstance(n, ast.Name) and isinstance(n.ctx, ast.Load)}
            changed = False

            def clean(stmts):
                nonlocal changed
                out = []
                for s in stmts:
                    if (isinstance(s, ast.Assign) and len(s.targets) == 1 and isinstance(s.targets[0], ast.Name)
                            and s.targets[0].id not in loaded and s.targets[0].id not in self.fn_params
                            and (trivial(s.value) or self.pure(s.value))):
                        changed = True
                        continue
                    if (isinstance(s, ast.Assign) and len(s.targets) == 1 and isinstance(s.targets[0], (ast.Tuple, ast.List))
                            and isinstance(s.value, (ast.Tuple, ast.List)) and len(s.value.elts) == len(s.targets[0].elts)
                            and all(isinstance(t, ast.Name) and t.id not in loaded and t.id not in self.fn_params
                                    for t in s.targets[0].elts) and self.pure(s.value)):
                        changed = True
                        continue
                    for fld in ("body", "orelse", "finalbody"):
                        if isinstance(getattr(s, fld, None), list) and not isinstance(s, (ast.FunctionDef, ast.ClassDef)):
                            setattr(s, fld, clean(getattr(s, fld)))
                    for h in getattr(s, "handlers", []) or []:
                        h.body = clean(h.body) or [ast.Pass()]
                    if isinstance(s, (ast.If, ast.For, ast.While, ast.With, ast.Try)) and not s.body:
                        s.body = [ast.Pass()]
                    out.append(s)
                return out
            body = clean(body)
            if not changed:
                break
        return self.flatten(body)

    def statement(self, st, env, depth, acc):
        # ---- match -> if/elif (e)
        if isinstance(st, ast.Match):
            try:
                new = self.match_to_if(st)
            except _No:
                self.kill(env, st)
                return [st]
            return [x for s in new for x in self.statement(s, env, depth, acc)]
        # ---- for loops (f)
        if isinstance(st, ast.For):
            st.iter = self.expr(st.iter, env, depth)
            comp = self.accumulate(st, acc)
            if comp is not None:
                nm = comp.targets[0].id
                init = self._acc_init.pop(nm, None)
                if init is not None and init in self._cur_out:
                    self._cur_out.remove(init)                      # `n = 0` / `xs = []` is dead now
                    self.store_count[nm] = max(1, self.store_count.get(nm, 0) - 2)
                    self.mutated.discard(nm)
                return self.statement(comp, env, depth, acc)
            try:
                unrolled = self.unroll(st)
            except _No:
                unrolled = None
            if unrolled is not None:
                res = []
                for s in unrolled:
                    res += self.statement(s, env, depth, acc)
                return res
            for nm in stores_of(st):
                acc.pop(nm, None)
            self._kill_all_stores(env, st)
            inner = dict(env)
            st.body = self.block(st.body, inner, depth)
            st.orelse = self.block(st.orelse, dict(env), depth)
            self._kill_all_stores(env, st)
            return [st]
        if isinstance(st, (ast.While, ast.If, ast.Try, ast.With)):
            for nm in stores_of(st):
                acc.pop(nm, None)
        if isinstance(st, ast.While):
            self._kill_all_stores(env, st)
            st.test = self.expr(st.test, env, depth)
            st.body = self.block(st.body, dict(env), depth)
            st.orelse = self.block(st.orelse, dict(env), depth)
            self._kill_all_stores(env, st)
            return [st]
        if isinstance(st, ast.If):
            st.test = self.expr(st.test, env, depth)
            e1, e2 = dict(env), dict(env)
            st.body = self.block(st.body, e1, depth)
            st.orelse = self.block(st.orelse, e2, depth, elif_pos=True)
            # an alias survives the `if` when both branches agree on it - or the other branch never gets past the `if`
            t1, t2 = terminates(st.body), terminates(st.orelse)
            for k in list(env):
                del env[k]
            if t1 and not t2:
                env.update(e2)
            elif t2 and not t1:
                env.update(e1)
            else:
                for k in e1:
                    if k in e2 and text(e1[k]) == text(e2[k]):
                        env[k] = e1[k]
            return [st]
        if isinstance(st, (ast.Try, ast.With)):
            self._kill_all_stores(env, st)
            for fld in ("body", "orelse", "finalbody"):
                if hasattr(st, fld):
                    setattr(st, fld, self.block(getattr(st, fld), dict(env), depth))
            for h in getattr(st, "handlers", []):
                h.body = self.block(h.body, dict(env), depth)
            self._kill_all_stores(env, st)
            return [st]
        if isinstance(st, (ast.FunctionDef, ast.AsyncFunctionDef, ast.ClassDef)):
            self.kill(env, st)
            return [st]
        # ---- simple statements
        if isinstance(st, ast.AnnAssign):
            if st.value is None:
                return []
            if isinstance(st.target, (ast.Name, ast.Attribute)):
                st = ast.copy_location(ast.Assign(targets=[st.target], value=st.value), st)
        st = self.simple(st, env, depth)
        if (isinstance(st, ast.Expr) and isinstance(st.value, ast.Call) and isinstance(st.value.func, ast.Name)
                and st.value.func.id == "setattr" and len(st.value.args) == 3 and not st.value.keywords
                and isinstance(st.value.args[1], ast.Constant) and isinstance(st.value.args[1].value, str)
                and st.value.args[1].value.isidentifier()):
            # setattr(obj, "name", v) == obj.name = v
            st = ast.fix_missing_locations(ast.copy_location(ast.Assign(
                targets=[ast.Attribute(value=st.value.args[0], attr=st.value.args[1].value, ctx=ast.Store())],
                value=st.value.args[2]), st))
        # statement-level inlining (a)
        spliced = self.inline_statement(st, env, depth)
        if spliced is not None:
            if (len(spliced) == 1 and isinstance(spliced[0], ast.Assign) and isinstance(st, ast.Assign)
                    and isinstance(st.targets[0], ast.Name) and len(spliced[0].targets) == 1
                    and isinstance(spliced[0].targets[0], ast.Name) and spliced[0].targets[0].id == st.targets[0].id):
                st = spliced[0]
                self.store_count[st.targets[0].id] = max(1, self.store_count.get(st.targets[0].id, 1) - 1)
            else:
                acc.clear()
                return spliced
        # accumulators (f)
        if isinstance(st, ast.Assign) and len(st.targets) == 1 and isinstance(st.targets[0], ast.Name):
            nm, v = st.targets[0].id, st.value
            if isinstance(v, ast.Constant) and v.value == 0 and type(v.value) is int:
                acc[nm] = "int"
                self._acc_init[nm] = st
            elif isinstance(v, ast.List) and not v.elts:
                acc[nm] = "list"
                self._acc_init[nm] = st
            else:
                acc.pop(nm, None)
                self._acc_init.pop(nm, None)
        else:
            for n in ast.walk(st):
                if isinstance(n, ast.Name) and n.id in acc:
                    acc.pop(n.id, None)
        self.kill(env, st)
        # record an alias (b)
        if isinstance(st, ast.Assign) and len(st.targets) == 1 and isinstance(st.targets[0], ast.Name):
            nm, v = st.targets[0].id, st.value
            if (self.store_count.get(nm) == 1 and nm not in self.fn_params and self.pure(v)
                    and not any(isinstance(m, ast.Name) and m.id == nm for m in ast.walk(v))
                    and not (self._has_container(v) and nm in self.mutated)
                    and not (isinstance(v, ast.List) and not v.elts) and not (isinstance(v, ast.Dict) and not v.keys)):
                env[nm] = v
        if (isinstance(st, ast.Assign) and len(st.targets) == 1 and isinstance(st.targets[0], (ast.Tuple, ast.List))
                and isinstance(st.value, (ast.Tuple, ast.List)) and len(st.targets[0].elts) == len(st.value.elts)
                and all(isinstance(t, ast.Name) for t in st.targets[0].elts)
                and not any(isinstance(e, ast.Starred) for e in st.value.elts)):
            # lo, hi = (0.0, 1.0): each name is an alias of its element when the right-hand side reads none of the names
            tnames = {t.id for t in st.targets[0].elts}
            reads = {m.id for m in ast.walk(st.value) if isinstance(m, ast.Name)}
            if not (tnames & reads) and len(tnames) == len(st.targets[0].elts):
                for t, v in zip(st.targets[0].elts, st.value.elts):
                    if (self.store_count.get(t.id) == 1 and t.id not in self.fn_params and self.pure(v)
                            and not self._has_container(v)):
                        env[t.id] = v
        return [st]

    def _has_container(self, v) -> bool:
        return any(is_container(m) for m in ast.walk(v))

    def _kill_all_stores(self, env, st):
        self.kill(env, st)

    def simple(self, st, env, depth):
        """substitute aliases and inline expression helpers in the expressions of a simple statement"""
        for fld, val in list(ast.iter_fields(st)):
            if isinstance(val, ast.expr):
                if fld in ("target", "targets"):
                    continue
                setattr(st, fld, self.expr(val, env, depth))
            elif isinstance(val, list) and fld != "targets":
                setattr(st, fld, [self.expr(v, env, depth) if isinstance(v, ast.expr) else v for v in val])
        # subscripts / attributes on the left-hand side: substitute inside them (x[k] = ...: k and x are read)
        if isinstance(st, ast.Assign):
            st.targets = [self._target(t, env, depth) for t in st.targets]
        elif isinstance(st, ast.AugAssign):
            st.target = self._target(st.target, env, depth)
        return st

    def _target(self, t, env, depth):
        if isinstance(t, ast.Subscript):
            t.slice = self.expr(t.slice, env, depth)
        return t

    def expr(self, e, env, depth):
        e = subst(e, env)
        e = self.inline_exprs(e, depth)
        return self.simplify(e)

    def simplify(self, e):
        outer = self

        class T(ast.NodeTransformer):
            def visit_Call(self, node):
                self.generic_visit(node)
                if (isinstance(node.func, ast.Name) and node.func.id == "dict" and not node.args
                        and all(k.arg is not None for k in node.keywords)):
                    # dict(a=x, b=y) == {"a": x, "b": y}
                    return ast.Dict(keys=[ast.Constant(value=k.arg) for k in node.keywords],
                                    values=[k.value for k in node.keywords])
                if (isinstance(node.func, ast.Name) and node.func.id == "getattr" and len(node.args) == 2 and not node.keywords
                        and isinstance(node.args[1], ast.Constant) and isinstance(node.args[1].value, str)
                        and node.args[1].value.isidentifier()):
                    return ast.Attribute(value=node.args[0], attr=node.args[1].value, ctx=ast.Load())
                return node

            def visit_Subscript(self, node):
                self.generic_visit(node)
                if not isinstance(node.ctx, ast.Load) or not isinstance(node.slice, ast.Constant):
                    return node
                k, v = node.slice.value, node.value
                if (isinstance(v, ast.Dict) and v.keys and all(isinstance(x, ast.Constant) for x in v.keys)
                        and all(outer.pure(x) for x in v.values)):
                    # {"a": f, "b": g}["a"] == f   (dispatch dict built in the function)
                    hits = [val for key, val in zip(v.keys, v.values) if type(key.value) is type(k) and key.value == k]
                    if len(hits) == 1 and len({(type(x.value), x.value) for x in v.keys}) == len(v.keys):
                        return hits[0]
                if (isinstance(v, (ast.Tuple, ast.List)) and type(k) is int and 0 <= k < len(v.elts)
                        and not any(isinstance(e, ast.Starred) for e in v.elts) and all(outer.pure(e) for e in v.elts)):
                    return v.elts[k]                                    # (lo, hi)[1] == hi
                return node

            def visit_BinOp(self, node):
                self.generic_visit(node)
                l, r = node.left, node.right
                if isinstance(l, ast.Constant) and isinstance(r, ast.Constant):
                    a, b = l.value, r.value
                    num = lambda x: isinstance(x, (int, float)) and not isinstance(x, bool)
                    try:
                        if isinstance(a, str) and isinstance(b, str) and isinstance(node.op, ast.Add):
                            return ast.Constant(value=a + b)           # "_" + "row"
                        if num(a) and num(b):
                            # the arithmetic python itself would do on the two literals (same floats)
                            if isinstance(node.op, ast.Add):
                                return ast.Constant(value=a + b)
                            if isinstance(node.op, ast.Sub):
                                return ast.Constant(value=a - b)
                            if isinstance(node.op, ast.Mult):
                                return ast.Constant(value=a * b)
                            if isinstance(node.op, ast.Div) and b != 0:
                                return ast.Constant(value=a / b)
                            if isinstance(node.op, ast.Pow) and abs(b) <= 64 and abs(a) <= 1e6:
                                v = a ** b
                                if num(v):
                                    return ast.Constant(value=v)
                    except (OverflowError, ZeroDivisionError, ValueError):
                        pass
                return node

            def visit_JoinedStr(self, node):
                self.generic_visit(node)
                parts = []
                for v in node.values:
                    if isinstance(v, ast.Constant) and isinstance(v.value, str):
                        parts.append(v.value)
                    elif (isinstance(v, ast.FormattedValue) and v.conversion == -1 and v.format_spec is None
                          and isinstance(v.value, ast.Constant) and isinstance(v.value.value, str)):
                        parts.append(v.value.value)
                    else:
                        return node
                return ast.Constant(value="".join(parts))                # f"_{'row'}"

            def visit_UnaryOp(self, node):
                self.generic_visit(node)
                if isinstance(node.op, ast.Not):
                    inner = node.operand
                    if isinstance(inner, ast.UnaryOp) and isinstance(inner.op, ast.Not):
                        # `not not c` keeps only the truth value: exact inside a test, so only rewritten there by callers
                        return node
                    if isinstance(inner, ast.Compare) and len(inner.ops) == 1 and isinstance(
                            inner.ops[0], (ast.Is, ast.IsNot, ast.In, ast.NotIn)):
                        return negate(inner)
                return node
        return ast.fix_missing_locations(T().visit(e))

    # -------------------------------------------------------------------------------- match (e)
    def match_to_if(self, st: ast.Match):
        subj = st.subject
        if not self.pure(subj):
            raise _No("match subject with side effects")
        head = None
        tail = None
        for case in st.cases:
            binds = {}
            test = self.pattern_test(case.pattern, subj, binds)
            body = list(case.body)
            if binds:
                body = [ast.Assign(targets=[ast.Name(id=nm, ctx=ast.Store())], value=copy.deepcopy(v), lineno=st.lineno)
                        for nm, v in binds.items()] + body
            guard = subst(case.guard, binds) if case.guard is not None else None
            if guard is not None:
                test = guard if test is None else ast.BoolOp(op=ast.And(), values=[test, guard])
            if test is None:                       # irrefutable: the else branch
                if tail is None:
                    return body
                tail.orelse = body
                return [head]
            node = ast.If(test=test, body=body, orelse=[])
            ast.copy_location(node, st)
            if head is None:
                head = tail = node
            else:
                tail.orelse = [node]
                tail = node
        return [head] if head is not None else []

    def pattern_test(self, p, subj, binds):
        """the test a pattern performs on the subject (None = always matches); captures -> binds"""
        s = lambda: copy.deepcopy(subj)
        if isinstance(p, ast.MatchSingleton):
            return ast.Compare(left=s(), ops=[ast.Is()], comparators=[ast.Constant(value=p.value)])
        if isinstance(p, ast.MatchValue):
            if not (isinstance(p.value, ast.Constant) or attr_chain(p.value) or is_literal(p.value)):
                raise _No("match value")
            return ast.Compare(left=s(), ops=[ast.Eq()], comparators=[p.value])
        if isinstance(p, ast.MatchClass):
            if p.patterns or p.kwd_patterns:
                raise _No("class pattern with arguments")
            return ast.Call(func=ast.Name(id="isinstance", ctx=ast.Load()), args=[s(), p.cls], keywords=[])
        if isinstance(p, ast.MatchAs):
            if p.pattern is None:
                if p.name is not None:
                    binds[p.name] = subj
                return None
            t = self.pattern_test(p.pattern, subj, binds)
            if p.name is not None:
                binds[p.name] = subj
            return t
        if isinstance(p, ast.MatchOr):
            tests = []
            for alt in p.patterns:
                b = {}
                t = self.pattern_test(alt, subj, b)
                if b:
                    raise _No("capture inside an or-pattern")
                if t is None:
                    return None
                tests.append(t)
            # isinstance(x, A) or isinstance(x, B) -> isinstance(x, A | B)
            if all(isinstance(t, ast.Call) and text(t.func) == "isinstance" for t in tests):
                ty = tests[0].args[1]
                for t in tests[1:]:
                    ty = ast.BinOp(left=ty, op=ast.BitOr(), right=t.args[1])
                return ast.Call(func=ast.Name(id="isinstance", ctx=ast.Load()), args=[s(), ty], keywords=[])
            return ast.BoolOp(op=ast.Or(), values=tests)
        raise _No("unsupported pattern")

    # -------------------------------------------------------------------------------- loops (f)
    def literal_items(self, it):
        """the elements a `for` walks over, as a list of expression tuples, when the iterable is a literal"""
        if isinstance(it, (ast.Tuple, ast.List)) and not any(isinstance(e, ast.Starred) for e in it.elts):
            return [e for e in it.elts]
        if isinstance(it, ast.Call) and isinstance(it.func, ast.Attribute) and not it.args and not it.keywords \
                and isinstance(it.func.value, ast.Dict) and all(k is not None for k in it.func.value.keys):
            d = it.func.value
            if it.func.attr == "items":
                return [ast.Tuple(elts=[k, v], ctx=ast.Load()) for k, v in zip(d.keys, d.values)]
            if it.func.attr == "keys":
                return list(d.keys)
            if it.func.attr == "values":
                return list(d.values)
        if isinstance(it, ast.Dict) and all(k is not None for k in it.keys):
            return list(it.keys)
        if isinstance(it, ast.Call) and isinstance(it.func, ast.Name) and it.func.id == "enumerate" and len(it.args) == 1 \
                and not it.keywords:
            inner = self.literal_items(it.args[0])
            if inner is not None:
                return [ast.Tuple(elts=[ast.Constant(value=i), e], ctx=ast.Load()) for i, e in enumerate(inner)]
        if isinstance(it, ast.Call) and isinstance(it.func, ast.Name) and it.func.id == "zip" and it.args and not it.keywords:
            cols = [self.literal_items(a) for a in it.args]
            if all(c is not None for c in cols) and len({len(c) for c in cols}) == 1:
                return [ast.Tuple(elts=list(row), ctx=ast.Load()) for row in zip(*cols)]
        return None

    def unroll(self, st: ast.For):
        items = self.literal_items(st.iter)
        if items is None or len(items) > MAX_UNROLL:
            raise _No("not a literal iterable")
        if not all(self.pure(e) for e in items):
            raise _No("elements with side effects")
        with_break = has_node(st.body, ast.Break)
        if st.orelse and not with_break:
            raise _No("for-else without break")
        if any(isinstance(n, (ast.For, ast.While)) and has_node(n.body, (ast.Break, ast.Continue)) for b in st.body for n in walk_shallow(b)):
            raise _No("break / continue of an inner loop")
        body = list(st.body)
        if has_node(body, ast.Continue):
            body = map_tails(to_tail(body, (ast.Continue,)), lambda v: [], lambda: [])
            body = self._strip_continue(body)
        tnames = stores_of(st.target)
        inner_stores = [n for s in st.body for n in stores_of(s)]
        if set(tnames) & set(inner_stores):
            raise _No("loop variable re-bound in the body")
        reads = {m.id for e in items for m in ast.walk(e) if isinstance(m, ast.Name)}
        if reads & set(inner_stores):
            raise _No("the body re-binds what the elements read")
        if any(isinstance(m, (ast.Attribute, ast.Subscript)) for e in items for m in ast.walk(e)) and any(
                (isinstance(n, ast.Call) and not self._pure_call(n))
                or (isinstance(n, (ast.Attribute, ast.Subscript)) and isinstance(n.ctx, (ast.Store, ast.Del)))
                for b in st.body for n in ast.walk(b)):
            raise _No("the elements read object state that the body may change")
        if with_break:
            # `break` leaves the loop: the later elements (and the for-else) run only on the paths that do not reach one
            seq = list(st.orelse)
            for it in reversed(items):
                mapping = self.bind_target(st.target, it)
                cur = [subst(copy.deepcopy(s), mapping) for s in body] + copy.deepcopy(seq)
                seq = self._strip_continue(to_tail(cur, (ast.Break,)), (ast.Break,))
            out = seq
        else:
            out = []
            for it in items:
                mapping = self.bind_target(st.target, it)
                for s in body:
                    out.append(subst(copy.deepcopy(s), mapping))
            # the loop variables are no longer assigned: later reads would dangle -> keep a final binding
            if items:
                last = self.bind_target(st.target, items[-1])
                for nm, v in last.items():
                    out.append(ast.Assign(targets=[ast.Name(id=nm, ctx=ast.Store())], value=copy.deepcopy(v), lineno=st.lineno))
        for nm in set(inner_stores) | set(tnames):
            self.store_count[nm] = self.store_count.get(nm, 0) + len(items)     # no longer single-assignment
        return [ast.fix_missing_locations(s) for s in out]

    def _strip_continue(self, stmts, kinds=(ast.Continue,)):
        out = []
        for s in stmts:
            if isinstance(s, kinds):
                continue
            if isinstance(s, ast.If):
                s.body = self._strip_continue(s.body, kinds) or [ast.Pass()]
                s.orelse = self._strip_continue(s.orelse, kinds)
            out.append(s)
        return out

    def bind_target(self, target, value) -> dict:
        if isinstance(target, ast.Name):
            return {target.id: value}
        if isinstance(target, (ast.Tuple, ast.List)) and isinstance(value, (ast.Tuple, ast.List)) \
                and len(target.elts) == len(value.elts) and not any(isinstance(t, ast.Starred) for t in target.elts):
            m = {}
            for t, v in zip(target.elts, value.elts):
                m.update(self.bind_target(t, v))
            return m
        raise _No("loop target")

    def accumulate(self, st: ast.For, acc):
        """counting / collecting loop -> comprehension"""
        if st.orelse or not isinstance(st.target, ast.Name) or len(st.body) != 1:
            return None
        b = st.body[0]
        cond = None
        if isinstance(b, ast.If) and not b.orelse and len(b.body) == 1:
            cond, b = b.test, b.body[0]
        var = st.target
        gen = lambda ifs: [ast.comprehension(target=var, iter=st.iter, ifs=ifs, is_async=0)]
        if (isinstance(b, ast.AugAssign) and isinstance(b.op, ast.Add) and isinstance(b.target, ast.Name)
                and acc.get(b.target.id) == "int"):
            nm = b.target.id
            if cond is not None and isinstance(b.value, ast.Constant) and b.value.value == 1 and type(b.value.value) is int:
                val = ast.Call(func=ast.Name(id="sum", ctx=ast.Load()),
                               args=[ast.GeneratorExp(elt=ast.Constant(value=1), generators=gen([cond]))], keywords=[])
            elif cond is None and not any(isinstance(m, ast.Name) and m.id == nm for m in ast.walk(b.value)):
                val = ast.Call(func=ast.Name(id="sum", ctx=ast.Load()),
                               args=[ast.GeneratorExp(elt=b.value, generators=gen([]))], keywords=[])
            else:
                return None
            acc.pop(nm, None)
            return ast.fix_missing_locations(ast.Assign(targets=[ast.Name(id=nm, ctx=ast.Store())], value=val, lineno=st.lineno))
        if (isinstance(b, ast.Expr) and isinstance(b.value, ast.Call) and isinstance(b.value.func, ast.Attribute)
                and b.value.func.attr == "append" and isinstance(b.value.func.value, ast.Name)
                and acc.get(b.value.func.value.id) == "list" and len(b.value.args) == 1 and not b.value.keywords):
            nm = b.value.func.value.id
            if any(isinstance(m, ast.Name) and m.id == nm for m in ast.walk(b.value.args[0])):
                return None
            val = ast.ListComp(elt=b.value.args[0], generators=gen([cond] if cond is not None else []))
            acc.pop(nm, None)
            return ast.fix_missing_locations(ast.Assign(targets=[ast.Name(id=nm, ctx=ast.Store())], value=val, lineno=st.lineno))
        return None

    # -------------------------------------------------------------------------------- inlining (a)
    def _resolve(self, call: ast.Call, mod: ModuleCtx, cls):
        """-> (FunctionDef, its module, its class or None, receiver expression or None) of a call to a package helper"""
        f = call.func
        if not isinstance(f, (ast.Name, ast.Attribute)):
            return None
        hname = f.id if isinstance(f, ast.Name) else f.attr
        if self.atoms(hname):
            return None
        if not getattr(self, "_setter_call", False) and not (hname.startswith("_") and not hname.startswith("__")):
            return None                    # public functions / methods are API, not extracted helpers: read by name only
        if isinstance(f, ast.Name):
            if f.id in (getattr(self, "fn_params", set())) or f.id in getattr(self, "store_count", {}):
                return None
            fn = mod.funcs.get(f.id)
            if fn is not None:
                return fn, mod, None, None
            if f.id in mod.imports:
                rel, remote = mod.imports[f.id]
                other = ModuleCtx.load(self.repo, rel)
                if other is not None and other.funcs.get(remote) is not None:
                    return other.funcs[remote], other, None, None
            return None
        if isinstance(f, ast.Attribute) and cls is not None:
            recv = text(f.value)
            if recv in ("self", "cls", cls, "type(self)", "self.__class__"):
                cn = mod.classes.get(cls)
                if cn is None:
                    return None
                cands = [n for n in cn.body if isinstance(n, ast.FunctionDef) and n.name == f.attr]
                if len(cands) != 1:
                    return None
                fn = cands[0]
                decs = [text(d) for d in fn.decorator_list]
                if decs == ["staticmethod"]:
                    return fn, mod, cls, None
                if not decs and recv == "self":
                    return fn, mod, cls, f.value
                if decs == ["classmethod"] and recv in ("cls", cls):
                    return fn, mod, cls, f.value
            return None
        return None

    def _inlinable(self, fn) -> bool:
        a = fn.args
        if a.vararg or a.kwarg or isinstance(fn, ast.AsyncFunctionDef):
            return False
        if has_node(fn.body, (ast.Yield, ast.YieldFrom, ast.Await, ast.Global, ast.Nonlocal)):
            return False
        if any(isinstance(n, (ast.FunctionDef, ast.AsyncFunctionDef, ast.ClassDef, ast.Lambda)) for s in fn.body for n in ast.walk(s)):
            return False
        return True

    def _bind_args(self, fn, call, receiver, skip_first: bool):
        a = fn.args
        names = [x.arg for x in a.posonlyargs + a.args]
        if skip_first:
            if not names:
                raise _No("method without self")
            first, names = names[0], names[1:]
        bound = {}
        if skip_first and receiver is not None:
            bound[first] = receiver
        elif skip_first:
            raise _No("no receiver")
        if any(isinstance(x, ast.Starred) for x in call.args) or any(k.arg is None for k in call.keywords):
            raise _No("star arguments")
        if len(call.args) > len(names):
            raise _No("too many arguments")
        for n, v in zip(names, call.args):
            bound[n] = v
        allowed = set(x.arg for x in a.args + a.kwonlyargs) - ({first} if skip_first else set())
        for k in call.keywords:
            if k.arg in bound or k.arg not in allowed:
                raise _No("keyword")
            bound[k.arg] = k.value
        pos = a.posonlyargs + a.args
        for p, d in zip(pos[len(pos) - len(a.defaults):], a.defaults):
            if p.arg not in bound:
                if not is_literal(d):
                    raise _No("default that is not a literal")
                bound[p.arg] = d
        for p, d in zip(a.kwonlyargs, a.kw_defaults):
            if p.arg not in bound:
                if d is None or not is_literal(d):
                    raise _No("missing keyword-only argument")
                bound[p.arg] = d
        want = set(params_of(fn))
        if set(bound) != want:
            raise _No("missing arguments")
        return bound

    def instantiate(self, call: ast.Call, depth: int, setter_of=None):
        """-> (prelude statements, body statements with returns) of the helper called by `call`, parameters replaced"""
        if depth >= MAX_DEPTH:
            raise _No("depth")
        if setter_of is not None:
            fn, mod, hcls, receiver = setter_of
        else:
            r = self._resolve(call, self.mod, self.cls)
            if r is None:
                raise _No("not a helper of the package")
            fn, mod, hcls, receiver = r
        if not self._inlinable(fn):
            raise _No("helper cannot be inlined")
        if setter_of is None and [text(d) for d in fn.decorator_list] not in ([], ["staticmethod"], ["classmethod"]):
            raise _No("decorated helper")
        decs = [text(d) for d in fn.decorator_list]
        skip_first = hcls is not None and decs != ["staticmethod"]
        bound = self._bind_args(fn, call, receiver, skip_first)
        self.counter += 1
        tag = f"_h{self.counter}_"
        h_stores = set(stores_of(fn)) - {fn.name}
        params = set(params_of(fn))
        body = copy.deepcopy(body_no_doc(fn))
        # constants of the helper's own module / class
        body = self._prepare(body, mod, hcls, h_stores | params)
        # free names of the helper must mean the same thing at the call site
        free = {n.id for s in body for n in ast.walk(s) if isinstance(n, ast.Name) and isinstance(n.ctx, ast.Load)} - params - h_stores
        caller_bound = self.fn_params | (set(self.store_count) - getattr(self, "_kept_comp", set()))
        if free & caller_bound:
            raise _No("free name of the helper is shadowed at the call site")
        if mod is not self.mod:
            # names of another module: only builtins / names imported identically here are safe
            for nm in free:
                if nm in mod.funcs or nm in mod.classes or nm in mod.consts:
                    if not (nm in self.mod.imports and self.mod.imports[nm] == (mod.rel, nm)):
                        raise _No("helper of another module uses names of that module")
        comp_vars = {n for c in ast.walk(fn) if isinstance(c, ast.comprehension) for n in stores_of(c.target)}
        comp_targets = {id(m) for c in ast.walk(fn) if isinstance(c, ast.comprehension) for m in ast.walk(c.target)}
        plain_stores = {m.id for m in ast.walk(fn) if isinstance(m, ast.Name) and isinstance(m.ctx, (ast.Store, ast.Del))
                        and id(m) not in comp_targets} | (h_stores - comp_vars)
        arg_reads = {m.id for v in bound.values() for m in ast.walk(v) if isinstance(m, ast.Name)}
        keep = {n for n in comp_vars - plain_stores if n not in arg_reads and n not in caller_bound}
        for nm in keep:
            if nm not in self.store_count:
                self.store_count[nm] = 2             # a comprehension variable is never an alias
                self._kept_comp = getattr(self, "_kept_comp", set()) | {nm}
        ren = {nm: tag + nm for nm in h_stores - params - keep}
        prelude, direct = [], {}
        uses = {}
        for s in body:
            for n in ast.walk(s):
                if isinstance(n, ast.Name) and n.id in params and isinstance(n.ctx, ast.Load):
                    uses[n.id] = uses.get(n.id, 0) + 1
        for p, v in bound.items():
            rebinds = p in h_stores
            simple = isinstance(v, (ast.Name, ast.Constant)) \
                or (isinstance(v, ast.UnaryOp) and isinstance(v.operand, ast.Constant))
            once_literal = _trivial(v) and uses.get(p, 0) <= 1 and not rebinds
            if (simple or once_literal) and not rebinds:
                direct[p] = v
            else:
                if rebinds and isinstance(v, ast.Name):
                    raise _No("helper re-binds a parameter")
                ren[p] = tag + p
                prelude.append(ast.Assign(targets=[ast.Name(id=tag + p, ctx=ast.Store())], value=v, lineno=call.lineno))
        body = [_Rename(ren).visit(s) for s in body]
        body = [subst(s, direct) for s in body]
        for s in prelude + body:
            ast.fix_missing_locations(s)
            for nm in stores_of(s):
                self.store_count[nm] = self.store_count.get(nm, 0) + 1
        self.mutated |= self._mutated_names(body)
        return prelude, body, (mod, hcls)

    def inline_statement(self, st, env, depth):
        """`f(..)` / `x = f(..)` / `return f(..)` / `self.prop = v` -> the helper's body, or None"""
        call = target = None
        mode = None
        setter = None
        if isinstance(st, ast.Expr) and isinstance(st.value, ast.Call):
            call, mode = st.value, "expr"
        elif isinstance(st, ast.Return) and isinstance(st.value, ast.Call):
            call, mode = st.value, "return"
        elif isinstance(st, ast.Assign) and len(st.targets) == 1:
            t = st.targets[0]
            if isinstance(st.value, ast.Call) and isinstance(t, (ast.Name, ast.Attribute)):
                call, mode, target = st.value, "assign", t
            if (isinstance(t, ast.Attribute) and isinstance(t.value, ast.Name) and t.value.id == "self" and self.cls
                    and not t.attr.startswith("_")):
                setter = self._setter(t.attr)
                if setter is not None:
                    call = ast.Call(func=ast.Attribute(value=t.value, attr=t.attr, ctx=ast.Load()), args=[st.value], keywords=[],
                                    lineno=st.lineno)
                    mode, target = "expr", None
        if call is None:
            return None
        try:
            if setter is not None:
                prelude, body, (mod, hcls) = self.instantiate(call, depth, setter_of=(setter, self.mod, self.cls, call.func.value))
            else:
                prelude, body, (mod, hcls) = self.instantiate(call, depth)
            for nm in list(env):
                if nm in self.mutated and self._has_container(env[nm]):
                    del env[nm]
            saved = (self.mod, self.cls)
            self.mod, self.cls = mod, hcls if hcls else (self.cls if mod is saved[0] else None)
            try:
                inner_env = dict(env)
                pre = self.block(prelude, inner_env, depth + 1)
                body = self.block(body, inner_env, depth + 1)
            finally:
                self.mod, self.cls = saved
            body = to_tail(body)
            if mode == "expr":
                body = map_tails(body, lambda v: ([ast.Expr(value=v)] if v is not None and not self.pure(v) else []), lambda: [])
            elif mode == "assign":
                mk = lambda v: [ast.fix_missing_locations(ast.Assign(
                    targets=[copy.deepcopy(target)], value=v if v is not None else ast.Constant(value=None), lineno=st.lineno))]
                body = map_tails(body, mk, lambda: mk(None))
            else:
                body = map_tails(body, lambda v: [ast.Return(value=v)], lambda: [ast.Return(value=None)])
            if mode != "return" and has_node(body, ast.Return):
                raise _No("return left over")
        except _No:
            return None
        out = self.flatten(pre + body)
        loaded = {m.id for s in out for m in ast.walk(s) if isinstance(m, ast.Name) and isinstance(m.ctx, ast.Load)}
        out = [s for s in out if not (isinstance(s, ast.Assign) and len(s.targets) == 1 and isinstance(s.targets[0], ast.Name)
                                      and s.targets[0].id.startswith("_h") and s.targets[0].id not in loaded
                                      and self.pure(s.value))]           # temporaries of the inlining that were substituted
        for s in out:
            ast.fix_missing_locations(s)
            self.kill(env, s)
        if mode == "assign" and isinstance(target, ast.Name):
            self.store_count[target.id] = self.store_count.get(target.id, 0) + 1
        return out

    def _setter(self, prop: str):
        cn = self.mod.classes.get(self.cls)
        if cn is None:
            return None
        c = [n for n in cn.body if isinstance(n, ast.FunctionDef) and n.name == prop
             and [text(d) for d in n.decorator_list] == [f"{prop}.setter"]]
        return c[0] if len(c) == 1 and len(c[0].args.args) == 2 else None

    def inline_exprs(self, e, depth):
        """calls to helpers whose body is a single `return <expr>` are replaced by that expression"""
        outer = self

        class T(ast.NodeTransformer):
            def visit_Call(self, node):
                self.generic_visit(node)
                if depth >= MAX_DEPTH:
                    return node
                r = outer._resolve(node, outer.mod, outer.cls)
                if r is None:
                    return node
                fn = r[0]
                b = body_no_doc(fn)
                if len(b) != 1 or not isinstance(b[0], ast.Return) or b[0].value is None:
                    return node
                try:
                    prelude, body, _ = outer.instantiate(node, depth)
                except _No:
                    return node
                if prelude:
                    return node
                return outer.inline_exprs(body[0].value, depth + 1)
        return ast.fix_missing_locations(T().visit(e))


def normalize(repo: Path, rel: str, tree: ast.Module, fn: ast.FunctionDef, cls: str | None = None, atoms=None) -> ast.FunctionDef:
    """the function, normalised; on any internal error the function is returned unchanged (fail closed downstream)"""
    try:
        return Normalizer(repo, rel, tree, cls, atoms).function(fn)
    except Exception:                    # _No included: the recognisers see the code as written
        return fn
