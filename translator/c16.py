"""pyxel/util/misc.py get_dtype -> Gallina band table; the three detector-level converter models -> wiring records."""
from __future__ import annotations

import ast
import copy
from pathlib import Path

from .common import HEADER, body_no_doc, fail, find_func, int_const, parse


# ------------------------------------------------------------------------------------------ get_dtype
# get_dtype is read as a FUNCTION from an integer resolution to {np.dtype(np.uintN), raise}: a small symbolic executor
# runs the body over SETS of integers (finite unions of intervals, bounds may be infinite).  Every comparison of the
# resolution with an integer constant splits the current set; the bands of the table are the sets on which a
# `return np.dtype(np.uintN)` is reached.  The table therefore does not depend on how the decision is written:
#   if/elif/else chains, guard clauses / early returns, inverted conditions, `a <= x <= b` / `a <= x and x <= b` /
#   `not (...)` / `x in (..)` / `x in range(..)`, conditional expressions, `match` on literals (with guards),
#   loops over a constant tuple / dict literal (unrolled; `break` / `continue` / `else`), constants and tables at module
#   level or local (a Name is resolved to its single assignment), single-assignment locals, named intermediate
#   results, private helper functions of the same module (inlined), lookup `TABLE[x]` in a constant dict,
#   docstrings / comments / logging calls / message text are not read.
# Anything else (arithmetic on the resolution other than +- a constant, while, try, attribute state, ...) fails closed.

_INF = float("inf")
_FULL = [(-_INF, _INF)]


def _norm(a):
    out = []
    for lo, hi in sorted(x for x in a if x[0] <= x[1]):
        if out and lo <= out[-1][1] + 1:
            out[-1] = (out[-1][0], max(out[-1][1], hi))
        else:
            out.append((lo, hi))
    return out


def _compl(a):
    out, cur = [], -_INF
    for lo, hi in _norm(a):
        if lo > cur:
            out.append((cur, lo - 1))
        cur = hi + 1
    if cur < _INF or not a:
        out.append((cur, _INF))
    return [x for x in out if x[0] <= x[1] and x[0] < _INF and x[1] > -_INF]


def _inter(a, b):
    return _norm([(max(l1, l2), min(h1, h2)) for l1, h1 in a for l2, h2 in b])


def _diff(a, b):
    return _inter(a, _compl(b))


_UNSIGNED = {"uint8": 8, "uint16": 16, "uint32": 32, "uint64": 64}
_LOGGERS = ("logging", "logger", "_logger", "log", "_log", "LOGGER", "warnings")


class _Sym:
    """Symbolic execution of integer-decision code over one integer variable."""

    def __init__(self, tree):
        self.tree = tree
        self.funcs = {n.name: n for n in tree.body if isinstance(n, ast.FunctionDef)}
        self.modvals = {}
        for n in tree.body:
            if isinstance(n, ast.Assign) and len(n.targets) == 1 and isinstance(n.targets[0], ast.Name):
                self.modvals.setdefault(n.targets[0].id, []).append(n.value)
            elif isinstance(n, ast.AnnAssign) and isinstance(n.target, ast.Name):
                self.modvals.setdefault(n.target.id, []).append(n.value)
            elif isinstance(n, ast.Assign) and len(n.targets) == 1 and isinstance(n.targets[0], ast.Tuple) \
                    and isinstance(n.value, ast.Tuple) and len(n.value.elts) == len(n.targets[0].elts):
                for t, v in zip(n.targets[0].elts, n.value.elts):
                    if isinstance(t, ast.Name):
                        self.modvals.setdefault(t.id, []).append(v)
            elif isinstance(n, (ast.Assign, ast.AnnAssign, ast.For, ast.With, ast.Delete)):
                for m in ast.walk(n):                        # any other module-level binding: not resolved
                    if isinstance(m, ast.Name) and isinstance(m.ctx, (ast.Store, ast.Del)):
                        self.modvals.setdefault(m.id, []).append(None)
            elif isinstance(n, ast.AugAssign) and isinstance(n.target, ast.Name):
                self.modvals.setdefault(n.target.id, []).append(None)
        for n in ast.walk(tree):
            if isinstance(n, ast.Global):                    # rebound from inside a function: not a constant
                for g in n.names:
                    self.modvals.setdefault(g, []).append(None)
        self.depth = 0

    # ---- expressions: list of (set, value); the sets partition S
    def one(self, node, env, S):
        r = self.ev(node, env, S)
        if len(r) != 1:
            fail(node, "value depends on the resolution where a single value is needed")
        return r[0][1]

    def ev(self, node, env, S):
        if isinstance(node, ast.Constant):
            v = node.value
            if isinstance(v, bool):
                return [(S, ("bool", v))]
            if isinstance(v, int):
                return [(S, ("int", v))]
            if v is None:
                return [(S, ("none",))]
            if isinstance(v, str):
                return [(S, ("str", v))]
            return [(S, ("opaque", repr(v)))]
        if isinstance(node, ast.Name):
            if node.id in env:
                return [(S, env[node.id])]
            vs = self.modvals.get(node.id)
            if vs is not None:
                if len(vs) != 1 or vs[0] is None:
                    fail(node, "module-level name is not bound exactly once")
                return [(S, self.one(vs[0], {}, S))]
            return [(S, ("opaque", node.id))]
        if isinstance(node, ast.Attribute):
            txt = ast.unparse(node)
            for pre in ("np.", "numpy."):
                if txt.startswith(pre) and txt[len(pre):] in _UNSIGNED:
                    return [(S, ("ty", _UNSIGNED[txt[len(pre):]]))]
            return [(S, ("opaque", txt))]
        if isinstance(node, (ast.Tuple, ast.List)):
            return [(S, ("tuple", [self.one(e, env, S) for e in node.elts]))]
        if isinstance(node, ast.Dict):
            if any(k is None for k in node.keys):
                fail(node, "dict unpacking")
            return [(S, ("dict", [(self.one(k, env, S), self.one(v, env, S)) for k, v in zip(node.keys, node.values)]))]
        if isinstance(node, ast.UnaryOp):
            if isinstance(node.op, ast.Not):
                return [(s, ("bool", not b)) for s, b in self.cond(node.operand, env, S)]
            v = self.one(node.operand, env, S)
            if v[0] == "int" and isinstance(node.op, (ast.USub, ast.UAdd)):
                return [(S, ("int", -v[1] if isinstance(node.op, ast.USub) else v[1]))]
            fail(node, "unary operation")
        if isinstance(node, ast.BinOp):
            a, b = self.one(node.left, env, S), self.one(node.right, env, S)
            if a[0] == "int" and b[0] == "int":
                try:
                    if isinstance(node.op, ast.Add):
                        return [(S, ("int", a[1] + b[1]))]
                    if isinstance(node.op, ast.Sub):
                        return [(S, ("int", a[1] - b[1]))]
                    if isinstance(node.op, ast.Mult):
                        return [(S, ("int", a[1] * b[1]))]
                    if isinstance(node.op, ast.Pow) and 0 <= b[1] <= 64:
                        return [(S, ("int", a[1] ** b[1]))]
                    if isinstance(node.op, ast.FloorDiv) and b[1] != 0:
                        return [(S, ("int", a[1] // b[1]))]
                except Exception:
                    pass
            if a[0] == "x" and b[0] == "int" and isinstance(node.op, (ast.Add, ast.Sub)):
                return [(S, ("x", a[1] + (b[1] if isinstance(node.op, ast.Add) else -b[1])))]
            if a[0] == "int" and b[0] == "x" and isinstance(node.op, ast.Add):
                return [(S, ("x", a[1] + b[1]))]
            fail(node, "arithmetic the translator does not follow")
        if isinstance(node, (ast.Compare, ast.BoolOp)):
            return [(s, ("bool", b)) for s, b in self.cond(node, env, S)]
        if isinstance(node, ast.IfExp):
            out = []
            for s, b in self.cond(node.test, env, S):
                out += self.ev(node.body if b else node.orelse, env, s)
            return out
        if isinstance(node, ast.Subscript):
            base, key = self.one(node.value, env, S), self.one(node.slice, env, S)
            if base[0] == "tuple" and key[0] == "int" and -len(base[1]) <= key[1] < len(base[1]):
                return [(S, base[1][key[1]])]
            if base[0] == "dict" and all(k[0] == "int" for k, _ in base[1]):
                if key[0] == "int":
                    hit = [v for k, v in base[1] if k[1] == key[1]]
                    return [(S, hit[-1])] if hit else [(S, ("raise",))]
                if key[0] == "x":
                    out, rest = [], S
                    for k, v in reversed(base[1]):          # a later duplicate key wins
                        s = _inter(rest, [(k[1] - key[1], k[1] - key[1])])
                        if s:
                            out.append((s, v))
                            rest = _diff(rest, s)
                    if rest:
                        out.append((rest, ("raise",)))
                    return out
            fail(node, "subscript the translator does not follow")
        if isinstance(node, ast.Call):
            return self.call(node, env, S)
        fail(node, "expression the translator does not follow")

    def call(self, node, env, S):
        fn = ast.unparse(node.func)
        if any(isinstance(a, ast.Starred) for a in node.args) or any(k.arg is None for k in node.keywords):
            fail(node, "starred call")
        if fn in ("np.dtype", "numpy.dtype") and len(node.args) == 1 and not node.keywords:
            out = []
            for s, v in self.ev(node.args[0], env, S):
                if v[0] in ("ty", "dt"):
                    out.append((s, ("dt", v[1])))
                elif v[0] == "str" and v[1] in _UNSIGNED:
                    out.append((s, ("dt", _UNSIGNED[v[1]])))
                elif v[0] == "raise":
                    out.append((s, v))
                else:
                    out.append((s, ("opaque", "np.dtype(?)")))
            return out
        if fn == "range" and 1 <= len(node.args) <= 2 and not node.keywords:
            a = [self.one(x, env, S) for x in node.args]
            if all(v[0] == "int" for v in a):
                return [(S, ("range", 0 if len(a) == 1 else a[0][1], a[-1][1]))]
            fail(node, "range with non-constant bounds")
        if fn in ("tuple", "list", "frozenset", "set", "sorted") and len(node.args) == 1 and not node.keywords:
            v = self.one(node.args[0], env, S)
            if v[0] == "tuple" and (fn != "sorted" or all(e[0] == "int" for e in v[1])):
                return [(S, ("tuple", sorted(v[1]) if fn == "sorted" else v[1]))]
            fail(node, "conversion the translator does not follow")
        if isinstance(node.func, ast.Attribute) and node.func.attr in ("items", "keys", "values") and not node.args \
                and not node.keywords:
            v = self.one(node.func.value, env, S)
            if v[0] == "dict":
                if len({repr(k) for k, _ in v[1]}) != len(v[1]):
                    fail(node, "duplicate keys")
                return [(S, ("tuple", [("tuple", [k, w]) if node.func.attr == "items" else k if node.func.attr == "keys"
                                       else w for k, w in v[1]]))]
            fail(node, "method call the translator does not follow")
        if fn == "zip" and len(node.args) == 2 and not node.keywords:
            a, b = (self.one(x, env, S) for x in node.args)
            if a[0] == "tuple" and b[0] == "tuple":
                return [(S, ("tuple", [("tuple", [p, q]) for p, q in zip(a[1], b[1])]))]
            fail(node, "zip of non-constant sequences")
        if fn == "enumerate" and 1 <= len(node.args) <= 2 and all(k.arg == "start" for k in node.keywords):
            a = self.one(node.args[0], env, S)
            st = node.args[1] if len(node.args) == 2 else (node.keywords[0].value if node.keywords else None)
            k0 = self.one(st, env, S) if st is not None else ("int", 0)
            if a[0] == "tuple" and k0[0] == "int":
                return [(S, ("tuple", [("tuple", [("int", k0[1] + i), e]) for i, e in enumerate(a[1])]))]
            fail(node, "enumerate of a non-constant sequence")
        if isinstance(node.func, ast.Name) and node.func.id in self.funcs and node.func.id not in env:
            f = self.funcs[node.func.id]
            if self.depth >= 4 or f.decorator_list and any(
                    ast.unparse(d).split("(")[0].split(".")[-1] not in ("lru_cache", "cache") for d in f.decorator_list):
                fail(node, "helper call too deep / decorated helper")
            a = f.args
            if a.vararg or a.kwarg or a.posonlyargs and node.keywords:
                fail(node, "helper signature")
            names = [x.arg for x in a.posonlyargs + a.args]
            if len(node.args) > len(names):
                fail(node, "too many arguments for helper")
            bound = {n: x for n, x in zip(names, node.args)}
            for k in node.keywords:
                if k.arg in bound or k.arg not in names + [x.arg for x in a.kwonlyargs]:
                    fail(node, "helper keyword")
                bound[k.arg] = k.value
            fenv = {n: self.one(x, env, S) for n, x in bound.items()}
            for n, d in list(zip(reversed(names), reversed(a.defaults))) + \
                    [(x.arg, d) for x, d in zip(a.kwonlyargs, a.kw_defaults) if d is not None]:
                if n not in fenv:
                    fenv[n] = self.one(d, {}, S)
            if set(fenv) != set(names + [x.arg for x in a.kwonlyargs]):
                fail(node, "helper called with missing arguments")
            self.depth += 1
            outs, fall, brk, cont = self.run(body_no_doc(f), [(S, fenv)])
            self.depth -= 1
            if brk or cont:
                fail(f, "break/continue outside a loop")
            return [(s, v) for s, v in outs] + [(s, ("none",)) for s, _ in fall]
        return [(S, ("opaque", ast.unparse(node)[:60]))]

    # ---- conditions: list of (set, bool); operands of comparisons cannot raise (integers and constants only)
    def cond(self, node, env, S):
        if isinstance(node, ast.BoolOp):
            is_and = isinstance(node.op, ast.And)
            live, done = S, []
            for v in node.values:
                nxt = []
                for s, b in self.cond(v, env, live):
                    if b == is_and:
                        nxt += s
                    else:
                        done.append((s, b))
                live = _norm(nxt)
                if not live:
                    break
            if live:
                done.append((live, is_and))
            return self.merge(done)
        if isinstance(node, ast.UnaryOp) and isinstance(node.op, ast.Not):
            return [(s, not b) for s, b in self.cond(node.operand, env, S)]
        if isinstance(node, ast.Compare):
            T = S
            left = self.one(node.left, env, S)
            for op, rn in zip(node.ops, node.comparators):
                right = self.one(rn, env, S)
                T = _inter(T, self.cmp(node, left, op, right))
                left = right
            return self.merge([(T, True), (_diff(S, T), False)])
        out = []
        for s, v in self.ev(node, env, S):
            if v[0] == "bool":
                out.append((s, v[1]))
            elif v[0] == "none":
                out.append((s, False))
            elif v[0] == "int":
                out.append((s, v[1] != 0))
            elif v[0] == "x":                                # truth value of the resolution: non-zero
                z = _inter(s, [(-v[1], -v[1])])
                out += [(z, False), (_diff(s, z), True)]
            else:
                fail(node, "condition the translator does not follow")
        return self.merge(out)

    @staticmethod
    def merge(parts):
        t = _norm([i for s, b in parts if b for i in s])
        f = _norm([i for s, b in parts if not b for i in s])
        return [(s, b) for s, b in ((t, True), (f, False)) if s]

    def cmp(self, node, a, op, b):
        """Set of resolutions for which `a op b` holds."""
        def const(v):
            return _FULL if v else []
        if isinstance(op, (ast.In, ast.NotIn)):
            if b[0] == "range":
                T = [(b[1], b[2] - 1)]
            elif b[0] == "tuple" and all(e[0] == "int" for e in b[1]):
                T = _norm([(e[1], e[1]) for e in b[1]])
            elif b[0] == "dict" and all(k[0] == "int" for k, _ in b[1]):
                T = _norm([(k[1], k[1]) for k, _ in b[1]])
            else:
                fail(node, "membership test the translator does not follow")
            if a[0] == "int":
                T = const(bool(_inter(T, [(a[1], a[1])])))
            elif a[0] == "x":
                T = _norm([(lo - a[1], hi - a[1]) for lo, hi in T])
            else:
                fail(node, "membership test the translator does not follow")
            return T if isinstance(op, ast.In) else _compl(T)
        if isinstance(op, (ast.Is, ast.IsNot)) and "none" in (a[0], b[0]) and {a[0], b[0]} <= {"none", "x", "int"}:
            same = a[0] == b[0]
            return const(same == isinstance(op, ast.Is))
        flip = {ast.Lt: ast.Gt, ast.LtE: ast.GtE, ast.Gt: ast.Lt, ast.GtE: ast.LtE, ast.Eq: ast.Eq, ast.NotEq: ast.NotEq}
        if type(op) not in flip:
            fail(node, "comparison operator")
        if a[0] == "int" and b[0] == "x":
            a, b, op = b, a, flip[type(op)]()
        if a[0] == "int" and b[0] == "int":
            import operator as O
            f = {ast.Lt: O.lt, ast.LtE: O.le, ast.Gt: O.gt, ast.GtE: O.ge, ast.Eq: O.eq, ast.NotEq: O.ne}[type(op)]
            return const(f(a[1], b[1]))
        if a[0] == "x" and b[0] == "x":
            d = a[1] - b[1]                                   # (x + a1) op (x + b1)
            import operator as O
            f = {ast.Lt: O.lt, ast.LtE: O.le, ast.Gt: O.gt, ast.GtE: O.ge, ast.Eq: O.eq, ast.NotEq: O.ne}[type(op)]
            return const(f(d, 0))
        if a[0] == "x" and b[0] == "int":
            c = b[1] - a[1]
            return {ast.Lt: [(-_INF, c - 1)], ast.LtE: [(-_INF, c)], ast.Gt: [(c + 1, _INF)], ast.GtE: [(c, _INF)],
                    ast.Eq: [(c, c)], ast.NotEq: _compl([(c, c)])}[type(op)]
        fail(node, "comparison the translator does not follow")

    # ---- statements: states = [(set, env)]; returns (outcomes [(set, value)], fall, break, continue)
    def run(self, stmts, states):
        outs, brk, cont = [], [], []
        states = [(s, e) for s, e in states if s]
        for st in stmts:
            if not states:
                break
            nxt = []
            for S, env in states:
                o, f, b, c = self.stmt(st, S, env)
                outs += o
                nxt += f
                brk += b
                cont += c
            states = [(s, e) for s, e in nxt if s]
        return [(s, v) for s, v in outs if s], states, [x for x in brk if x[0]], [x for x in cont if x[0]]

    def bind(self, node, tgt, val, env):
        env = dict(env)
        if isinstance(tgt, ast.Name):
            env[tgt.id] = val
        elif isinstance(tgt, (ast.Tuple, ast.List)) and val[0] == "tuple" and len(val[1]) == len(tgt.elts):
            for t, v in zip(tgt.elts, val[1]):
                env = self.bind(node, t, v, env)
        else:
            fail(node, "assignment target the translator does not follow")
        return env

    def stmt(self, st, S, env):
        if isinstance(st, ast.Pass):
            return [], [(S, env)], [], []
        if isinstance(st, ast.Expr):
            v = st.value
            if isinstance(v, ast.Constant):
                return [], [(S, env)], [], []
            if isinstance(v, ast.Call) and ast.unparse(v.func).split(".")[0] in _LOGGERS:
                return [], [(S, env)], [], []                # logging / warnings: not an observable of the property
            fail(st, "expression statement")
        if isinstance(st, (ast.Assign, ast.AnnAssign)):
            if isinstance(st, ast.AnnAssign):
                if st.value is None:
                    return [], [(S, env)], [], []
                tgts = [st.target]
            else:
                tgts = st.targets
            outs, fall = [], []
            for s, v in self.ev(st.value, env, S):
                if v[0] == "raise":
                    outs.append((s, v))
                    continue
                e = env
                for t in tgts:
                    e = self.bind(st, t, v, e)
                fall.append((s, e))
            return outs, fall, [], []
        if isinstance(st, ast.Return):
            if st.value is None:
                return [(S, ("none",))], [], [], []
            return self.ev(st.value, env, S), [], [], []
        if isinstance(st, ast.Raise):
            return [(S, ("raise",))], [], [], []
        if isinstance(st, ast.Break):
            return [], [], [(S, env)], []
        if isinstance(st, ast.Continue):
            return [], [], [], [(S, env)]
        if isinstance(st, ast.If):
            outs, fall, brk, cont = [], [], [], []
            for s, b in self.cond(st.test, env, S):
                o, f, bk, c = self.run(st.body if b else st.orelse, [(s, env)])
                outs += o
                fall += f
                brk += bk
                cont += c
            return outs, fall, brk, cont
        if isinstance(st, ast.For):
            it = self.one(st.iter, env, S)
            if it[0] == "range" and it[2] - it[1] <= 256:
                elems = [("int", k) for k in range(it[1], it[2])]
            elif it[0] == "tuple":
                elems = it[1]
            elif it[0] == "dict":
                elems = [k for k, _ in it[1]]
            else:
                fail(st, "loop over something that is not a constant sequence")
            if len(elems) > 256:
                fail(st, "loop too long to unroll")
            outs, done, cur = [], [], [(S, env)]
            for e in elems:
                cur = [(s, self.bind(st, st.target, e, en)) for s, en in cur]
                o, f, b, c = self.run(st.body, cur)
                outs += o
                done += b
                cur = f + c
                if not cur:
                    break
            if st.orelse and cur:
                o, cur, b, c = self.run(st.orelse, cur)
                outs += o
                if b or c:
                    fail(st, "break/continue in a loop's else")
            return outs, cur + done, [], []
        if isinstance(st, ast.Match):
            subj = self.one(st.subject, env, S)
            if subj[0] not in ("x", "int"):
                fail(st, "match on something that is not the resolution")
            outs, fall, brk, cont, rest = [], [], [], [], S
            for case in st.cases:
                T, e = self.pattern(st, case.pattern, subj, env)
                live = _inter(rest, T)
                if case.guard is not None:
                    live = _norm([i for s, b in self.cond(case.guard, e, live) if b for i in s])
                o, f, bk, c = self.run(case.body, [(live, e)])
                outs += o
                fall += f
                brk += bk
                cont += c
                rest = _diff(rest, live)
            return outs, fall + ([(rest, env)] if rest else []), brk, cont
        if isinstance(st, ast.Try) and not st.finalbody and st.handlers and all(
                h.body and isinstance(h.body[-1], ast.Raise) and not any(
                    isinstance(n, (ast.Return, ast.Break, ast.Continue)) for b in h.body for n in ast.walk(b))
                for h in st.handlers):
            # every handler re-raises (whatever the class): an exception in the body still ends in an exception, so
            # over {np.dtype(..), raises} the statement is its body followed by its else part
            o1, f1, b1, c1 = self.run(st.body, [(S, env)])
            o2, f2, b2, c2 = self.run(st.orelse, f1) if st.orelse else ([], f1, [], [])
            return o1 + o2, f2, b1 + b2, c1 + c2
        fail(st, "statement the translator does not follow")

    def pattern(self, st, p, subj, env):
        if isinstance(p, ast.MatchValue):
            v = self.one(p.value, env, _FULL)
            if v[0] != "int":
                fail(st, "match pattern is not an integer literal")
            return self.cmp(st, subj, ast.Eq(), v), env
        if isinstance(p, ast.MatchOr):
            T = []
            for q in p.patterns:
                t, _ = self.pattern(st, q, subj, env)
                T = _norm(T + t)
            return T, env
        if isinstance(p, ast.MatchAs):
            T, e = (_FULL, env) if p.pattern is None else self.pattern(st, p.pattern, subj, env)
            if p.name:
                e = dict(e, **{p.name: subj})
            return T, e
        fail(st, "match pattern the translator does not follow")


def dtype_bands(tree) -> list[tuple[int, int, int]]:
    fn = find_func(tree, "get_dtype")
    a = fn.args
    if len(a.args) != 1 or a.posonlyargs or a.vararg or a.kwarg or a.kwonlyargs:
        fail(fn, "get_dtype signature")
    if a.args[0].arg != "bit_resolution":
        fail(fn, "get_dtype signature (callers pass bit_resolution by keyword)")
    sym = _Sym(tree)
    outs, fall, brk, cont = sym.run(body_no_doc(fn), [(_FULL, {a.args[0].arg: ("x", 0)})])
    if brk or cont:
        fail(fn, "break/continue outside a loop")
    if fall:
        fail(fn, f"get_dtype falls off its end for resolutions {fall[0][0][:2]}")
    by_w = {}
    for s, v in outs:
        if v[0] == "raise":
            continue
        if v[0] != "dt":
            fail(fn, f"get_dtype returns something that is not np.dtype(<unsigned numpy type>) for resolutions {s[:2]}: {v}")
        by_w[v[1]] = _norm(by_w.get(v[1], []) + s)
    rows = []
    for w, s in by_w.items():
        for lo, hi in s:
            if lo == -_INF or hi == _INF:
                fail(fn, f"get_dtype returns uint{w} on an unbounded set of resolutions ({lo}, {hi})")
            rows.append((int(lo), int(hi), w))
    return sorted(rows)


def translate(repo: Path) -> str:
    tree = parse(repo, "pyxel/util/misc.py")
    bands = dtype_bands(tree)
    rows = "; ".join(f"({lo}, {hi}, {w})" for lo, hi, w in bands)
    return (HEADER +
            "From Coq Require Import ZArith List String.\nFrom PyxelV Require Import Model.Adc Model.AdcHist.\n"
            "Import ListNotations.\nOpen Scope Z_scope.\n"
            f"Definition src_dtype_chain : dtype_chain := [{rows}].\n"
            + module_state(repo) + wrappers(repo))


# ------------------------------------------------------------------------------------------ detector-level models
# simple_adc / sar_adc / sar_adc_with_noise: which detector attribute feeds which argument of the converter.
# The body is first normalised (`_normalised`: helper inlining, alias substitution, guard forms, literal loops unrolled).
# Accepted statement shapes after that (anything else fails closed):
#   name [: T] = <expr>                      (binds a name to a source)
#   a, b = detector.characteristics.adc_voltage_range        (`_` allowed)
#   if data_type: <np.dtype(data_type) with guards> else: name = get_dtype(<bits>)      (simple_adc only)
#   if len(strengths|noises) != <bits>: raise ValueError(...)                            (noisy variant only)
#   detector.image.array = <converter call | name bound to it>                          (must be the last statement)

DET_ATTRS = {
    "characteristics.adc_bit_resolution": "FromBits",
    "signal.array": "FromSignal",
    "geometry.row": "FromRows",
    "geometry.col": "FromCols",
}


def _resolve(node, env, det, params):
    """Symbolic source of an expression."""
    if isinstance(node, ast.Name):
        return env.get(node.id, "FromOther")
    txt = ast.unparse(node)
    # detector.characteristics.adc_voltage_range[0] / [1] / [-2] / [-1]
    if isinstance(node, ast.Subscript) and ast.unparse(node.value) == f"{det}.characteristics.adc_voltage_range":
        try:
            k = int_const(node.slice)
        except Exception:
            return "FromOther"
        return {0: "FromRangeLo", -2: "FromRangeLo", 1: "FromRangeHi", -1: "FromRangeHi"}.get(k, "FromOther")
    for k, v in DET_ATTRS.items():
        if txt == f"{det}.{k}":
            return v
    # np.asarray(strengths, dtype=float) / np.array(strengths, dtype=float) / np.asarray(strengths)
    if (isinstance(node, ast.Call) and ast.unparse(node.func) in ("np.asarray", "np.array", "numpy.asarray", "numpy.array")
            and len(node.args) == 1 and isinstance(node.args[0], ast.Name) and node.args[0].id in params
            and all(k.arg == "dtype" and ast.unparse(k.value) in ("float", "np.float64", "numpy.float64") for k in node.keywords)):
        return {"strengths": "FromStrengths", "noises": "FromNoises"}.get(node.args[0].id, "FromOther")
    return "FromOther"


def _call_args(call, sig):
    """keyword -> expression of a converter call (positional arguments follow the converter's signature)."""
    out = {}
    if len(call.args) > len(sig):
        fail(call, "too many positional arguments")
    for name, a in zip(sig, call.args):
        if isinstance(a, ast.Starred):
            fail(call, "starred argument")
        out[name] = a
    for k in call.keywords:
        if k.arg is None or k.arg in out:
            fail(call, "unexpected keyword")
        out[k.arg] = k.value
    return out


# ---- normalisation of a wrapper body before it is read (general rewrites, each behaviour-preserving):
#   * calls of private module-level helper functions are inlined (parameters and locals renamed apart; guard clauses /
#     early returns of the helper become nested if/else; `return e` becomes `target = e`)
#   * single-assignment local aliases of the detector parameter, of an attribute chain rooted at it
#     (`ch = detector.characteristics`, `geo = detector.geometry`), or of another parameter are substituted
#   * `x = a if c else b` == `if c: x = a else: x = b`; `if a or b: raise` == `if a: raise` `if b: raise`;
#     `not (a == b)` == `a != b`; `if not c: A else: B` == `if c: B else: A`; `a, b = x, y` == `a = x; b = y`
#     (fresh names only); docstrings, `pass`, logging calls and bare annotations are dropped.
#   * a `for` whose sequence is syntactically evident is unrolled: a tuple / list literal, `zip` / `enumerate` / `reversed` of
#     such, a dict literal (`.items()` / `.keys()` / `.values()`), or a NAME standing for one of these (a local bound once,
#     before the loop and outside loops, to a literal of constants and never-rebound names; a module-level tuple of
#     constants bound once and not rebound through `global`) -- `_loop_sources`
#   * `p = partial(f, ..)` bound once and called once == the direct call with the merged arguments
#   * helpers imported from another module of the package (`from .x import _h`, re-exports followed) are inlined like
#     local ones when every free name of the helper means the same here (a builtin, or bound by the same import)
# A write through an alias becomes a write to the detector chain it stands for, so it is still seen by `_touch`.

def _ln(node):
    return getattr(node, "lineno", 0)


def _terminates(stmts):
    if not stmts:
        return False
    last = stmts[-1]
    if isinstance(last, (ast.Return, ast.Raise)):
        return True
    if isinstance(last, ast.If):
        return _terminates(last.body) and _terminates(last.orelse)
    return False


def _tailify(stmts):
    """guard clauses / early returns -> nested if/else (the statements after a terminating branch move into the other one)"""
    out = []
    for i, st in enumerate(stmts):
        if isinstance(st, ast.If):
            body, orelse, rest = _tailify(st.body), _tailify(st.orelse), stmts[i + 1:]
            if rest and _terminates(body) and not _terminates(orelse):
                return out + [ast.If(test=st.test, body=body, orelse=orelse + _tailify(rest))]
            if rest and _terminates(orelse) and not _terminates(body):
                return out + [ast.If(test=st.test, body=body + _tailify(rest), orelse=orelse)]
            out.append(ast.If(test=st.test, body=body, orelse=orelse))
        else:
            out.append(st)
    return out


def _flatten(stmts):
    """the canonical form the wrapper reader expects: `if c: <raises> else: rest` -> `if c: <raises>` followed by rest"""
    out = []
    for st in stmts:
        if isinstance(st, ast.If):
            body, orelse = _flatten(st.body), _flatten(st.orelse)
            if orelse and _terminates(body):
                out += [ast.If(test=st.test, body=body, orelse=[], lineno=_ln(st))] + orelse
            elif body and orelse and _terminates(orelse):
                out += [ast.If(test=_not(st.test), body=orelse, orelse=[], lineno=_ln(st))] + body
            else:
                out.append(ast.If(test=st.test, body=body, orelse=orelse, lineno=_ln(st)))
        else:
            out.append(st)
    return out


def _has_return(node):
    return any(isinstance(n, ast.Return) for n in ast.walk(node))


def _returns_to(stmts, target):
    """tail `return e` -> `target = e` (None when this is not possible)"""
    out = []
    for i, st in enumerate(stmts):
        last = i == len(stmts) - 1
        if isinstance(st, ast.Return):
            if not last:
                return None
            if target is None:
                if st.value is not None and not (isinstance(st.value, ast.Constant) and st.value.value is None):
                    return None
            else:
                out.append(ast.Assign(targets=[copy.deepcopy(target)], value=st.value or ast.Constant(value=None), lineno=_ln(st)))
        elif isinstance(st, ast.If) and last:
            b, o = _returns_to(st.body, target), _returns_to(st.orelse, target) if st.orelse else []
            if b is None or o is None:
                return None
            if target is not None and not _terminates(st.orelse) and not (st.orelse and isinstance(o[-1], ast.Assign)):
                o = o + [ast.Assign(targets=[copy.deepcopy(target)], value=ast.Constant(value=None), lineno=_ln(st))]
            out.append(ast.If(test=st.test, body=b or [ast.Pass()], orelse=o))
        elif _has_return(st):
            return None
        else:
            out.append(st)
    return out


def _inline_call(call, target, funcs, prefix):
    """statements equivalent to `target = f(...)` (or to the bare call when target is None); None = leave the call alone"""
    f = funcs[call.func.id]
    a = f.args
    if f.decorator_list or a.vararg or a.kwarg or a.posonlyargs:
        return None
    if any(isinstance(n, (ast.FunctionDef, ast.AsyncFunctionDef, ast.Lambda, ast.ClassDef, ast.Global, ast.Nonlocal,
                          ast.Yield, ast.YieldFrom, ast.Await)) for st in f.body for n in ast.walk(st)):
        return None
    if any(isinstance(x, ast.Starred) for x in call.args) or any(k.arg is None for k in call.keywords):
        return None
    names = [x.arg for x in a.args]
    allp = names + [x.arg for x in a.kwonlyargs]
    if len(call.args) > len(names):
        return None
    bound = dict(zip(names, call.args))
    for k in call.keywords:
        if k.arg in bound or k.arg not in allp:
            return None
        bound[k.arg] = k.value
    for n, d in list(zip(reversed(names), reversed(a.defaults))) + \
            [(x.arg, d) for x, d in zip(a.kwonlyargs, a.kw_defaults) if d is not None]:
        bound.setdefault(n, d)
    if set(bound) != set(allp):
        return None
    body = copy.deepcopy(body_no_doc(f))
    local = set(allp) | {n.id for st in body for n in ast.walk(st) if isinstance(n, ast.Name) and isinstance(n.ctx, (ast.Store, ast.Del))}
    local |= {n.name for st in body for n in ast.walk(st) if isinstance(n, ast.ExceptHandler) and n.name}
    for st in body:
        for n in ast.walk(st):
            if isinstance(n, ast.Name) and n.id in local:
                n.id = prefix + n.id
            elif isinstance(n, ast.ExceptHandler) and n.name in local:
                n.name = prefix + n.name
    body = _returns_to(_tailify(body), target)
    if body is None:
        return None
    if target is not None and not _terminates(body) and not (body and isinstance(body[-1], (ast.Assign, ast.If))):
        body.append(ast.Assign(targets=[copy.deepcopy(target)], value=ast.Constant(value=None), lineno=_ln(call)))
    pre = [ast.Assign(targets=[ast.Name(id=prefix + n, ctx=ast.Store())], value=bound[n], lineno=_ln(call)) for n in allp]
    return pre + body


def _not(t):
    """condition equivalent to `not t` (single comparisons are flipped)"""
    flip = {ast.Eq: ast.NotEq, ast.NotEq: ast.Eq, ast.Is: ast.IsNot, ast.IsNot: ast.Is, ast.In: ast.NotIn, ast.NotIn: ast.In}
    if isinstance(t, ast.UnaryOp) and isinstance(t.op, ast.Not):
        return t.operand
    if isinstance(t, ast.Compare) and len(t.ops) == 1 and type(t.ops[0]) in flip:
        return ast.Compare(left=t.left, ops=[flip[type(t.ops[0])]()], comparators=t.comparators)
    return ast.UnaryOp(op=ast.Not(), operand=t)


def _simple_arg(a):
    return isinstance(a, ast.Constant) or _chain_root(a) is not None


class _InlineExpr(ast.NodeTransformer):
    """f(a, b) -> the expression f returns, for helpers whose whole body is `return <expression>` (arguments must be
    names / attribute chains / constants, so evaluating them where the parameter stood changes nothing)"""

    def __init__(self, funcs, keep):
        self.funcs, self.keep, self.depth = funcs, keep, 0

    def visit_Call(self, node):
        self.generic_visit(node)
        f = self.funcs.get(node.func.id) if isinstance(node.func, ast.Name) and node.func.id not in self.keep else None
        if f is None or self.depth >= 3:
            return node
        body, a = body_no_doc(f), f.args
        if len(body) != 1 or not isinstance(body[0], ast.Return) or body[0].value is None or f.decorator_list \
                or a.vararg or a.kwarg or a.posonlyargs:
            return node
        expr = body[0].value
        if any(isinstance(n, (ast.Lambda, ast.ListComp, ast.SetComp, ast.DictComp, ast.GeneratorExp, ast.NamedExpr,
                              ast.Yield, ast.Await)) for n in ast.walk(expr)):
            return node
        names = [x.arg for x in a.args]
        allp = names + [x.arg for x in a.kwonlyargs]
        if len(node.args) > len(names) or any(isinstance(x, ast.Starred) for x in node.args) or any(k.arg is None for k in node.keywords):
            return node
        bound = dict(zip(names, node.args))
        for k in node.keywords:
            if k.arg in bound or k.arg not in allp:
                return node
            bound[k.arg] = k.value
        for n, d in list(zip(reversed(names), reversed(a.defaults))) + \
                [(x.arg, d) for x, d in zip(a.kwonlyargs, a.kw_defaults) if d is not None]:
            bound.setdefault(n, d)
        if set(bound) != set(allp) or not all(_simple_arg(v) for v in bound.values()):
            return node

        class Sub(ast.NodeTransformer):
            def visit_Name(self, n):
                return copy.deepcopy(bound[n.id]) if n.id in bound and isinstance(n.ctx, ast.Load) else n

        self.depth += 1
        res = self.visit(Sub().visit(copy.deepcopy(expr)))
        self.depth -= 1
        return res


def _iter_elts(node):
    """the elements a `for` header visits, in order, when that is syntactically evident: a tuple / list literal,
    `zip(..)` / `enumerate(..)` / `reversed(..)` of such, a dict literal with constant keys (itself, `.keys()`,
    `.values()`, `.items()`); None otherwise"""
    if isinstance(node, (ast.Tuple, ast.List)):
        return None if any(isinstance(e, ast.Starred) for e in node.elts) else list(node.elts)
    if isinstance(node, ast.Dict):
        ks = node.keys
        if any(k is None or not isinstance(k, ast.Constant) for k in ks) or len({repr(k.value) for k in ks}) != len(ks):
            return None
        try:
            if len({k.value for k in ks}) != len(ks):          # 1 / 1.0 / True are the same key
                return None
        except TypeError:
            return None
        return list(ks)
    if isinstance(node, ast.Call) and not any(isinstance(a, ast.Starred) for a in node.args):
        if isinstance(node.func, ast.Attribute) and node.func.attr in ("items", "keys", "values") \
                and isinstance(node.func.value, ast.Dict) and not node.args and not node.keywords:
            ks = _iter_elts(node.func.value)
            if ks is None:
                return None
            vs = node.func.value.values
            return {"keys": ks, "values": list(vs),
                    "items": [ast.Tuple(elts=[k, v], ctx=ast.Load()) for k, v in zip(ks, vs)]}[node.func.attr]
        fn = node.func.id if isinstance(node.func, ast.Name) else None
        if fn == "zip" and node.args and all(k.arg == "strict" for k in node.keywords):
            cols = [_iter_elts(a) for a in node.args]
            if any(c is None for c in cols) or (node.keywords and len({len(c) for c in cols}) != 1):
                return None
            return [ast.Tuple(elts=list(row), ctx=ast.Load()) for row in zip(*cols)]
        if fn == "enumerate" and 1 <= len(node.args) + len(node.keywords) <= 2 and node.args \
                and all(k.arg == "start" for k in node.keywords):
            seq = _iter_elts(node.args[0])
            start = node.args[1] if len(node.args) == 2 else node.keywords[0].value if node.keywords else ast.Constant(value=0)
            if seq is None or not (isinstance(start, ast.Constant) and type(start.value) is int):
                return None
            return [ast.Tuple(elts=[ast.Constant(value=start.value + i), e], ctx=ast.Load()) for i, e in enumerate(seq)]
        if fn in ("reversed", "tuple", "list", "iter") and len(node.args) == 1 and not node.keywords:
            seq = _iter_elts(node.args[0])
            return None if seq is None else seq[::-1] if fn == "reversed" else seq
    return None


def _bind_target(tgt, val, m):
    """loop target pattern against one element: names bind names / chains / constants, tuples bind tuples of equal length"""
    if isinstance(tgt, ast.Name):
        if not _simple_arg(val) or tgt.id in m:
            return False
        m[tgt.id] = val
        return True
    if isinstance(tgt, (ast.Tuple, ast.List)) and isinstance(val, (ast.Tuple, ast.List)) and len(tgt.elts) == len(val.elts) \
            and not any(isinstance(e, ast.Starred) for e in list(tgt.elts) + list(val.elts)):
        return all(_bind_target(t, v, m) for t, v in zip(tgt.elts, val.elts))
    return False


def _unroll(st, elts):
    """`for a, b in ((x1, y1), (x2, y2)): body` -> body[x1, y1]; body[x2, y2]  (evident sequence of names / chains / constants,
    loop variables not assigned in the body, no break / continue)"""
    names = [n.id for n in ast.walk(st.target) if isinstance(n, ast.Name)]
    if any(not isinstance(n, (ast.Name, ast.Tuple, ast.List, ast.Store, ast.Load)) for n in ast.walk(st.target)):
        return None
    for b in st.body:
        for n in ast.walk(b):
            if isinstance(n, (ast.Break, ast.Continue, ast.Lambda, ast.FunctionDef)) or \
                    (isinstance(n, ast.Name) and n.id in names and not isinstance(n.ctx, ast.Load)):
                return None
    out = []
    for e in elts:
        m = {}
        if not _bind_target(st.target, e, m) or sorted(m) != sorted(names):
            return None

        class Sub(ast.NodeTransformer):
            def visit_Name(self, n):
                return copy.deepcopy(m[n.id]) if n.id in m else n

        out += [Sub().visit(copy.deepcopy(b)) for b in st.body]
    return out


def _simplify(stmts, funcs, keep, counter):
    out = []
    for st in stmts:
        st = _InlineExpr(funcs, keep).visit(st)
        if isinstance(st, ast.Pass) or (isinstance(st, ast.Expr) and isinstance(st.value, ast.Constant)):
            continue
        if isinstance(st, ast.AnnAssign) and st.value is None:
            continue
        if isinstance(st, ast.Expr) and isinstance(st.value, ast.Call) and ast.unparse(st.value.func).split(".")[0] in _LOGGERS:
            continue
        if isinstance(st, ast.AnnAssign) and isinstance(st.target, ast.Name):
            st = ast.Assign(targets=[st.target], value=st.value, lineno=_ln(st))
        call = (st.value if isinstance(st, (ast.Assign, ast.Expr)) else None)
        if isinstance(call, ast.Call) and isinstance(call.func, ast.Name) and call.func.id in funcs and call.func.id not in keep \
                and (isinstance(st, ast.Expr) or len(st.targets) == 1) and counter[0] < 12:
            counter[0] += 1
            inl = _inline_call(call, None if isinstance(st, ast.Expr) else st.targets[0], funcs, f"_{call.func.id}{counter[0]}__")
            if inl is not None:
                out += _simplify(inl, funcs, keep | {call.func.id}, counter)
                continue
        if isinstance(st, ast.Assign) and len(st.targets) == 1 and isinstance(st.targets[0], ast.Tuple) \
                and isinstance(st.value, ast.Tuple) and len(st.value.elts) == len(st.targets[0].elts) \
                and all(isinstance(t, ast.Name) for t in st.targets[0].elts):
            tn = {t.id for t in st.targets[0].elts}
            if not any(isinstance(n, ast.Name) and n.id in tn for e in st.value.elts for n in ast.walk(e)) and len(tn) == len(st.value.elts):
                out += [ast.Assign(targets=[t], value=v, lineno=_ln(st)) for t, v in zip(st.targets[0].elts, st.value.elts)]
                continue
        elts = _iter_elts(st.iter) if isinstance(st, ast.For) and not st.orelse else None
        if elts is not None and len(elts) <= 8:
            un = _unroll(st, elts)
            if un is not None:
                out += _simplify(un, funcs, keep, counter)
                continue
        if isinstance(st, ast.Assign) and len(st.targets) == 1 and isinstance(st.value, ast.IfExp):
            st = ast.If(test=st.value.test, body=[ast.Assign(targets=st.targets, value=st.value.body, lineno=_ln(st))],
                        orelse=[ast.Assign(targets=copy.deepcopy(st.targets), value=st.value.orelse, lineno=_ln(st))],
                        lineno=_ln(st))
        if isinstance(st, ast.If):
            t, body, orelse = st.test, _simplify(st.body, funcs, keep, counter), _simplify(st.orelse, funcs, keep, counter)
            if isinstance(t, ast.UnaryOp) and isinstance(t.op, ast.Not) and not (
                    isinstance(t.operand, ast.Compare) and len(t.operand.ops) == 1):
                if orelse:
                    t, body, orelse = t.operand, orelse, body
            elif isinstance(t, ast.UnaryOp) and isinstance(t.op, ast.Not):
                t = _not(t.operand)
            if isinstance(t, ast.Compare) and len(t.ops) == 1 and isinstance(t.ops[0], ast.Is) and body and orelse \
                    and isinstance(t.comparators[0], ast.Constant) and t.comparators[0].value is None:
                t, body, orelse = _not(t), orelse, body
            if isinstance(t, ast.BoolOp) and isinstance(t.op, ast.Or) and not orelse and _terminates(body):
                out += _simplify([ast.If(test=v, body=copy.deepcopy(body), orelse=[], lineno=_ln(st)) for v in t.values],
                                 funcs, keep, counter)
                continue
            if not body:
                if not orelse:
                    continue
                t, body, orelse = _not(t), orelse, []
            out.append(ast.If(test=t, body=body, orelse=orelse, lineno=_ln(st)))
            continue
        out.append(st)
    return out


def _chain_root(node):
    while isinstance(node, ast.Attribute):
        node = node.value
    return node if isinstance(node, ast.Name) else None


def _expand_aliases(body, pars):
    stores = {}
    for st in body:
        for n in ast.walk(st):
            if isinstance(n, ast.Name) and isinstance(n.ctx, (ast.Store, ast.Del)):
                stores[n.id] = stores.get(n.id, 0) + 1
            elif isinstance(n, ast.ExceptHandler) and n.name:
                stores[n.name] = stores.get(n.name, 0) + 2
    alias, out = {}, []

    class Sub(ast.NodeTransformer):
        def visit_Name(self, n):
            if isinstance(n.ctx, ast.Load) and n.id in alias:
                return copy.deepcopy(alias[n.id])
            return n

    for st in body:
        st = Sub().visit(st)
        if isinstance(st, ast.Assign) and len(st.targets) == 1 and isinstance(st.targets[0], ast.Name):
            nm, root = st.targets[0].id, _chain_root(st.value)
            if stores.get(nm) == 1 and nm not in pars and root is not None and root.id in pars and stores.get(root.id, 0) == 0:
                alias[nm] = st.value
                continue
        out.append(st)
    return out


def _leaf_ok(e, depth=0):
    """a sequence element whose evaluation has no effect and whose value does not depend on WHEN it is evaluated, given
    that the names in it are never rebound later: constants, names, tuples of them"""
    if isinstance(e, (ast.Constant, ast.Name)):
        return True
    return isinstance(e, ast.Tuple) and depth < 3 and all(_leaf_ok(x, depth + 1) for x in e.elts)


def _module_const_seqs(tree):
    """module-level names bound exactly once to a tuple of constants (and never rebound through `global`)"""
    count, val = {}, {}
    for st in tree.body:
        for n in ast.walk(st) if not isinstance(st, (ast.FunctionDef, ast.ClassDef)) else [ast.Name(id=st.name, ctx=ast.Store())]:
            if isinstance(n, ast.Name) and isinstance(n.ctx, (ast.Store, ast.Del)):
                count[n.id] = count.get(n.id, 0) + 1
        tgt = st.targets[0] if isinstance(st, ast.Assign) and len(st.targets) == 1 else getattr(st, "target", None) \
            if isinstance(st, ast.AnnAssign) and st.value is not None else None
        if isinstance(tgt, ast.Name) and isinstance(st.value, ast.Tuple) and _leaf_ok(st.value) \
                and not any(isinstance(n, ast.Name) for n in ast.walk(st.value)):
            val[tgt.id] = st.value
    rebound = {nm for n in ast.walk(tree) if isinstance(n, ast.Global) for nm in n.names}
    return {k: v for k, v in val.items() if count.get(k) == 1 and k not in rebound}


def _record_classes(tree):
    """module-level named-tuple classes: name -> field names in order.  `class X(NamedTuple): a: T; b: T` (fields without
    defaults, docstring allowed, nothing else in the body) and `X = namedtuple("X", ["a", "b"])` / `"a b"` / `"a, b"`"""
    imap = _import_map(tree, "m.py")
    def is_(node, mod, name):
        t = ast.unparse(node)
        return imap.get(t) == ("from", mod, name) or ("." in t and imap.get(t.split(".")[0]) == ("module", mod) and t.split(".", 1)[1] == name)
    out, count = {}, {}
    for st in tree.body:
        for n in ([ast.Name(id=st.name, ctx=ast.Store())] if isinstance(st, (ast.FunctionDef, ast.AsyncFunctionDef, ast.ClassDef))
                  else ast.walk(st)):
            if isinstance(n, ast.Name) and not isinstance(n.ctx, ast.Load):
                count[n.id] = count.get(n.id, 0) + 1
        if isinstance(st, ast.ClassDef) and len(st.bases) == 1 and is_(st.bases[0], "typing", "NamedTuple") \
                and not st.keywords and not st.decorator_list:
            b = body_no_doc(st)
            if b and all(isinstance(x, ast.AnnAssign) and isinstance(x.target, ast.Name) and x.value is None for x in b):
                out[st.name] = [x.target.id for x in b]
        elif isinstance(st, ast.Assign) and len(st.targets) == 1 and isinstance(st.targets[0], ast.Name) \
                and isinstance(st.value, ast.Call) and is_(st.value.func, "collections", "namedtuple") \
                and len(st.value.args) == 2 and not st.value.keywords:
            f = st.value.args[1]
            if isinstance(f, ast.Constant) and isinstance(f.value, str):
                out[st.targets[0].id] = f.value.replace(",", " ").split()
            elif isinstance(f, (ast.Tuple, ast.List)) and all(isinstance(e, ast.Constant) and isinstance(e.value, str) for e in f.elts):
                out[st.targets[0].id] = [e.value for e in f.elts]
    rebound = {nm for n in ast.walk(tree) if isinstance(n, ast.Global) for nm in n.names}
    return {k: v for k, v in out.items() if count.get(k) == 1 and k not in rebound and len(set(v)) == len(v)}


def _loop_sources(body, pars, consts, partial_names=(), records=None):
    """`for .. in NAME` (or in zip / enumerate / .items() over names) where NAME is bound ONCE, before the loop and outside any
    loop, to a tuple / list / dict literal of constants and never-rebound names, or is a module-level tuple of constants:
    the name in the loop header is replaced by the literal, so that the loop can be unrolled.  The assignment itself stays
    (and is read like any other assignment).  A list / dict literal qualifies only when the name is used nowhere else
    (nothing can have changed it)."""
    stores, loads, order, in_loop, k = {}, {}, {}, {}, [0]

    def scan(stmts, looped):
        for st in stmts:
            k[0] += 1
            here = k[0]
            subs = [getattr(st, f) for f in ("body", "orelse", "finalbody") if isinstance(getattr(st, f, None), list)]
            subs += [h.body for h in getattr(st, "handlers", [])] + [c.body for c in getattr(st, "cases", [])]
            own = [x for x in ast.iter_child_nodes(st) if not isinstance(x, (ast.stmt, ast.ExceptHandler))
                   and type(x).__name__ != "match_case"]
            for h in getattr(st, "handlers", []):
                if h.name:
                    stores[h.name] = stores.get(h.name, 0) + 2
            for x in own:
                for n in ast.walk(x):
                    if isinstance(n, ast.Name):
                        if isinstance(n.ctx, ast.Load):
                            loads[n.id] = loads.get(n.id, 0) + 1
                        else:
                            stores[n.id] = stores.get(n.id, 0) + 1
                            order[n.id], in_loop[n.id] = here, looped or isinstance(st, (ast.For, ast.While))
                    elif isinstance(n, (ast.NamedExpr, ast.ListComp, ast.SetComp, ast.DictComp, ast.GeneratorExp, ast.Lambda)):
                        stores["*"] = 1                      # scopes / bindings this scan does not follow
            if isinstance(st, (ast.FunctionDef, ast.AsyncFunctionDef, ast.ClassDef, ast.Global, ast.Nonlocal, ast.Import,
                               ast.ImportFrom)) or type(st).__name__ == "Match":
                stores["*"] = 1
            for sub in subs:
                scan(sub, looped or isinstance(st, (ast.For, ast.While)))

    scan(body, False)
    if stores.get("*"):
        return body, False
    changed = [False]

    def fixed_before(name, pos):
        """the name holds the same value from position `pos` on"""
        c = stores.get(name, 0)
        return c == 0 or (c == 1 and name not in pars and not in_loop[name] and order[name] < pos)

    def walk(stmts, avail):
        avail = dict(avail)                                   # name -> (literal, position) bound earlier in an enclosing list
        for st in stmts:
            k[0] += 1
            here = k[0]
            # `p = partial(f, a, k=x)` ... `p(b, j=y)`  ==  `f(a, b, k=x, j=y)`: p bound once (outside loops, earlier in an
            # enclosing statement list), used exactly once, the names in the bound arguments never rebound afterwards
            part = {nm: v for nm, v in avail.items() if v[0] == "partial" and fixed_before(nm, here)}
            recs = {nm: v[1] for nm, v in avail.items() if v[0] == "record" and fixed_before(nm, here)}
            if part or recs:
                class Calls(ast.NodeTransformer):
                    # `v = X(e1, e2)` (X a named-tuple class with fields a, b) ... `v.a` / `v[0]`  ==  e1
                    def visit_Attribute(self, n):
                        self.generic_visit(n)
                        if isinstance(n.value, ast.Name) and n.value.id in recs and isinstance(n.ctx, ast.Load) \
                                and n.attr in recs[n.value.id][0]:
                            changed[0] = True
                            return copy.deepcopy(recs[n.value.id][1][recs[n.value.id][0].index(n.attr)])
                        return n

                    def visit_Subscript(self, n):
                        self.generic_visit(n)
                        if isinstance(n.value, ast.Name) and n.value.id in recs and isinstance(n.ctx, ast.Load):
                            fields, vals = recs[n.value.id]
                            try:
                                i = int_const(n.slice)
                            except Exception:
                                return n
                            if -len(vals) <= i < len(vals):
                                changed[0] = True
                                return copy.deepcopy(vals[i])
                        return n

                    def visit_Call(self, n):
                        self.generic_visit(n)
                        if isinstance(n.func, ast.Name) and n.func.id in part and not any(isinstance(a, ast.Starred) for a in n.args) \
                                and not any(kw.arg is None for kw in n.keywords):
                            pc = part[n.func.id][1]
                            given = {kw.arg for kw in n.keywords}
                            changed[0] = True
                            return ast.Call(func=copy.deepcopy(pc.args[0]), args=copy.deepcopy(pc.args[1:]) + n.args,
                                            keywords=[copy.deepcopy(kw) for kw in pc.keywords if kw.arg not in given] + n.keywords)
                        return n
                for f, v in list(ast.iter_fields(st)):
                    if isinstance(v, ast.expr):
                        setattr(st, f, Calls().visit(v))
                    elif isinstance(v, list) and f not in ("body", "orelse", "finalbody", "handlers", "cases"):
                        setattr(st, f, [Calls().visit(x) if isinstance(x, (ast.expr, ast.keyword, ast.withitem)) else x for x in v])
            if isinstance(st, ast.For):
                names = {n.id for n in ast.walk(st.iter) if isinstance(n, ast.Name) and isinstance(n.ctx, ast.Load)}
                m = {}
                for nm in names:
                    if nm in avail and avail[nm][0] not in ("partial", "record") and fixed_before(nm, here):
                        lit, _ = avail[nm]
                        n_uses = sum(1 for n in ast.walk(st.iter) if isinstance(n, ast.Name) and n.id == nm)
                        if isinstance(lit, ast.Tuple) or loads.get(nm, 0) == n_uses:
                            m[nm] = lit
                    elif stores.get(nm, 0) == 0 and nm not in pars and nm in consts:
                        m[nm] = consts[nm]
                if m:
                    class Sub(ast.NodeTransformer):
                        def visit_Name(self, n):
                            return copy.deepcopy(m[n.id]) if n.id in m and isinstance(n.ctx, ast.Load) else n
                    it = Sub().visit(copy.deepcopy(st.iter))
                    if _iter_elts(it) is not None:
                        st.iter = it
                        changed[0] = True
            tgt = st.targets[0] if isinstance(st, ast.Assign) and len(st.targets) == 1 else None
            if isinstance(tgt, ast.Name) and stores.get(tgt.id) == 1 and tgt.id not in pars and not in_loop[tgt.id]:
                v = st.value
                elems = list(v.elts) if isinstance(v, (ast.Tuple, ast.List)) else \
                    [x for x in list(v.keys) + list(v.values)] if isinstance(v, ast.Dict) and None not in v.keys else None
                if elems is not None and all(_leaf_ok(e) for e in elems) and all(
                        fixed_before(n.id, here) for e in elems for n in ast.walk(e) if isinstance(n, ast.Name)):
                    avail[tgt.id] = (v, here)
                if isinstance(v, ast.Call) and ast.unparse(v.func) in partial_names and v.args and isinstance(v.args[0], ast.Name) \
                        and loads.get(tgt.id, 0) == 1 and not any(isinstance(a, ast.Starred) for a in v.args) \
                        and not any(kw.arg is None for kw in v.keywords) \
                        and all(isinstance(n, (ast.Constant, ast.Name, ast.Attribute, ast.Subscript, ast.Call, ast.keyword, ast.Tuple, ast.Load))
                                for a in list(v.args) + [kw.value for kw in v.keywords] for n in ast.walk(a)) \
                        and all(fixed_before(n.id, here) for n in ast.walk(v) if isinstance(n, ast.Name)):
                    avail[tgt.id] = ("partial", v)
                fields = (records or {}).get(v.func.id) if isinstance(v, ast.Call) and isinstance(v.func, ast.Name) \
                    and stores.get(v.func.id, 0) == 0 and v.func.id not in pars else None
                if fields is not None and not any(kw.arg is None for kw in v.keywords):
                    vals = None
                    if len(v.args) == 1 and isinstance(v.args[0], ast.Starred) and not v.keywords and _chain_root(v.args[0].value) is not None:
                        vals = [ast.Subscript(value=copy.deepcopy(v.args[0].value), slice=ast.Constant(value=i), ctx=ast.Load())
                                for i in range(len(fields))]           # X(*seq): the call itself raises unless len(seq) == len(fields)
                    elif not any(isinstance(a, ast.Starred) for a in v.args):
                        m = dict(zip(fields, v.args))
                        if len(v.args) <= len(fields) and all(kw.arg in fields and kw.arg not in m for kw in v.keywords):
                            m.update({kw.arg: kw.value for kw in v.keywords})
                            if set(m) == set(fields) and all(_simple_arg(e) for e in m.values()):
                                vals = [m[f] for f in fields]
                    if vals is not None and all(fixed_before(n.id, here) for n in ast.walk(v) if isinstance(n, ast.Name)):
                        avail[tgt.id] = ("record", (fields, vals))
            for f in ("body", "orelse", "finalbody"):
                sub = getattr(st, f, None)
                if isinstance(sub, list):
                    walk(sub, avail)
            for h in getattr(st, "handlers", []):
                walk(h.body, avail)
            for c in getattr(st, "cases", []):
                walk(c.body, avail)
        return stmts

    k[0] = 0
    walk(body, {})
    return body, changed[0]


def _parse(repo, rel):
    tree = parse(repo, rel)
    tree._repo, tree._rel = repo, rel                        # lets the normaliser follow helpers imported from the package
    return tree


_READ_AS_CALLS = {"get_dtype"}                               # imported functions the reader wants to SEE called


def _import_map(tree, rel):
    """name -> what a top-level import statement binds it to (absolute module path [, imported name])"""
    pkg = rel[:-3].split("/")[:-1] if not rel.endswith("__init__.py") else rel.split("/")[:-1]
    out = {}
    for st in tree.body:
        if isinstance(st, ast.Import):
            for a in st.names:
                out[a.asname or a.name.split(".")[0]] = ("module", a.name if a.asname else a.name.split(".")[0])
        elif isinstance(st, ast.ImportFrom):
            base = pkg[:len(pkg) - (st.level - 1)] if st.level else []
            mod = ".".join(base + (st.module.split(".") if st.module else []))
            for a in st.names:
                out[a.asname or a.name] = ("from", mod, a.name)
    return out


def _foreign_def(repo, mod, name, depth=0):
    """(FunctionDef, its module's tree, rel) of `name` imported from module `mod` of the package under `repo`; follows
    re-exports (`from .misc import name`) a few levels; None when it is not a plain function found there"""
    for rel in (mod.replace(".", "/") + ".py", mod.replace(".", "/") + "/__init__.py"):
        if (repo / rel).is_file():
            break
    else:
        return None
    try:
        tree = ast.parse((repo / rel).read_text())
    except (SyntaxError, OSError, UnicodeDecodeError):
        return None
    binds = [st for st in tree.body if (isinstance(st, (ast.FunctionDef, ast.AsyncFunctionDef, ast.ClassDef)) and st.name == name)
             or any(isinstance(n, ast.Name) and n.id == name and not isinstance(n.ctx, ast.Load) for n in ast.walk(st)
                    if not isinstance(st, (ast.FunctionDef, ast.AsyncFunctionDef, ast.ClassDef)))]
    if len(binds) == 1 and isinstance(binds[0], ast.FunctionDef):
        return binds[0], tree, rel
    if not binds and depth < 3:
        m = _import_map(tree, rel).get(name)
        if m is not None and m[0] == "from":
            return _foreign_def(repo, m[1], m[2], depth + 1)
    return None


def _foreign_helpers(tree):
    """helpers imported from other modules of the package, usable for inlining: the function's free names must mean the
    same thing in this module (builtins, or bound by the same import in both modules)"""
    import builtins
    repo, rel = getattr(tree, "_repo", None), getattr(tree, "_rel", None)
    if repo is None:
        return {}
    here, out = _import_map(tree, rel), {}
    for nm, m in here.items():
        if m[0] != "from" or nm in _READ_AS_CALLS or m[2] in _READ_AS_CALLS:
            continue
        found = _foreign_def(repo, m[1], m[2])
        if found is None:
            continue
        f, ftree, frel = found
        there = _import_map(ftree, frel)
        a = f.args
        local = {x.arg for x in a.args + a.kwonlyargs + a.posonlyargs} | {x.arg for x in (a.vararg, a.kwarg) if x}
        local |= {n.id for n in ast.walk(f) if isinstance(n, ast.Name) and not isinstance(n.ctx, ast.Load)}
        local |= {n.name for n in ast.walk(f) if isinstance(n, ast.ExceptHandler) and n.name}
        free = {n.id for st in f.body for n in ast.walk(st) if isinstance(n, ast.Name) and isinstance(n.ctx, ast.Load)} - local
        free |= {n.id for d in list(a.defaults) + [d for d in a.kw_defaults if d is not None] for n in ast.walk(d) if isinstance(n, ast.Name)}
        if all(hasattr(builtins, x) or (x in there and there[x] == here.get(x)) for x in free):
            g = copy.deepcopy(f)
            g.name = nm
            out[nm] = g
    return out


def _normalised(tree, fname, keep):
    fn = find_func(tree, fname)
    funcs = _foreign_helpers(tree)
    funcs.update({n.name: n for n in tree.body if isinstance(n, ast.FunctionDef) and n.name != fname})
    pars = [a.arg for a in fn.args.args + fn.args.kwonlyargs]
    counter = [0]
    body = _simplify(copy.deepcopy(body_no_doc(fn)), funcs, set(keep), counter)
    imap = _import_map(tree, getattr(tree, "_rel", "m.py"))
    partial_names = {k for k, v in imap.items() if v == ("from", "functools", "partial")} | \
        {k + ".partial" for k, v in imap.items() if v == ("module", "functools")}
    body, changed = _loop_sources(body, pars, _module_const_seqs(tree), partial_names, _record_classes(tree))
    if changed:
        body = _simplify(body, funcs, set(keep), counter)
    body = _expand_aliases(_flatten(body), pars)
    while body and isinstance(body[-1], ast.Return) and (body[-1].value is None or (
            isinstance(body[-1].value, ast.Constant) and body[-1].value.value is None)):
        body = body[:-1]                                   # a bare `return` at the very end
    new = ast.FunctionDef(name=fn.name, args=fn.args, body=body or [ast.Pass()], decorator_list=fn.decorator_list,
                          returns=fn.returns, lineno=fn.lineno, col_offset=0)
    return ast.fix_missing_locations(new)


def _given(t, params):
    """(parameter, polarity) when the test only asks whether an optional parameter was given"""
    if isinstance(t, ast.Name) and t.id in params:
        return t.id, True
    if isinstance(t, ast.Compare) and len(t.ops) == 1 and isinstance(t.ops[0], (ast.Is, ast.IsNot)) \
            and isinstance(t.left, ast.Name) and t.left.id in params \
            and isinstance(t.comparators[0], ast.Constant) and t.comparators[0].value is None:
        return t.left.id, isinstance(t.ops[0], ast.IsNot)
    if isinstance(t, ast.UnaryOp) and isinstance(t.op, ast.Not):
        g = _given(t.operand, params)
        return None if g is None else (g[0], not g[1])
    if isinstance(t, ast.BoolOp):
        gs = [_given(v, params) for v in t.values]
        want = isinstance(t.op, ast.And)                      # `p is not None and p` / `p is None or not p`
        if all(g is not None and g[0] == gs[0][0] and g[1] == want for g in gs):
            return gs[0][0], want
    return None


def _assigns_in_order(stmts):
    for st in stmts:
        if isinstance(st, (ast.Assign, ast.AnnAssign)):
            yield st
        for fld in ("body", "handlers", "orelse", "finalbody"):
            sub = getattr(st, fld, None)
            if isinstance(sub, list):
                yield from _assigns_in_order(sub)


def _wrapper(tree, fname, apply_name, want):
    fn = _normalised(tree, fname, {apply_name})
    ap = find_func(tree, apply_name)
    sig = [a.arg for a in ap.args.args]
    if sorted(sig) != sorted(want):
        fail(ap, f"{apply_name} signature {sig}")
    pars = [a.arg for a in fn.args.args]
    if not pars:
        fail(fn, "no detector parameter")
    det, params = pars[0], set(pars[1:])
    env, guards, dtype_rule, stored, call_of = {}, set(), {}, None, {}
    body = body_no_doc(fn)
    for k, st in enumerate(body):
        if stored is not None:
            fail(st, "statement after the image was stored")
        if isinstance(st, ast.AnnAssign) and st.value is not None and isinstance(st.target, ast.Name):
            tgt, val = st.target, st.value
        elif isinstance(st, ast.Assign) and len(st.targets) == 1:
            tgt, val = st.targets[0], st.value
        elif isinstance(st, ast.If):
            t = st.test
            # length guards of the noisy variant
            if (isinstance(t, ast.Compare) and len(t.ops) == 1 and isinstance(t.ops[0], ast.NotEq)
                    and isinstance(t.left, ast.Call) and ast.unparse(t.left.func) == "len" and len(t.left.args) == 1
                    and isinstance(t.left.args[0], ast.Name) and t.left.args[0].id in params
                    and _resolve(t.comparators[0], env, det, params) == "FromBits"
                    and len(st.body) == 1 and isinstance(st.body[0], ast.Raise) and not st.orelse
                    and isinstance(st.body[0].exc, ast.Call) and ast.unparse(st.body[0].exc.func) == "ValueError"):
                guards.add(t.left.args[0].id)
                continue
            # data_type override: `if data_type:` / `if data_type is not None:` or the negated forms with swapped branches
            given = _given(t, params)
            if given is not None and not given[1]:
                st = ast.If(test=t, body=st.orelse, orelse=st.body, lineno=_ln(st))
            is_dt = given is not None
            if is_dt and len(st.orelse) == 1 and st.body:
                dtp = given[0]
                e = st.orelse[0]
                ev = e.value if isinstance(e, (ast.Assign, ast.AnnAssign)) else None
                et = (e.targets[0] if isinstance(e, ast.Assign) and len(e.targets) == 1 else
                      e.target if isinstance(e, ast.AnnAssign) else None)
                if not (isinstance(et, ast.Name) and isinstance(ev, ast.Call) and ast.unparse(ev.func) in ("get_dtype", "pyxel.util.get_dtype")
                        and len(ev.args) + len(ev.keywords) == 1):
                    fail(e, "else branch must be `name = get_dtype(bits)`")
                barg = ev.args[0] if ev.args else ev.keywords[0].value
                # the if-branch must bind the same name from np.dtype(data_type) (directly or through names that hold
                # nothing but np.dtype(data_type)) and may only raise besides
                dt_names = set()
                for n in _assigns_in_order(st.body):
                    nt = n.targets[0] if isinstance(n, ast.Assign) and len(n.targets) == 1 else getattr(n, "target", None)
                    if not isinstance(nt, ast.Name) or nt.id in params or env.get(nt.id) not in (None, "DTYPE"):
                        fail(n, "override branch binds something else than a local dtype name")
                    v = n.value
                    if isinstance(v, ast.Name) and v.id in dt_names:
                        dt_names.add(nt.id)
                    elif (isinstance(v, ast.Call) and ast.unparse(v.func) in ("np.dtype", "numpy.dtype") and len(v.args) == 1
                            and isinstance(v.args[0], ast.Name) and v.args[0].id == dtp and not v.keywords):
                        dt_names.add(nt.id)
                    elif isinstance(n, ast.AnnAssign) and v is None:
                        continue
                    else:
                        fail(n, "override branch must bind np.dtype(data_type)")
                ok = et.id in dt_names
                for n in ast.walk(ast.Module(body=st.body, type_ignores=[])):
                    if isinstance(n, (ast.Return, ast.Delete, ast.AugAssign, ast.For, ast.While, ast.With, ast.Global)):
                        fail(n, "unexpected statement in the override branch")
                if not ok:
                    fail(st, "override branch does not bind the dtype")
                env[et.id] = "DTYPE"
                dtype_rule[et.id] = f"DtOverrideElseGetDtypeOf {_resolve(barg, env, det, params)}"
                continue
            fail(st, "unexpected if statement")
        else:
            fail(st, "unexpected statement")
        # assignments
        if isinstance(tgt, ast.Tuple):
            if not (len(tgt.elts) == 2 and all(isinstance(e, ast.Name) for e in tgt.elts)
                    and ast.unparse(val) == f"{det}.characteristics.adc_voltage_range"):
                fail(st, "tuple assignment must unpack adc_voltage_range into two names")
            call_of.pop(tgt.elts[0].id, None)
            call_of.pop(tgt.elts[1].id, None)
            env[tgt.elts[0].id], env[tgt.elts[1].id] = "FromRangeLo", "FromRangeHi"
        elif isinstance(tgt, ast.Name):
            prev_call = call_of.get(val.id) if isinstance(val, ast.Name) else None
            call_of.pop(tgt.id, None)                      # a rebound name no longer stands for the converter's result
            if isinstance(val, ast.Call) and ast.unparse(val.func) == apply_name:
                call_of[tgt.id] = val
                env[tgt.id] = "CALL"
            elif isinstance(val, ast.Call) and ast.unparse(val.func) in ("get_dtype", "pyxel.util.get_dtype") \
                    and len(val.args) + len(val.keywords) == 1:
                barg = val.args[0] if val.args else val.keywords[0].value
                env[tgt.id] = "DTYPE"
                dtype_rule[tgt.id] = f"DtGetDtypeOf {_resolve(barg, env, det, params)}"
            elif prev_call is not None:
                call_of[tgt.id] = prev_call                # another name for the converter's result
                env[tgt.id] = "CALL"
            elif isinstance(val, ast.Name) and env.get(val.id) == "DTYPE":
                env[tgt.id] = "DTYPE"
                dtype_rule[tgt.id] = dtype_rule[val.id]
            else:
                env[tgt.id] = _resolve(val, env, det, params)
        elif isinstance(tgt, ast.Attribute) and ast.unparse(tgt) == f"{det}.image.array":
            if isinstance(val, ast.Call) and ast.unparse(val.func) == apply_name:
                stored = val
            elif isinstance(val, ast.Name) and val.id in call_of:
                stored = call_of[val.id]
            else:
                fail(st, "detector.image.array must receive the converter's result unchanged")
        else:
            fail(st, "unexpected assignment target")
    if stored is None:
        fail(fn, "detector.image.array is never assigned")
    args = _call_args(stored, sig)
    if sorted(args) != sorted(want):
        fail(stored, f"converter called with arguments {sorted(args)}")
    res = {}
    for k, v in args.items():
        if isinstance(v, ast.Name) and env.get(v.id) == "DTYPE":
            res[k] = dtype_rule[v.id]
        elif isinstance(v, ast.Call) and ast.unparse(v.func) in ("get_dtype", "pyxel.util.get_dtype") \
                and len(v.args) + len(v.keywords) == 1:
            barg = v.args[0] if v.args else v.keywords[0].value
            res[k] = f"DtGetDtypeOf {_resolve(barg, env, det, params)}"
        else:
            r = _resolve(v, env, det, params)
            res[k] = r if r not in ("DTYPE", "CALL") else "FromOther"
    return res, guards


PARTS = {"characteristics": "PCharacteristics", "signal": "PSignal", "geometry": "PGeometry", "image": "PImage"}


def _touch(tree, fname, apply_name):
    """Which parts of the detector object the body of a detector-level model reads and writes (first attribute after
    the detector parameter; the bare object used in any other way counts as the whole detector)."""
    fn = _normalised(tree, fname, {apply_name})
    det = fn.args.args[0].arg
    parent = {}
    for n in ast.walk(fn):
        for ch in ast.iter_child_nodes(n):
            parent[ch] = n
    reads, writes = [], []

    def add(lst, part):
        if part not in lst:
            lst.append(part)

    for n in ast.walk(fn):
        if not (isinstance(n, ast.Name) and n.id == det):
            continue
        if not isinstance(n.ctx, ast.Load):
            add(writes, "PWhole")
            continue
        p = parent.get(n)
        if not (isinstance(p, ast.Attribute) and p.value is n):
            add(reads, "PWhole")
            continue
        part = PARTS.get(p.attr, "POtherPart")
        top = p
        while True:
            q = parent.get(top)
            if isinstance(q, (ast.Attribute, ast.Subscript)) and q.value is top:
                top = q
            else:
                break
        if isinstance(top.ctx, (ast.Store, ast.Del)):
            add(writes, part)
            if isinstance(parent.get(top), ast.AugAssign) or top is p:
                add(reads, part)          # `x.image.array += ...` reads too; `detector.image = ...` replaces a part
        else:
            add(reads, part)
    canon = ["PCharacteristics", "PSignal", "PGeometry", "PImage", "POtherPart", "PWhole"]   # a set: the order says nothing
    reads, writes = sorted(reads, key=canon.index), sorted(writes, key=canon.index)
    return f"{{| t_reads := [{'; '.join(reads)}]; t_writes := [{'; '.join(writes)}] |}}"


# ------------------------------------------------------------------------------------------ no state between calls
# The model treats every converter as a FUNCTION of its arguments.  This scan lists what in the source could carry
# something from one call to the next: a name the function (or a module-level helper it calls) reads that is neither a
# local, a builtin, an imported name, a module-level function that is called, nor a module-level name bound once to an
# immutable literal; a `global` / `nonlocal` declaration; a module-level function used as an object (function
# attributes); a default argument that is not an immutable literal.

def _is_literal_const(node) -> bool:
    if isinstance(node, ast.Constant):
        return True
    if isinstance(node, ast.UnaryOp) and isinstance(node.op, (ast.USub, ast.UAdd)):
        return _is_literal_const(node.operand)
    if isinstance(node, ast.BinOp):
        return _is_literal_const(node.left) and _is_literal_const(node.right)
    if isinstance(node, ast.Tuple):
        return all(_is_literal_const(e) for e in node.elts)
    return False


def _module_state(tree, roots, label):
    import builtins
    mod_funcs = {n.name: n for n in tree.body if isinstance(n, (ast.FunctionDef, ast.AsyncFunctionDef))}
    imported = set()
    for n in ast.walk(tree):
        if isinstance(n, ast.Import):
            imported |= {(a.asname or a.name).split(".")[0] for a in n.names}
        elif isinstance(n, ast.ImportFrom):
            imported |= {a.asname or a.name for a in n.names}
    bound = {}
    for n in tree.body:
        tg = (n.targets if isinstance(n, ast.Assign) else [n.target] if isinstance(n, (ast.AnnAssign, ast.AugAssign)) else [])
        for t in tg:
            for m in ast.walk(t):
                if isinstance(m, ast.Name):
                    bound.setdefault(m.id, []).append(getattr(n, "value", None) if not isinstance(n, ast.AugAssign) else None)
    tparent = {}
    for n in ast.walk(tree):
        for ch in ast.iter_child_nodes(n):
            tparent[ch] = n

    def lit(v):
        """immutable constant: literals, tuples of them, attributes of imported modules (np.uint8), frozenset/tuple(...) of them"""
        if isinstance(v, ast.Tuple):
            return all(lit(e) for e in v.elts)
        if isinstance(v, ast.Attribute):
            r = v
            while isinstance(r, ast.Attribute):
                r = r.value
            return isinstance(r, ast.Name) and r.id in imported
        if isinstance(v, ast.Call) and ast.unparse(v.func) in ("frozenset", "tuple", "range", "MappingProxyType", "types.MappingProxyType") \
                and not v.keywords and all(lit(a) or container(a) for a in v.args):
            return True
        if isinstance(v, ast.Call) and ast.unparse(v.func) in ("namedtuple", "collections.namedtuple") \
                and ast.unparse(v.func).split(".")[0] in imported and all(lit(a) or container(a) for a in v.args) \
                and all(k.arg is not None and lit(k.value) for k in v.keywords):
            return True                                      # a named-tuple CLASS made of literals: nothing to mutate
        return _is_literal_const(v)

    def container(v):
        if isinstance(v, (ast.List, ast.Set)):
            return all(lit(e) for e in v.elts)
        if isinstance(v, ast.Dict):
            return all(k is not None and lit(k) for k in v.keys) and all(lit(e) or container(e) for e in v.values)
        return False

    def read_only(name):
        """every use of a module-level list / dict / set in the module only reads it"""
        for n in ast.walk(tree):
            if not (isinstance(n, ast.Name) and n.id == name):
                continue
            p = tparent.get(n)
            if isinstance(n.ctx, ast.Store) and isinstance(p, (ast.Assign, ast.AnnAssign)) and p in tree.body:
                continue
            if not isinstance(n.ctx, ast.Load):
                return False
            if isinstance(p, ast.Subscript) and p.value is n and isinstance(p.ctx, ast.Load):
                continue
            if isinstance(p, ast.Attribute) and p.attr in ("get", "items", "keys", "values", "index", "count") \
                    and isinstance(tparent.get(p), ast.Call) and tparent[p].func is p:
                continue
            if isinstance(p, ast.Compare) and n in p.comparators and all(isinstance(o, (ast.In, ast.NotIn)) for o in p.ops):
                continue
            if isinstance(p, (ast.For, ast.comprehension)) and p.iter is n:
                continue
            if isinstance(p, ast.Call) and n in p.args and ast.unparse(p.func) in (
                    "len", "sorted", "tuple", "list", "enumerate", "zip", "dict", "set", "frozenset", "min", "max", "reversed"):
                continue
            return False
        return True

    classes = {n.name for n in tree.body if isinstance(n, ast.ClassDef)}

    def class_read_only(name):
        """a module-level class (enum, named tuple, ...) that the module only instantiates / reads attributes of"""
        for n in ast.walk(tree):
            if isinstance(n, ast.Name) and n.id == name:
                if not isinstance(n.ctx, ast.Load):
                    return False
                top = n
                while isinstance(tparent.get(top), (ast.Attribute, ast.Subscript)) and tparent[top].value is top:
                    top = tparent[top]
                if top is not n and not isinstance(top.ctx, ast.Load):
                    return False
                if isinstance(tparent.get(top), ast.AugAssign) and tparent[top].target is top:
                    return False
        cls = next(c for c in tree.body if isinstance(c, ast.ClassDef) and c.name == name)
        for st in cls.body:                                   # class attributes must be immutable constants
            if isinstance(st, (ast.Assign, ast.AnnAssign)) and getattr(st, "value", None) is not None and not lit(st.value) \
                    and not (isinstance(st.value, ast.Call) and ast.unparse(st.value.func) in ("auto", "enum.auto")):
                return False
        return True

    def harmless(k, v):
        return (lit(v) or (isinstance(v, ast.Call) and ast.unparse(v.func) in ("logging.getLogger", "getLogger"))
                or (container(v) and read_only(k)))

    consts = {k for k, vs in bound.items() if len(vs) == 1 and vs[0] is not None and harmless(k, vs[0])}
    consts -= {g for n in ast.walk(tree) if isinstance(n, ast.Global) for g in n.names}     # rebound from inside a function
    flagged, seen, todo = [], set(), [r for r in roots]
    while todo:
        f = todo.pop(0)
        if f in seen:
            continue
        seen.add(f)
        if f not in mod_funcs:
            fail(None, f"{label}: function {f} not found")
        fn = mod_funcs[f]
        parent = {}
        for n in ast.walk(fn):
            for ch in ast.iter_child_nodes(n):
                parent[ch] = n
        declared = set()
        for n in ast.walk(fn):
            if isinstance(n, (ast.Global, ast.Nonlocal)):
                declared |= set(n.names)
        local = {a.arg for n in ast.walk(fn) if isinstance(n, ast.arguments)
                 for a in n.args + n.posonlyargs + n.kwonlyargs + ([n.vararg] if n.vararg else []) + ([n.kwarg] if n.kwarg else [])}
        local |= {n.id for n in ast.walk(fn) if isinstance(n, ast.Name) and isinstance(n.ctx, (ast.Store, ast.Del))}
        local |= {n.name for n in ast.walk(fn) if isinstance(n, (ast.FunctionDef, ast.AsyncFunctionDef, ast.ClassDef)) and n is not fn}
        local |= {n.name for n in ast.walk(fn) if isinstance(n, ast.ExceptHandler) and n.name}
        for n in ast.walk(fn):
            if isinstance(n, (ast.Import, ast.ImportFrom)):
                local |= {(a.asname or a.name).split(".")[0] for a in n.names}
        local -= declared
        for g in sorted(declared):
            flagged.append(f"{label}:{f}:global {g}")
        for d in list(fn.args.defaults) + [d for d in fn.args.kw_defaults if d is not None]:
            if not _is_literal_const(d):
                flagged.append(f"{label}:{f}:default {ast.unparse(d)[:40]}")
        for n in ast.walk(fn):
            if not (isinstance(n, ast.Name) and isinstance(n.ctx, ast.Load)) or n.id in local:
                continue
            if n.id in mod_funcs:
                p = parent.get(n)
                if isinstance(p, ast.Call) and (p.func is n or n in p.args or any(k.value is n for k in p.keywords)):
                    todo.append(n.id)          # called here, or handed to map / np.vectorize / partial: followed like a call
                else:
                    flagged.append(f"{label}:{f}:{n.id} used as an object")
                continue
            if n.id in classes and class_read_only(n.id):
                continue
            if hasattr(builtins, n.id) or n.id in imported or n.id in consts:
                continue
            flagged.append(f"{label}:{f}:{n.id}")
    out = []
    for x in flagged:
        if x not in out:
            out.append(x)
    return out


def module_state(repo: Path) -> str:
    base = "pyxel/models/readout_electronics/"
    fl = []
    fl += _module_state(parse(repo, base + "simple_adc.py"), ["simple_adc", "apply_simple_adc"], "simple_adc.py")
    fl += _module_state(parse(repo, base + "sar_adc.py"), ["sar_adc", "apply_sar_adc"], "sar_adc.py")
    fl += _module_state(parse(repo, base + "sar_adc_with_noise.py"), ["sar_adc_with_noise", "apply_sar_adc_with_noise"],
                        "sar_adc_with_noise.py")
    fl += _module_state(parse(repo, "pyxel/util/misc.py"), ["get_dtype"], "misc.py")
    items = "; ".join('"' + "".join(c if 32 <= ord(c) < 127 and c != '"' else "?" for c in x) + '"%string' for x in fl)
    return f"Definition src_module_state : list string := [{items}].\n"


def _b(x):
    return "true" if x else "false"


def _dt(x):
    return f"({x})" if x.startswith("Dt") else "DtOther"


def _s(x):
    return "FromOther" if x.startswith("Dt") else x


def wrappers(repo: Path) -> str:
    base = "pyxel/models/readout_electronics/"
    a, _ = _wrapper(_parse(repo, base + "simple_adc.py"), "simple_adc", "apply_simple_adc",
                    ["signal", "bit_resolution", "voltage_min", "voltage_max", "dtype"])
    b, _ = _wrapper(_parse(repo, base + "sar_adc.py"), "sar_adc", "apply_sar_adc",
                    ["signal_2d", "num_rows", "num_cols", "min_volt", "max_volt", "adc_bits"])
    c, g = _wrapper(_parse(repo, base + "sar_adc_with_noise.py"), "sar_adc_with_noise", "apply_sar_adc_with_noise",
                    ["signal_2d", "num_rows", "num_cols", "strengths", "noises", "max_volt", "adc_bits"])
    touches = (
        f"Definition src_simple_touch : touch := {_touch(_parse(repo, base + 'simple_adc.py'), 'simple_adc', 'apply_simple_adc')}.\n"
        f"Definition src_sar_touch : touch := {_touch(_parse(repo, base + 'sar_adc.py'), 'sar_adc', 'apply_sar_adc')}.\n"
        f"Definition src_sar0_touch : touch := {_touch(_parse(repo, base + 'sar_adc_with_noise.py'), 'sar_adc_with_noise', 'apply_sar_adc_with_noise')}.\n")
    return touches + (
        f"Definition src_simple_wiring : simple_wiring := {{| sw_signal := {_s(a['signal'])}; sw_bits := {_s(a['bit_resolution'])}; "
        f"sw_vmin := {_s(a['voltage_min'])}; sw_vmax := {_s(a['voltage_max'])}; sw_dtype := {_dt(a['dtype'])}; "
        f"sw_store_image := true |}}.\n"
        f"Definition src_sar_wiring : sar_wiring := {{| rw_signal := {_s(b['signal_2d'])}; rw_rows := {_s(b['num_rows'])}; "
        f"rw_cols := {_s(b['num_cols'])}; rw_vmin := {_s(b['min_volt'])}; rw_vmax := {_s(b['max_volt'])}; "
        f"rw_bits := {_s(b['adc_bits'])}; rw_store_image := true |}}.\n"
        f"Definition src_sar0_wiring : sar0_wiring := {{| nw_signal := {_s(c['signal_2d'])}; nw_rows := {_s(c['num_rows'])}; "
        f"nw_cols := {_s(c['num_cols'])}; nw_strengths := {_s(c['strengths'])}; nw_noises := {_s(c['noises'])}; "
        f"nw_vmax := {_s(c['max_volt'])}; nw_bits := {_s(c['adc_bits'])}; "
        f"nw_guard_strengths := {_b('strengths' in g)}; nw_guard_noises := {_b('noises' in g)}; nw_store_image := true |}}.\n")


# the last accepted shape; used only to keep a model available for the failing-input search when
# the translation itself fails (the failed translation is already a broken obligation)
FALLBACK = (HEADER +
            "From Coq Require Import ZArith List String.\nFrom PyxelV Require Import Model.Adc Model.AdcHist.\n"
            "Import ListNotations.\nOpen Scope Z_scope.\n"
            "Definition src_dtype_chain : dtype_chain := [(1, 8, 8); (9, 16, 16); (17, 32, 32); (33, 64, 64)].\n"
            "Definition src_simple_wiring : simple_wiring := {| sw_signal := FromSignal; sw_bits := FromBits; "
            "sw_vmin := FromRangeLo; sw_vmax := FromRangeHi; sw_dtype := (DtOverrideElseGetDtypeOf FromBits); "
            "sw_store_image := true |}.\n"
            "Definition src_sar_wiring : sar_wiring := {| rw_signal := FromSignal; rw_rows := FromRows; "
            "rw_cols := FromCols; rw_vmin := FromRangeLo; rw_vmax := FromRangeHi; rw_bits := FromBits; "
            "rw_store_image := true |}.\n"
            "Definition src_sar0_wiring : sar0_wiring := {| nw_signal := FromSignal; nw_rows := FromRows; "
            "nw_cols := FromCols; nw_strengths := FromStrengths; nw_noises := FromNoises; nw_vmax := FromRangeHi; "
            "nw_bits := FromBits; nw_guard_strengths := true; nw_guard_noises := true; nw_store_image := true |}.\n"
            "Definition src_module_state : list string := [].\n"
            "Definition src_simple_touch : touch := {| t_reads := [PCharacteristics; PSignal]; t_writes := [PImage] |}.\n"
            "Definition src_sar_touch : touch := {| t_reads := [PCharacteristics; PSignal; PGeometry]; t_writes := [PImage] |}.\n"
            "Definition src_sar0_touch : touch := {| t_reads := [PCharacteristics; PSignal; PGeometry]; t_writes := [PImage] |}.\n")
