"""pyxel/util/misc.py get_dtype -> Gallina band table."""
from __future__ import annotations

import ast
from pathlib import Path

from .common import HEADER, body_no_doc, fail, find_func, int_const, parse


def translate(repo: Path) -> str:
    tree = parse(repo, "pyxel/util/misc.py")
    fn = find_func(tree, "get_dtype")
    if [a.arg for a in fn.args.args] != ["bit_resolution"]:
        fail(fn, "get_dtype signature")
    body = body_no_doc(fn)
    if len(body) != 1 or not isinstance(body[0], ast.If):
        fail(fn, "get_dtype body must be one if/elif chain")
    bands = []
    node = body[0]
    while True:
        t = node.test
        # lo <= bit_resolution <= hi
        if not (isinstance(t, ast.Compare) and len(t.ops) == 2 and all(isinstance(o, ast.LtE) for o in t.ops)
                and isinstance(t.comparators[0], ast.Name) and t.comparators[0].id == "bit_resolution"):
            fail(t, "band test must be `lo <= bit_resolution <= hi`")
        lo, hi = int_const(t.left), int_const(t.comparators[1])
        if len(node.body) != 1 or not isinstance(node.body[0], ast.Return):
            fail(node, "band body must be a single return")
        r = node.body[0].value
        # np.dtype(np.uintN)
        if not (isinstance(r, ast.Call) and ast.unparse(r.func) == "np.dtype" and len(r.args) == 1 and not r.keywords):
            fail(r, "band must return np.dtype(np.uintN)")
        nm = ast.unparse(r.args[0])
        table = {"np.uint8": 8, "np.uint16": 16, "np.uint32": 32, "np.uint64": 64}
        if nm not in table:
            fail(r, "band must return an unsigned numpy type")
        bands.append((lo, hi, table[nm]))
        if len(node.orelse) == 1 and isinstance(node.orelse[0], ast.If):
            node = node.orelse[0]
            continue
        if len(node.orelse) == 1 and isinstance(node.orelse[0], ast.Raise):
            break
        fail(node, "chain must end with `else: raise ...`")
    rows = "; ".join(f"({lo}, {hi}, {w})" for lo, hi, w in bands)
    return (HEADER +
            "From Coq Require Import ZArith List.\nFrom PyxelV Require Import Model.Adc.\n"
            "Import ListNotations.\nOpen Scope Z_scope.\n"
            f"Definition src_dtype_chain : dtype_chain := [{rows}].\n")

# the last accepted shape; used only to keep a model available for the failing-input search when
# the translation itself fails (the failed translation is already a broken obligation)
FALLBACK = (HEADER +
            "From Coq Require Import ZArith List.\nFrom PyxelV Require Import Model.Adc.\n"
            "Import ListNotations.\nOpen Scope Z_scope.\n"
            "Definition src_dtype_chain : dtype_chain := [(1, 8, 8); (9, 16, 16); (17, 32, 32); (33, 64, 64)].\n")
