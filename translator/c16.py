"""pyxel/util/misc.py get_dtype -> Gallina band table; the three detector-level converter models -> wiring records."""
from __future__ import annotations

import ast
from pathlib import Path

from .common import HEADER, body_no_doc, fail, find_func, int_const, parse


def translate(repo: Path) -> str:
    tree = parse(repo, "pyxel/util/misc.py")
    fn = find_func(tree, "get_dtype")
    if [a.arg for a in fn.args.args] != ["bit_resolution"]:
        fail(fn, "get_dtype signature")
    body = body_no_doc(fn)
    if len(body) != 1 or not isinstance(body[0], ast.If):
        fail(fn, "get_dtype body must be one if/elif chain")
    bands = []
    node = body[0]
    while True:
        t = node.test
        # lo <= bit_resolution <= hi
        if not (isinstance(t, ast.Compare) and len(t.ops) == 2 and all(isinstance(o, ast.LtE) for o in t.ops)
                and isinstance(t.comparators[0], ast.Name) and t.comparators[0].id == "bit_resolution"):
            fail(t, "band test must be `lo <= bit_resolution <= hi`")
        lo, hi = int_const(t.left), int_const(t.comparators[1])
        if len(node.body) != 1 or not isinstance(node.body[0], ast.Return):
            fail(node, "band body must be a single return")
        r = node.body[0].value
        # np.dtype(np.uintN)
        if not (isinstance(r, ast.Call) and ast.unparse(r.func) == "np.dtype" and len(r.args) == 1 and not r.keywords):
            fail(r, "band must return np.dtype(np.uintN)")
        nm = ast.unparse(r.args[0])
        table = {"np.uint8": 8, "np.uint16": 16, "np.uint32": 32, "np.uint64": 64}
        if nm not in table:
            fail(r, "band must return an unsigned numpy type")
        bands.append((lo, hi, table[nm]))
        if len(node.orelse) == 1 and isinstance(node.orelse[0], ast.If):
            node = node.orelse[0]
            continue
        if len(node.orelse) == 1 and isinstance(node.orelse[0], ast.Raise):
            break
        fail(node, "chain must end with `else: raise ...`")
    rows = "; ".join(f"({lo}, {hi}, {w})" for lo, hi, w in bands)
    return (HEADER +
            "From Coq Require Import ZArith List String.\nFrom PyxelV Require Import Model.Adc Model.AdcHist.\n"
            "Import ListNotations.\nOpen Scope Z_scope.\n"
            f"Definition src_dtype_chain : dtype_chain := [{rows}].\n"
            + module_state(repo) + wrappers(repo))


# ------------------------------------------------------------------------------------------ detector-level models
# simple_adc / sar_adc / sar_adc_with_noise: which detector attribute feeds which argument of the converter.
# Accepted statement shapes (anything else fails closed):
#   name [: T] = <expr>                      (binds a name to a source)
#   a, b = detector.characteristics.adc_voltage_range        (`_` allowed)
#   if data_type: <np.dtype(data_type) with guards> else: name = get_dtype(<bits>)      (simple_adc only)
#   if len(strengths|noises) != <bits>: raise ValueError(...)                            (noisy variant only)
#   detector.image.array = <converter call | name bound to it>                          (must be the last statement)

DET_ATTRS = {
    "characteristics.adc_bit_resolution": "FromBits",
    "signal.array": "FromSignal",
    "geometry.row": "FromRows",
    "geometry.col": "FromCols",
}


def _resolve(node, env, det, params):
    """Symbolic source of an expression."""
    if isinstance(node, ast.Name):
        return env.get(node.id, "FromOther")
    txt = ast.unparse(node)
    for k, v in DET_ATTRS.items():
        if txt == f"{det}.{k}":
            return v
    # np.asarray(strengths, dtype=float) / np.array(strengths, dtype=float) / np.asarray(strengths)
    if (isinstance(node, ast.Call) and ast.unparse(node.func) in ("np.asarray", "np.array", "numpy.asarray", "numpy.array")
            and len(node.args) == 1 and isinstance(node.args[0], ast.Name) and node.args[0].id in params
            and all(k.arg == "dtype" and ast.unparse(k.value) in ("float", "np.float64", "numpy.float64") for k in node.keywords)):
        return {"strengths": "FromStrengths", "noises": "FromNoises"}.get(node.args[0].id, "FromOther")
    return "FromOther"


def _call_args(call, sig):
    """keyword -> expression of a converter call (positional arguments follow the converter's signature)."""
    out = {}
    if len(call.args) > len(sig):
        fail(call, "too many positional arguments")
    for name, a in zip(sig, call.args):
        if isinstance(a, ast.Starred):
            fail(call, "starred argument")
        out[name] = a
    for k in call.keywords:
        if k.arg is None or k.arg in out:
            fail(call, "unexpected keyword")
        out[k.arg] = k.value
    return out


def _wrapper(tree, fname, apply_name, want):
    fn = find_func(tree, fname)
    ap = find_func(tree, apply_name)
    sig = [a.arg for a in ap.args.args]
    if sorted(sig) != sorted(want):
        fail(ap, f"{apply_name} signature {sig}")
    pars = [a.arg for a in fn.args.args]
    if not pars:
        fail(fn, "no detector parameter")
    det, params = pars[0], set(pars[1:])
    env, guards, dtype_rule, stored, call_of = {}, set(), {}, None, {}
    body = body_no_doc(fn)
    for k, st in enumerate(body):
        if stored is not None:
            fail(st, "statement after the image was stored")
        if isinstance(st, ast.AnnAssign) and st.value is not None and isinstance(st.target, ast.Name):
            tgt, val = st.target, st.value
        elif isinstance(st, ast.Assign) and len(st.targets) == 1:
            tgt, val = st.targets[0], st.value
        elif isinstance(st, ast.If):
            t = st.test
            # length guards of the noisy variant
            if (isinstance(t, ast.Compare) and len(t.ops) == 1 and isinstance(t.ops[0], ast.NotEq)
                    and isinstance(t.left, ast.Call) and ast.unparse(t.left.func) == "len" and len(t.left.args) == 1
                    and isinstance(t.left.args[0], ast.Name) and t.left.args[0].id in params
                    and _resolve(t.comparators[0], env, det, params) == "FromBits"
                    and len(st.body) == 1 and isinstance(st.body[0], ast.Raise) and not st.orelse
                    and isinstance(st.body[0].exc, ast.Call) and ast.unparse(st.body[0].exc.func) == "ValueError"):
                guards.add(t.left.args[0].id)
                continue
            # data_type override
            is_dt = ((isinstance(t, ast.Name) and t.id in params) or
                     (isinstance(t, ast.Compare) and len(t.ops) == 1 and isinstance(t.ops[0], ast.IsNot)
                      and isinstance(t.left, ast.Name) and t.left.id in params
                      and isinstance(t.comparators[0], ast.Constant) and t.comparators[0].value is None))
            if is_dt and len(st.orelse) == 1:
                dtp = t.id if isinstance(t, ast.Name) else t.left.id
                e = st.orelse[0]
                ev = e.value if isinstance(e, (ast.Assign, ast.AnnAssign)) else None
                et = (e.targets[0] if isinstance(e, ast.Assign) and len(e.targets) == 1 else
                      e.target if isinstance(e, ast.AnnAssign) else None)
                if not (isinstance(et, ast.Name) and isinstance(ev, ast.Call) and ast.unparse(ev.func) in ("get_dtype", "pyxel.util.get_dtype")
                        and len(ev.args) + len(ev.keywords) == 1):
                    fail(e, "else branch must be `name = get_dtype(bits)`")
                barg = ev.args[0] if ev.args else ev.keywords[0].value
                # the if-branch must bind the same name from np.dtype(data_type) and may only raise besides
                binds = [n for n in ast.walk(ast.Module(body=st.body, type_ignores=[]))
                         if isinstance(n, (ast.Assign, ast.AnnAssign))]
                ok = False
                for n in binds:
                    nt = n.targets[0] if isinstance(n, ast.Assign) and len(n.targets) == 1 else getattr(n, "target", None)
                    if not (isinstance(nt, ast.Name) and nt.id == et.id):
                        fail(n, "override branch binds another name")
                    v = n.value
                    if not (isinstance(v, ast.Call) and ast.unparse(v.func) in ("np.dtype", "numpy.dtype") and len(v.args) == 1
                            and isinstance(v.args[0], ast.Name) and v.args[0].id == dtp and not v.keywords):
                        fail(n, "override branch must bind np.dtype(data_type)")
                    ok = True
                for n in ast.walk(ast.Module(body=st.body, type_ignores=[])):
                    if isinstance(n, (ast.Return, ast.Delete, ast.AugAssign, ast.For, ast.While, ast.With, ast.Global)):
                        fail(n, "unexpected statement in the override branch")
                if not ok:
                    fail(st, "override branch does not bind the dtype")
                env[et.id] = "DTYPE"
                dtype_rule[et.id] = f"DtOverrideElseGetDtypeOf {_resolve(barg, env, det, params)}"
                continue
            fail(st, "unexpected if statement")
        else:
            fail(st, "unexpected statement")
        # assignments
        if isinstance(tgt, ast.Tuple):
            if not (len(tgt.elts) == 2 and all(isinstance(e, ast.Name) for e in tgt.elts)
                    and ast.unparse(val) == f"{det}.characteristics.adc_voltage_range"):
                fail(st, "tuple assignment must unpack adc_voltage_range into two names")
            env[tgt.elts[0].id], env[tgt.elts[1].id] = "FromRangeLo", "FromRangeHi"
        elif isinstance(tgt, ast.Name):
            if isinstance(val, ast.Call) and ast.unparse(val.func) == apply_name:
                call_of[tgt.id] = val
                env[tgt.id] = "CALL"
            elif isinstance(val, ast.Call) and ast.unparse(val.func) in ("get_dtype", "pyxel.util.get_dtype") \
                    and len(val.args) + len(val.keywords) == 1:
                barg = val.args[0] if val.args else val.keywords[0].value
                env[tgt.id] = "DTYPE"
                dtype_rule[tgt.id] = f"DtGetDtypeOf {_resolve(barg, env, det, params)}"
            else:
                env[tgt.id] = _resolve(val, env, det, params)
        elif isinstance(tgt, ast.Attribute) and ast.unparse(tgt) == f"{det}.image.array":
            if isinstance(val, ast.Call) and ast.unparse(val.func) == apply_name:
                stored = val
            elif isinstance(val, ast.Name) and val.id in call_of:
                stored = call_of[val.id]
            else:
                fail(st, "detector.image.array must receive the converter's result unchanged")
        else:
            fail(st, "unexpected assignment target")
    if stored is None:
        fail(fn, "detector.image.array is never assigned")
    args = _call_args(stored, sig)
    if sorted(args) != sorted(want):
        fail(stored, f"converter called with arguments {sorted(args)}")
    res = {}
    for k, v in args.items():
        if isinstance(v, ast.Name) and env.get(v.id) == "DTYPE":
            res[k] = dtype_rule[v.id]
        elif isinstance(v, ast.Call) and ast.unparse(v.func) in ("get_dtype", "pyxel.util.get_dtype") \
                and len(v.args) + len(v.keywords) == 1:
            barg = v.args[0] if v.args else v.keywords[0].value
            res[k] = f"DtGetDtypeOf {_resolve(barg, env, det, params)}"
        else:
            r = _resolve(v, env, det, params)
            res[k] = r if r not in ("DTYPE", "CALL") else "FromOther"
    return res, guards


PARTS = {"characteristics": "PCharacteristics", "signal": "PSignal", "geometry": "PGeometry", "image": "PImage"}


def _touch(tree, fname):
    """Which parts of the detector object the body of a detector-level model reads and writes (first attribute after
    the detector parameter; the bare object used in any other way counts as the whole detector)."""
    fn = find_func(tree, fname)
    det = fn.args.args[0].arg
    parent = {}
    for n in ast.walk(fn):
        for ch in ast.iter_child_nodes(n):
            parent[ch] = n
    reads, writes = [], []

    def add(lst, part):
        if part not in lst:
            lst.append(part)

    for n in ast.walk(fn):
        if not (isinstance(n, ast.Name) and n.id == det):
            continue
        if not isinstance(n.ctx, ast.Load):
            add(writes, "PWhole")
            continue
        p = parent.get(n)
        if not (isinstance(p, ast.Attribute) and p.value is n):
            add(reads, "PWhole")
            continue
        part = PARTS.get(p.attr, "POtherPart")
        top = p
        while True:
            q = parent.get(top)
            if isinstance(q, (ast.Attribute, ast.Subscript)) and q.value is top:
                top = q
            else:
                break
        if isinstance(top.ctx, (ast.Store, ast.Del)):
            add(writes, part)
            if isinstance(parent.get(top), ast.AugAssign) or top is p:
                add(reads, part)          # `x.image.array += ...` reads too; `detector.image = ...` replaces a part
        else:
            add(reads, part)
    return f"{{| t_reads := [{'; '.join(reads)}]; t_writes := [{'; '.join(writes)}] |}}"


# ------------------------------------------------------------------------------------------ no state between calls
# The model treats every converter as a FUNCTION of its arguments.  This scan lists what in the source could carry
# something from one call to the next: a name the function (or a module-level helper it calls) reads that is neither a
# local, a builtin, an imported name, a module-level function that is called, nor a module-level name bound once to an
# immutable literal; a `global` / `nonlocal` declaration; a module-level function used as an object (function
# attributes); a default argument that is not an immutable literal.

def _is_literal_const(node) -> bool:
    if isinstance(node, ast.Constant):
        return True
    if isinstance(node, ast.UnaryOp) and isinstance(node.op, (ast.USub, ast.UAdd)):
        return _is_literal_const(node.operand)
    if isinstance(node, ast.BinOp):
        return _is_literal_const(node.left) and _is_literal_const(node.right)
    if isinstance(node, ast.Tuple):
        return all(_is_literal_const(e) for e in node.elts)
    return False


def _module_state(tree, roots, label):
    import builtins
    mod_funcs = {n.name: n for n in tree.body if isinstance(n, (ast.FunctionDef, ast.AsyncFunctionDef))}
    imported = set()
    for n in ast.walk(tree):
        if isinstance(n, ast.Import):
            imported |= {(a.asname or a.name).split(".")[0] for a in n.names}
        elif isinstance(n, ast.ImportFrom):
            imported |= {a.asname or a.name for a in n.names}
    bound = {}
    for n in tree.body:
        tg = (n.targets if isinstance(n, ast.Assign) else [n.target] if isinstance(n, (ast.AnnAssign, ast.AugAssign)) else [])
        for t in tg:
            for m in ast.walk(t):
                if isinstance(m, ast.Name):
                    bound.setdefault(m.id, []).append(getattr(n, "value", None) if not isinstance(n, ast.AugAssign) else None)
    def harmless(v):
        return _is_literal_const(v) or (isinstance(v, ast.Call) and ast.unparse(v.func) in ("logging.getLogger", "getLogger"))

    consts = {k for k, vs in bound.items() if len(vs) == 1 and vs[0] is not None and harmless(vs[0])}
    flagged, seen, todo = [], set(), [r for r in roots]
    while todo:
        f = todo.pop(0)
        if f in seen:
            continue
        seen.add(f)
        if f not in mod_funcs:
            fail(None, f"{label}: function {f} not found")
        fn = mod_funcs[f]
        parent = {}
        for n in ast.walk(fn):
            for ch in ast.iter_child_nodes(n):
                parent[ch] = n
        declared = set()
        for n in ast.walk(fn):
            if isinstance(n, (ast.Global, ast.Nonlocal)):
                declared |= set(n.names)
        local = {a.arg for n in ast.walk(fn) if isinstance(n, ast.arguments)
                 for a in n.args + n.posonlyargs + n.kwonlyargs + ([n.vararg] if n.vararg else []) + ([n.kwarg] if n.kwarg else [])}
        local |= {n.id for n in ast.walk(fn) if isinstance(n, ast.Name) and isinstance(n.ctx, (ast.Store, ast.Del))}
        local |= {n.name for n in ast.walk(fn) if isinstance(n, (ast.FunctionDef, ast.AsyncFunctionDef, ast.ClassDef)) and n is not fn}
        local |= {n.name for n in ast.walk(fn) if isinstance(n, ast.ExceptHandler) and n.name}
        for n in ast.walk(fn):
            if isinstance(n, (ast.Import, ast.ImportFrom)):
                local |= {(a.asname or a.name).split(".")[0] for a in n.names}
        local -= declared
        for g in sorted(declared):
            flagged.append(f"{label}:{f}:global {g}")
        for d in list(fn.args.defaults) + [d for d in fn.args.kw_defaults if d is not None]:
            if not _is_literal_const(d):
                flagged.append(f"{label}:{f}:default {ast.unparse(d)[:40]}")
        for n in ast.walk(fn):
            if not (isinstance(n, ast.Name) and isinstance(n.ctx, ast.Load)) or n.id in local:
                continue
            if n.id in mod_funcs:
                p = parent.get(n)
                if isinstance(p, ast.Call) and p.func is n:
                    todo.append(n.id)
                else:
                    flagged.append(f"{label}:{f}:{n.id} used as an object")
                continue
            if hasattr(builtins, n.id) or n.id in imported or n.id in consts:
                continue
            flagged.append(f"{label}:{f}:{n.id}")
    out = []
    for x in flagged:
        if x not in out:
            out.append(x)
    return out


def module_state(repo: Path) -> str:
    base = "pyxel/models/readout_electronics/"
    fl = []
    fl += _module_state(parse(repo, base + "simple_adc.py"), ["simple_adc", "apply_simple_adc"], "simple_adc.py")
    fl += _module_state(parse(repo, base + "sar_adc.py"), ["sar_adc", "apply_sar_adc"], "sar_adc.py")
    fl += _module_state(parse(repo, base + "sar_adc_with_noise.py"), ["sar_adc_with_noise", "apply_sar_adc_with_noise"],
                        "sar_adc_with_noise.py")
    fl += _module_state(parse(repo, "pyxel/util/misc.py"), ["get_dtype"], "misc.py")
    items = "; ".join('"' + "".join(c if 32 <= ord(c) < 127 and c != '"' else "?" for c in x) + '"%string' for x in fl)
    return f"Definition src_module_state : list string := [{items}].\n"


def _b(x):
    return "true" if x else "false"


def _dt(x):
    return f"({x})" if x.startswith("Dt") else "DtOther"


def _s(x):
    return "FromOther" if x.startswith("Dt") else x


def wrappers(repo: Path) -> str:
    base = "pyxel/models/readout_electronics/"
    a, _ = _wrapper(parse(repo, base + "simple_adc.py"), "simple_adc", "apply_simple_adc",
                    ["signal", "bit_resolution", "voltage_min", "voltage_max", "dtype"])
    b, _ = _wrapper(parse(repo, base + "sar_adc.py"), "sar_adc", "apply_sar_adc",
                    ["signal_2d", "num_rows", "num_cols", "min_volt", "max_volt", "adc_bits"])
    c, g = _wrapper(parse(repo, base + "sar_adc_with_noise.py"), "sar_adc_with_noise", "apply_sar_adc_with_noise",
                    ["signal_2d", "num_rows", "num_cols", "strengths", "noises", "max_volt", "adc_bits"])
    touches = (
        f"Definition src_simple_touch : touch := {_touch(parse(repo, base + 'simple_adc.py'), 'simple_adc')}.\n"
        f"Definition src_sar_touch : touch := {_touch(parse(repo, base + 'sar_adc.py'), 'sar_adc')}.\n"
        f"Definition src_sar0_touch : touch := {_touch(parse(repo, base + 'sar_adc_with_noise.py'), 'sar_adc_with_noise')}.\n")
    return touches + (
        f"Definition src_simple_wiring : simple_wiring := {{| sw_signal := {_s(a['signal'])}; sw_bits := {_s(a['bit_resolution'])}; "
        f"sw_vmin := {_s(a['voltage_min'])}; sw_vmax := {_s(a['voltage_max'])}; sw_dtype := {_dt(a['dtype'])}; "
        f"sw_store_image := true |}}.\n"
        f"Definition src_sar_wiring : sar_wiring := {{| rw_signal := {_s(b['signal_2d'])}; rw_rows := {_s(b['num_rows'])}; "
        f"rw_cols := {_s(b['num_cols'])}; rw_vmin := {_s(b['min_volt'])}; rw_vmax := {_s(b['max_volt'])}; "
        f"rw_bits := {_s(b['adc_bits'])}; rw_store_image := true |}}.\n"
        f"Definition src_sar0_wiring : sar0_wiring := {{| nw_signal := {_s(c['signal_2d'])}; nw_rows := {_s(c['num_rows'])}; "
        f"nw_cols := {_s(c['num_cols'])}; nw_strengths := {_s(c['strengths'])}; nw_noises := {_s(c['noises'])}; "
        f"nw_vmax := {_s(c['max_volt'])}; nw_bits := {_s(c['adc_bits'])}; "
        f"nw_guard_strengths := {_b('strengths' in g)}; nw_guard_noises := {_b('noises' in g)}; nw_store_image := true |}}.\n")


# the last accepted shape; used only to keep a model available for the failing-input search when
# the translation itself fails (the failed translation is already a broken obligation)
FALLBACK = (HEADER +
            "From Coq Require Import ZArith List String.\nFrom PyxelV Require Import Model.Adc Model.AdcHist.\n"
            "Import ListNotations.\nOpen Scope Z_scope.\n"
            "Definition src_dtype_chain : dtype_chain := [(1, 8, 8); (9, 16, 16); (17, 32, 32); (33, 64, 64)].\n"
            "Definition src_simple_wiring : simple_wiring := {| sw_signal := FromSignal; sw_bits := FromBits; "
            "sw_vmin := FromRangeLo; sw_vmax := FromRangeHi; sw_dtype := (DtOverrideElseGetDtypeOf FromBits); "
            "sw_store_image := true |}.\n"
            "Definition src_sar_wiring : sar_wiring := {| rw_signal := FromSignal; rw_rows := FromRows; "
            "rw_cols := FromCols; rw_vmin := FromRangeLo; rw_vmax := FromRangeHi; rw_bits := FromBits; "
            "rw_store_image := true |}.\n"
            "Definition src_sar0_wiring : sar0_wiring := {| nw_signal := FromSignal; nw_rows := FromRows; "
            "nw_cols := FromCols; nw_strengths := FromStrengths; nw_noises := FromNoises; nw_vmax := FromRangeHi; "
            "nw_bits := FromBits; nw_guard_strengths := true; nw_guard_noises := true; nw_store_image := true |}.\n"
            "Definition src_module_state : list string := [].\n"
            "Definition src_simple_touch : touch := {| t_reads := [PCharacteristics; PSignal]; t_writes := [PImage] |}.\n"
            "Definition src_sar_touch : touch := {| t_reads := [PCharacteristics; PSignal; PGeometry]; t_writes := [PImage] |}.\n"
            "Definition src_sar0_touch : touch := {| t_reads := [PCharacteristics; PSignal; PGeometry]; t_writes := [PImage] |}.\n")
