"""C05: the declarative parts of pyxel/observation/misc.py and pyxel/observation/observation.py -> Gen_C05.v.

What is read (fail closed on any other shape):

  misc.py
    short(s)                         must be  s.split(".")[-1]
    _get_short_name_with_model(name) five-component unpacking of name.split("."), result f"{<3rd>}.{<5th>}";
                                     whether a key with another number of components keeps its full key (repaired)
                                     or falls into the unpacking (ValueError)            -> cf_name_fallback_full
    <Mode>.enabled_steps             must be  [step for step in self.parameters if step.enabled]   (3 classes)
    CustomMode.build                 the two sanity guards ('_' missing, column count) must be there; how
                                     `custom_columns is None` is treated                 -> cf_custom_range_optional
    convert_custom_data              which test selects the bare-number branch (`len(params) == 1` or
                                     `params == "_"`, with the matching list handed over by
                                     CustomMode.create_params)              -> cf_dask_custom_scalar_is_placeholder
                                     columns addressed by label (custom_data[idx]) or by position
                                     (custom_data.iloc[:, idx])                         -> cf_dask_custom_positional
    ProductMode.create_params        all_steps = {step.key: list(step) ...} or list(dict.fromkeys(step))
                                                                                        -> cf_dask_product_dedup
    SequentialMode.create_params     rows zipped from the value lists, or built from get_parameters_item(processor)
                                                                                        -> cf_dask_sequential_rows
  observation.py
    _get_short_dimension_names_new   readout-time special case, short(), `freq > 1`, fallback for shared names,
                                     and whether names that are still shared are replaced by the full key
                                                                                        -> cf_name_stage3
    _add_custom_parameters           the DataArray of a vector-valued parameter: anonymous dimension (dim_0 for
                                     all) or its own dim_<n>                             -> cf_custom_dims_distinct

    Observation._get_parameter_types the key -> type dict is rebuilt from the steps enabled NOW on every run, or the dict
                                     kept in Observation.parameter_types is updated (keys of earlier runs of the
                                     same object stay)                                   -> cf_types_fresh

No state on the run path (fail closed; `_no_hidden_state`): the same Observation / parameter-mode object may be run
again after its configuration was edited, and every run must see the configuration at that time.  In misc.py,
observation.py, observation_dask.py, parameter_values.py, evaluator.py (and the key access of pipelines/processor.py)
  * the dataclass fields of ProductMode / SequentialMode are exactly `parameters`, of CustomMode `parameters` and
    `custom_data`; no other class-level assignment; Observation.__init__ and ParameterValues.__init__ set exactly the
    known attributes;
  * no function writes an attribute or an item of `self` / `cls` / one of its arguments (assignment, augmented
    assignment, del, setattr, __dict__, vars(), an in-place method such as .update/.append/.clear/.setdefault) --
    except the constructors, the property setters and the recognised shapes of _get_parameter_types;
  * no memoisation: no lru_cache / cache / cached_property / memoize (decorator, call or import), only the decorators
    property / classmethod / staticmethod / dataclass / <p>.setter / deprecated; no `global` / `nonlocal`; no
    module-level variable other than the known aliases; no mutable default argument.

The loops of the modes (itertools.product, the sequential double loop, the column cursor of custom mode) are not
tables; they are modelled by hand in Model/ParamSpace.v and tied by the correspondence.
"""
from __future__ import annotations

import ast
from pathlib import Path

from harness.core import TranslationError

from .c02_norm import normalise as _normalise
from .common import HEADER, body_no_doc, fail, parse
from .common import find_func as _find_func_raw

MISC = "pyxel/observation/misc.py"
OBS = "pyxel/observation/observation.py"
DASK = "pyxel/observation/observation_dask.py"
PVAL = "pyxel/observation/parameter_values.py"
EVAL = "pyxel/evaluator.py"
PROC = "pyxel/pipelines/processor.py"


def _u(node) -> str:
    return ast.unparse(node)


# ------------------------------------------------------------------------------- raw form first, then normal form
# Every shape recogniser below reads its functions through find_func().  It is run on the functions AS WRITTEN first;
# when that shape is unknown it is run once more on their NORMAL FORM (translator/c02_norm.py, written
# property-independently: calls of private helpers of the same module / class / package inlined, single-assignment local
# aliases substituted, guard clauses == if/else, match == if/elif, module-level literal constants resolved, conditional
# expression == if/else assignment, docstrings / annotations stripped ...).  Each rewrite of the normaliser is a semantic
# identity under its side conditions (differentially self-tested in c02_norm.selftest), so a recogniser that accepts
# either form accepts only code that behaves like a known shape.  Both forms unknown -> the translation fails closed
# (the message names the raw shape).  The state net (_no_hidden_state) always reads the code as written, helpers
# included.

_FORM = ["raw"]
_REPO: list = [None]
_NORMAL: dict = {}
NORMAL_FORM_USED: list = []          # (recogniser, rewrites applied) of the last translate(): evidence


def _class(tree, cls: str):
    cands = [n for n in ast.walk(tree) if isinstance(n, ast.ClassDef) and n.name == cls]
    if len(cands) != 1:
        raise TranslationError(f"class {cls}: found {len(cands)}")
    return cands[0]


def _returns_named(fn: ast.FunctionDef) -> ast.FunctionDef:
    """`return f(..)` -> `ret__c05_<n> = f(..); return ret__c05_<n>` (a copy): the normaliser inlines helper calls that
    are a statement or the value of an assignment; its alias pass folds the name back into the `return`."""
    import copy
    fn = copy.deepcopy(fn)
    k = 0
    for node in ast.walk(fn):
        for field in ("body", "orelse", "finalbody"):
            block = getattr(node, field, None)
            if not isinstance(block, list):
                continue
            i = 0
            while i < len(block):
                st = block[i]
                if isinstance(st, ast.Return) and isinstance(st.value, ast.Call):
                    k += 1
                    nm = f"ret__c05_{k}"
                    block[i:i + 1] = [ast.Assign([ast.Name(nm, ast.Store())], st.value, lineno=st.lineno, col_offset=0),
                                      ast.Return(ast.Name(nm, ast.Load()), lineno=st.lineno, col_offset=0)]
                    i += 1
                i += 1
    return ast.fix_missing_locations(fn)


def find_func(tree, name: str, cls: str | None = None) -> ast.FunctionDef:
    fn = _find_func_raw(tree, name, cls)
    if _FORM[0] == "raw":
        return fn
    key = (id(tree), name, cls)
    if key not in _NORMAL:
        try:
            out, log = _normalise(tree, _returns_named(fn), _class(tree, cls) if cls else None, repo=_REPO[0])
        except TranslationError:
            raise
        except Exception as ex:                                   # the normaliser itself gave up: fail closed
            raise TranslationError(f"{cls + '.' if cls else ''}{name}: no normal form ({type(ex).__name__}: {ex})") from ex
        _NORMAL[key] = (out, log)
    out, log = _NORMAL[key]
    if log:
        NORMAL_FORM_USED.append((f"{cls + '.' if cls else ''}{name}", list(log)))
    return out


def _either(recogniser, *args):
    """recogniser(*args) on the code as written; on an unknown shape, on its normal form."""
    _FORM[0] = "raw"
    try:
        return recogniser(*args)
    except TranslationError as raw_error:
        mark = len(NORMAL_FORM_USED)
        _FORM[0] = "normal"
        try:
            return recogniser(*args)
        except TranslationError as ex:
            del NORMAL_FORM_USED[mark:]
            raise TranslationError(f"{raw_error} [normal form: {ex}]"[:600]) from ex
        finally:
            _FORM[0] = "raw"


def _returned_expr(fn: ast.FunctionDef) -> ast.expr:
    """`return e`  or  `x = e; return x`  (annotations allowed)."""
    b = body_no_doc(fn)
    if len(b) == 1 and isinstance(b[0], ast.Return) and b[0].value is not None:
        return b[0].value
    if len(b) == 2 and isinstance(b[1], ast.Return) and isinstance(b[1].value, ast.Name):
        a = b[0]
        tgt = a.targets[0] if isinstance(a, ast.Assign) and len(a.targets) == 1 else getattr(a, "target", None)
        if isinstance(tgt, ast.Name) and tgt.id == b[1].value.id and getattr(a, "value", None) is not None:
            return a.value
    fail(fn, f"{fn.name}: expected `return <expr>` or `x = <expr>; return x`")


def _short(tree) -> None:
    fn = find_func(tree, "short")
    if [a.arg for a in fn.args.args] != ["s"]:
        fail(fn, "short signature")
    if _u(_returned_expr(fn)) != "s.split('.')[-1]":
        fail(fn, "short must return s.split('.')[-1]")


def _name_with_model(tree) -> bool:
    """-> cf_name_fallback_full"""
    fn = find_func(tree, "_get_short_name_with_model")
    if [a.arg for a in fn.args.args] != ["name"]:
        fail(fn, "_get_short_name_with_model signature")
    b = body_no_doc(fn)

    def unpack(stmt, src_text):
        if not (isinstance(stmt, ast.Assign) and len(stmt.targets) == 1 and isinstance(stmt.targets[0], ast.Tuple)
                and _u(stmt.value) == src_text):
            fail(stmt, f"expected a tuple unpacking of {src_text}")
        names = [e.id if isinstance(e, ast.Name) else None for e in stmt.targets[0].elts]
        if len(names) != 5 or None in names:
            fail(stmt, "expected exactly five names in the unpacking")
        return names

    def result(stmt, names):
        # f"{<third>}.{<fifth>}"
        v = stmt.value if isinstance(stmt, ast.Return) else None
        if not (isinstance(v, ast.JoinedStr) and len(v.values) == 3
                and isinstance(v.values[0], ast.FormattedValue) and isinstance(v.values[0].value, ast.Name)
                and isinstance(v.values[1], ast.Constant) and v.values[1].value == "."
                and isinstance(v.values[2], ast.FormattedValue) and isinstance(v.values[2].value, ast.Name)):
            fail(stmt, "expected return f'{model}.{param}'")
        m, p = v.values[0].value.id, v.values[2].value.id
        if names.index(m) != 2 or names.index(p) != 4 or names.count(m) != 1 or names.count(p) != 1:
            fail(stmt, "the name must be <3rd component>.<5th component>")

    # `if len(parts) == 5: <A> else: return name` + rest  ==  `if len(parts) != 5: return name` + <A> + rest
    if len(b) >= 2 and isinstance(b[1], ast.If) and isinstance(b[1].test, ast.Compare) and len(b[1].test.ops) == 1 \
            and isinstance(b[1].test.ops[0], ast.Eq) and len(b[1].orelse) == 1 and isinstance(b[1].orelse[0], ast.Return):
        t = b[1]
        guard = ast.If(ast.Compare(t.test.left, [ast.NotEq()], t.test.comparators), t.orelse, [])
        b = [b[0], ast.copy_location(guard, t)] + list(t.body) + b[2:]
    if len(b) == 2:
        names = unpack(b[0], "name.split('.')")
        result(b[1], names)
        return False
    if len(b) == 4 and isinstance(b[0], (ast.Assign, ast.AnnAssign)) and isinstance(b[1], ast.If):
        tgt = b[0].targets[0] if isinstance(b[0], ast.Assign) else b[0].target
        if not (isinstance(tgt, ast.Name) and _u(b[0].value) == "name.split('.')"):
            fail(b[0], "expected parts = name.split('.')")
        parts = tgt.id
        t = b[1]
        if not (_u(t.test) == f"len({parts}) != 5" and not t.orelse and len(t.body) == 1
                and isinstance(t.body[0], ast.Return) and _u(t.body[0].value) == "name"):
            fail(t, "expected `if len(parts) != 5: return name`")
        names = unpack(b[2], parts)
        result(b[3], names)
        return True
    fail(fn, "_get_short_name_with_model: unknown shape")


def _enabled_steps(tree) -> None:
    for cls in ("ProductMode", "SequentialMode", "CustomMode"):
        fn = find_func(tree, "enabled_steps", cls)
        e = _returned_expr(fn)
        if not (isinstance(e, ast.ListComp) and len(e.generators) == 1):
            fail(fn, f"{cls}.enabled_steps must be a list comprehension")
        g = e.generators[0]
        if not (isinstance(g.target, ast.Name) and isinstance(e.elt, ast.Name) and e.elt.id == g.target.id
                and _u(g.iter) == "self.parameters" and len(g.ifs) == 1
                and _u(g.ifs[0]) == f"{g.target.id}.enabled"):
            fail(fn, f"{cls}.enabled_steps must be [step for step in self.parameters if step.enabled]")


def _single_stores(fn) -> dict:
    """local name -> its value, for the names stored exactly once in `fn` by a plain (annotated) assignment."""
    seen: dict = {}
    for n in ast.walk(fn):
        for t in _targets(n):
            if isinstance(t, ast.Name):
                plain = isinstance(n, (ast.Assign, ast.AnnAssign)) and \
                    (n.target is t if isinstance(n, ast.AnnAssign) else (len(n.targets) == 1 and n.targets[0] is t))
                seen.setdefault(t.id, []).append(n.value if plain else None)
    return {k: v[0] for k, v in seen.items() if len(v) == 1 and v[0] is not None}


def _custom_build(tree) -> bool:
    """-> cf_custom_range_optional

    Read by role, not by local name: the table handed to the constructor (`custom_data=` of the returned `cls(...)`,
    followed through locals stored once) is `<T>.loc[:, custom_columns]`, or that only when `custom_columns` is given
    and <T> itself otherwise, <T> = load_table(custom_file, ...); two raising guards: `'_' not in <C>` and
    `<C>['_'] != <N>` (either directly or through a local stored once), <N> = len(<..>.columns)."""
    fn = find_func(tree, "build", "CustomMode")
    once = _single_stores(fn)

    def follow(e, cheap_only=False):
        for _ in range(6):
            if isinstance(e, ast.Name) and e.id in once and \
                    not (cheap_only and not isinstance(once[e.id], (ast.Name, ast.Subscript, ast.Attribute))):
                e = once[e.id]
            else:
                break
        return e

    rets = [n for n in ast.walk(fn) if isinstance(n, ast.Return)]
    if len(rets) != 1 or not (isinstance(rets[0].value, ast.Call) and _u(rets[0].value.func) in ("cls", "CustomMode")):
        fail(fn, "CustomMode.build: expected one `return cls(parameters=..., custom_data=...)`")
    kws = {k.arg: k.value for k in rets[0].value.keywords}
    if rets[0].value.args or set(kws) != {"parameters", "custom_data"} or _u(kws["parameters"]) != "parameters":
        fail(rets[0], "CustomMode.build: expected cls(parameters=parameters, custom_data=<table>)")
    sel = follow(kws["custom_data"])

    def is_loc(e):
        """<T>.loc[:, custom_columns] -> T"""
        if isinstance(e, ast.Subscript) and isinstance(e.value, ast.Attribute) and e.value.attr == "loc" \
                and isinstance(e.value.value, ast.Name) and _u(e.slice) == "(:, custom_columns)":
            return e.value.value.id
        return None

    def is_table(name):
        v = once.get(name)
        return isinstance(v, ast.Call) and _u(v.func) == "load_table" and v.args and _u(v.args[0]) == "custom_file"

    guards = []
    for n in ast.walk(fn):
        if isinstance(n, ast.If) and n.body and isinstance(n.body[0], ast.Raise) and isinstance(n.test, ast.Compare) \
                and len(n.test.ops) == 1:
            guards.append((type(n.test.ops[0]).__name__, follow(n.test.left, True), follow(n.test.comparators[0], True)))
    counters = [_u(r) for op, l, r in guards if op == "NotIn" and _u(l) == "'_'" and isinstance(r, ast.Name)]
    if len(counters) != 1:
        fail(fn, "CustomMode.build: guard `if '_' not in <counter>: raise` not found")
    want = f"{counters[0]}['_']"
    ok = False
    for op, l, r in guards:
        if op == "NotEq" and want in (_u(l), _u(r)):
            other = r if _u(l) == want else l
            v = once.get(other.id) if isinstance(other, ast.Name) else None
            if v is not None and _u(v).startswith("len(") and _u(v).endswith(".columns)"):
                ok = True
    if not ok:
        fail(fn, "CustomMode.build: guard `if <number of '_'> != <number of columns>: raise` not found")

    t = is_loc(sel)
    if t is not None and is_table(t):
        return False
    if isinstance(sel, ast.IfExp):
        tst, a, b = _u(sel.test), sel.body, sel.orelse
        if tst == "custom_columns is not None":
            a, b = b, a
        elif tst != "custom_columns is None":
            fail(sel, "CustomMode.build: unknown column selection")
        t = is_loc(b)
        if t is not None and isinstance(a, ast.Name) and a.id == t and is_table(t):
            return True
    fail(sel, "CustomMode.build: unknown column selection")


def _convert_custom_data(tree) -> tuple[bool, bool]:
    """-> (cf_dask_custom_positional, cf_dask_custom_scalar_is_placeholder)"""
    fn = find_func(tree, "convert_custom_data")
    tests = {"len(params) == 1": False, "params == '_'": True}
    ifs = [n for n in ast.walk(fn) if isinstance(n, ast.If) and _u(n.test) in tests]
    if len(ifs) != 1 or not ifs[0].orelse:
        fail(fn, "convert_custom_data: expected one `if len(params) == 1:` / `if params == '_':` with an else branch")
    node = ifs[0]
    by_placeholder = tests[_u(node.test)]
    one = [_u(s.value) for s in node.body if isinstance(s, ast.Assign) and _u(s.targets[0]) == "new_custom_data[name]"]
    many = [_u(s.value) for s in ast.walk(ast.Module(body=node.orelse, type_ignores=[]))
            if isinstance(s, (ast.Assign, ast.AnnAssign)) and ".values.tolist()" in _u(s.value or ast.Constant(0))]
    if len(one) != 1 or len(many) != 1:
        fail(node, "convert_custom_data: expected one column read per branch")
    # what create_params hands over must fit the test: list(step) for the length test, step.values for the placeholder test
    cp = find_func(tree, "create_params", "CustomMode")
    handed = [_u(n.value) for n in ast.walk(cp) if isinstance(n, (ast.Assign, ast.AnnAssign))
              and _u(n.targets[0] if isinstance(n, ast.Assign) else n.target) == "params_custom_list"]
    want = "[step.values for step in self.enabled_steps]" if by_placeholder else "list(all_steps.values())"
    if handed != [want]:
        fail(cp, f"CustomMode.create_params: params_custom_list must be {want}, found {handed}")
    if one[0] == "custom_data[idx]" and many[0] == "custom_data[columns].values.tolist()":
        return False, by_placeholder
    if one[0] == "custom_data.iloc[:, idx]" and many[0] == "custom_data.iloc[:, columns].values.tolist()":
        return True, by_placeholder
    fail(node, f"convert_custom_data: unknown column addressing ({one[0]} / {many[0]})")


def _dimension_names(tree) -> bool:
    """-> cf_name_stage3"""
    fn = find_func(tree, "_get_short_dimension_names_new")
    if [a.arg for a in fn.args.args] != ["types"]:
        fail(fn, "_get_short_dimension_names_new signature")
    nodes = list(ast.walk(fn))
    # readout-time special case: `if key == '<readout key>': n = 'readout_time' else: n = short(key)`, or the same as a
    # conditional expression (the normal form of the former)
    def str_eq(t):
        return (isinstance(t, ast.Compare) and len(t.ops) == 1 and isinstance(t.ops[0], ast.Eq)
                and isinstance(t.comparators[0], ast.Constant) and isinstance(t.comparators[0].value, str))

    sp = [n for n in nodes if isinstance(n, (ast.If, ast.IfExp)) and str_eq(n.test)]
    if len(sp) != 1 or sp[0].test.comparators[0].value != "observation.readout.times":
        fail(fn, "expected exactly one special case, for 'observation.readout.times'")
    if isinstance(sp[0], ast.If):
        consts = [s.value.value for s in sp[0].body if isinstance(s, (ast.Assign, ast.AnnAssign))
                  and isinstance(s.value, ast.Constant)]
        others = [_u(s.value) for s in sp[0].orelse if isinstance(s, (ast.Assign, ast.AnnAssign))]
    else:
        consts = [sp[0].body.value] if isinstance(sp[0].body, ast.Constant) else []
        others = [_u(sp[0].orelse)]
    if consts != ["readout_time"] or len(others) != 1 or not (others[0].startswith("short(") and others[0].endswith(")")):
        fail(sp[0], "special case must give 'readout_time', every other key short(<key>)")
    # shared names: freq > 1
    conds = [_u(c) for n in nodes if isinstance(n, (ast.ListComp, ast.SetComp, ast.GeneratorExp))
             for g in n.generators for c in g.ifs]
    if conds != ["freq > 1"]:
        fail(fn, f"expected one comprehension condition `freq > 1`, found {conds}")
    # fallback for shared names
    fb = [n for n in nodes if isinstance(n, ast.If) and isinstance(n.test, ast.Compare) and len(n.test.ops) == 1
          and isinstance(n.test.ops[0], ast.In)]
    if len(fb) != 1 or "_get_short_name_with_model(" not in _u(ast.Module(body=fb[0].body, type_ignores=[])) \
            or "_get_short_name_with_model(" in _u(ast.Module(body=fb[0].orelse, type_ignores=[])):
        fail(fn, "expected `if <short name> in <shared names>: _get_short_name_with_model(key) else: short name`")
    counters = [n for n in nodes if isinstance(n, ast.Call) and _u(n.func) == "Counter"]
    comps = [n for n in nodes if isinstance(n, ast.DictComp)]
    if len(counters) == 1 and not comps:
        return False
    if len(counters) == 2 and len(comps) == 1:
        c = comps[0]
        g = c.generators[0] if len(c.generators) == 1 else None
        if g is not None and isinstance(g.target, ast.Tuple) and len(g.target.elts) == 2 and not g.ifs \
                and all(isinstance(e, ast.Name) for e in g.target.elts) and _u(g.iter).endswith(".items()"):
            k, v = (e.id for e in g.target.elts)
            val = c.value
            if _u(c.key) == k and isinstance(val, ast.IfExp) and _u(val.body) == k and _u(val.orelse) == v \
                    and isinstance(val.test, ast.Compare) and len(val.test.ops) == 1 \
                    and isinstance(val.test.ops[0], ast.Gt) and _u(val.test.comparators[0]) == "1" \
                    and isinstance(val.test.left, ast.Subscript) and _u(val.test.left.slice) == v:
                return True
    fail(fn, "_get_short_dimension_names_new: unknown treatment of names that are still shared")


def _custom_dims(tree) -> bool:
    """-> cf_custom_dims_distinct"""
    fn = find_func(tree, "_add_custom_parameters")
    calls = [n for n in ast.walk(fn) if isinstance(n, ast.Call) and _u(n.func) == "xr.DataArray"]
    if len(calls) != 1:
        fail(fn, "_add_custom_parameters: expected one xr.DataArray(...)")
    c = calls[0]
    if len(c.args) == 1 and not c.keywords:
        return False
    if len(c.args) == 1 and len(c.keywords) == 1 and c.keywords[0].arg == "dims":
        d = _u(c.keywords[0].value)
        aug = [_u(n) for n in ast.walk(fn) if isinstance(n, ast.AugAssign)]
        if d == "[f'dim_{dim_idx + i}' for i in range(data.ndim)]" and aug == ["dim_idx += data.ndim"]:
            return True
    fail(c, "_add_custom_parameters: unknown dimensions of a vector-valued parameter")


def _product_create_params(tree) -> bool:
    """-> cf_dask_product_dedup"""
    fn = find_func(tree, "create_params", "ProductMode")
    # the dict of value lists, whatever it is called: the one dict comprehension over self.enabled_steps
    vals = [n for n in ast.walk(fn) if isinstance(n, ast.DictComp) and len(n.generators) == 1
            and _u(n.generators[0].iter) == "self.enabled_steps"]
    if len(vals) != 1:
        fail(fn, "ProductMode.create_params: expected one {step.key: <values> for step in self.enabled_steps}")
    c = vals[0]
    g = c.generators[0]
    if not (isinstance(g.target, ast.Name) and _u(g.iter) == "self.enabled_steps" and not g.ifs
            and _u(c.key) == f"{g.target.id}.key"):
        fail(c, "ProductMode.create_params: unknown all_steps")
    v = _u(c.value)
    if v == f"list({g.target.id})":
        return False
    if v == f"list(dict.fromkeys({g.target.id}))":
        return True
    fail(c, "ProductMode.create_params: unknown value list")


def _sequential_create_params(tree) -> bool:
    """-> cf_dask_sequential_rows"""
    fn = find_func(tree, "create_params", "SequentialMode")
    args = [a.arg for a in fn.args.args] + [a.arg for a in fn.args.kwonlyargs]
    calls = [_u(n) for n in ast.walk(fn) if isinstance(n, ast.Call)]
    zipped = [c for c in calls if c.startswith("zip(*all_steps.values()")]
    rows = [c for c in calls if c.startswith("self.get_parameters_item(")]
    if zipped and not rows and args == ["self", "dim_names"]:
        return False
    if rows and not zipped and "processor" in args and all("processor" in c for c in rows):
        return True
    fail(fn, "SequentialMode.create_params: neither zip(*all_steps.values()) nor rows from get_parameters_item(processor)")


def _parameter_types(tree) -> bool:
    """-> cf_types_fresh"""
    fn = find_func(tree, "_get_parameter_types", "Observation")
    if [a.arg for a in fn.args.args] != ["self"]:
        fail(fn, "_get_parameter_types signature")
    b = body_no_doc(fn)
    if not b or not (isinstance(b[-1], ast.Return) and _u(b[-1].value) == "self.parameter_types"):
        fail(fn, "_get_parameter_types must end with `return self.parameter_types`")
    b = b[:-1]

    def is_update_loop(st) -> bool:
        if not (isinstance(st, ast.For) and isinstance(st.target, ast.Name) and not st.orelse
                and _u(st.iter) == "self.parameter_mode.enabled_steps" and len(st.body) == 1):
            return False
        v = st.target.id
        return _u(st.body[0]) in (f"self.parameter_types.update({{{v}.key: {v}.type}})",
                                  f"self.parameter_types[{v}.key] = {v}.type")

    def is_fresh_comp(st) -> bool:
        tgt = st.targets[0] if isinstance(st, ast.Assign) and len(st.targets) == 1 else getattr(st, "target", None)
        val = getattr(st, "value", None)
        if not (isinstance(st, (ast.Assign, ast.AnnAssign)) and tgt is not None and _u(tgt) == "self.parameter_types"
                and isinstance(val, ast.DictComp) and len(val.generators) == 1):
            return False
        g = val.generators[0]
        return (isinstance(g.target, ast.Name) and not g.ifs and _u(g.iter) == "self.parameter_mode.enabled_steps"
                and _u(val.key) == f"{g.target.id}.key" and _u(val.value) == f"{g.target.id}.type")

    def is_reset(st) -> bool:
        return _u(st) in ("self.parameter_types.clear()", "self.parameter_types = {}", "self.parameter_types = dict()")

    if len(b) == 1 and is_update_loop(b[0]):
        return False
    if len(b) == 1 and is_fresh_comp(b[0]):
        return True
    if len(b) == 2 and is_reset(b[0]) and is_update_loop(b[1]):
        return True
    fail(fn, "_get_parameter_types: unknown shape")


# ---------------------------------------------------------------------------------------- no state on the run path

_MEMO_NAMES = {"lru_cache", "cache", "cached_property", "memoize", "memoized", "Memoized", "cachetools", "joblib",
               "functools"}
_OK_DECORATORS = {"property", "classmethod", "staticmethod", "dataclass", "dataclass(frozen=True)",
                  "abstractmethod", "typing.no_type_check"}
_INPLACE = {"update", "append", "extend", "insert", "pop", "popitem", "clear", "setdefault", "remove", "sort",
            "reverse", "add", "discard", "__setitem__", "__delitem__", "__setattr__", "move_to_end"}
_MUTABLE_CALLS = {"dict", "list", "set", "defaultdict", "OrderedDict", "Counter", "deque", "WeakKeyDictionary",
                  "WeakValueDictionary"}

# attributes the constructors may set
_INIT_ATTRS = {
    ("Observation", "__init__"): {"outputs", "readout", "parameter_mode", "working_directory", "with_dask",
                                  "parameter_types", "_result_type", "_pipeline_seed"},
    ("ParameterValues", "__init__"): {"type", "_key", "_values", "_short_name", "_enabled", "_logarithmic",
                                      "_boundaries", "_current"},
}
_MODE_FIELDS = {"ProductMode": ["parameters"], "SequentialMode": ["parameters"],
                "CustomMode": ["parameters", "custom_data"],
                "ParameterEntry": ["index", "parameters", "run_index"],
                "CustomParameterEntry": ["index", "parameters", "run_index"]}
_MODULE_VARS = {MISC: {"ParametersType"}, OBS: set(), DASK: set(), PVAL: set(), EVAL: {"__all__"}}


def _root(node):
    while isinstance(node, (ast.Attribute, ast.Subscript, ast.Starred)):
        node = node.value
    if isinstance(node, ast.Call):
        if isinstance(node.func, ast.Name) and node.func.id == "type" and len(node.args) == 1:
            return _root(node.args[0])          # type(self).<...> is state shared by all objects
        return _root(node.func)
    return node.id if isinstance(node, ast.Name) else None


def _targets(st):
    if isinstance(st, ast.Assign):
        out = list(st.targets)
    elif isinstance(st, ast.AnnAssign):
        out = [st.target] if st.value is not None else []
    elif isinstance(st, ast.AugAssign):
        out = [st.target]
    elif isinstance(st, ast.Delete):
        out = list(st.targets)
    elif isinstance(st, (ast.For, ast.AsyncFor)):
        out = [st.target]
    elif isinstance(st, (ast.With, ast.AsyncWith)):
        out = [i.optional_vars for i in st.items if i.optional_vars is not None]
    elif isinstance(st, ast.NamedExpr):
        out = [st.target]
    else:
        return []
    flat = []
    while out:
        t = out.pop()
        if isinstance(t, (ast.Tuple, ast.List)):
            out += list(t.elts)
        elif isinstance(t, ast.Starred):
            out.append(t.value)
        else:
            flat.append(t)
    return flat


def _check_function(rel: str, cls: str | None, fn: ast.FunctionDef, allowed_self_attrs=None, allow_types=False):
    """No write to an attribute / item of self, cls or an argument of `fn`; no global / nonlocal; no mutable default."""
    where = f"{rel}: {cls + '.' if cls else ''}{fn.name}"
    a = fn.args
    params = {x.arg for x in a.posonlyargs + a.args + a.kwonlyargs}
    if a.vararg:
        params.add(a.vararg.arg)
    if a.kwarg:
        params.add(a.kwarg.arg)
    guarded = params | {"self", "cls"}
    for d in list(a.defaults) + [d for d in a.kw_defaults if d is not None]:
        if isinstance(d, (ast.Dict, ast.List, ast.Set, ast.ListComp, ast.DictComp, ast.SetComp)) or \
                (isinstance(d, ast.Call) and _root(d.func) in _MUTABLE_CALLS):
            fail(d, f"{where}: mutable default argument (state kept between calls)")
    # a name re-bound inside the function is a local from then on: only the parameters that are never re-bound as a
    # plain name count (`data_tree = data_tree.map_over_datasets(...)` makes a new object)
    rebound = set()
    for n in ast.walk(fn):
        for t in _targets(n):
            if isinstance(t, ast.Name):
                rebound.add(t.id)
    guarded -= (rebound - {"self", "cls"})
    local_names = rebound - {"self", "cls"}
    for n in ast.walk(fn):
        if isinstance(n, (ast.Global, ast.Nonlocal)):
            fail(n, f"{where}: global / nonlocal state")
        for t in _targets(n):
            # anything that is not a local of this function: self / cls / an argument / a module-level name (a
            # function attribute or a module-level container used as a memo)
            if isinstance(t, (ast.Attribute, ast.Subscript)) and (_root(t) in guarded or _root(t) not in local_names):
                txt = _u(t)
                if allowed_self_attrs is not None and isinstance(t, ast.Attribute) and _u(t.value) == "self" \
                        and t.attr in allowed_self_attrs:
                    continue
                if allow_types and txt.startswith("self.parameter_types"):
                    continue
                fail(n, f"{where}: writes {txt} (state of the object / of an argument written on the run path)")
        if isinstance(n, ast.Call):
            f = n.func
            if isinstance(f, ast.Name) and f.id in ("setattr", "delattr", "vars", "globals"):
                fail(n, f"{where}: {f.id}() (attributes written by name)")
            if isinstance(f, ast.Attribute) and f.attr == "__setattr__":
                fail(n, f"{where}: __setattr__")
            if isinstance(f, ast.Attribute) and f.attr in _INPLACE and _root(f.value) in guarded \
                    and isinstance(f.value, (ast.Attribute, ast.Subscript, ast.Name)):
                if allow_types and _u(f.value) == "self.parameter_types":
                    continue
                # a method of the same name on a non-container argument cannot be told apart: fail closed
                fail(n, f"{where}: in-place {f.attr}() on {_u(f.value)} (state of the object / of an argument)")
        if isinstance(n, ast.Attribute) and n.attr == "__dict__":
            fail(n, f"{where}: __dict__ (attributes written by name)")


def _check_decorators(rel: str, node):
    for d in node.decorator_list:
        t = _u(d)
        if t in _OK_DECORATORS or t.endswith(".setter") or t.startswith("deprecated(") or t.startswith("dataclass("):
            continue
        fail(d, f"{rel}: {node.name}: decorator @{t} (only property / classmethod / staticmethod / dataclass / "
                "<p>.setter / deprecated are known not to keep state)")


def _immutable_literal(v) -> bool:
    """str / number / bool / None / bytes, a negative number, a tuple of those: cannot be filled by a run."""
    if isinstance(v, ast.Constant):
        return True
    if isinstance(v, ast.UnaryOp) and isinstance(v.op, (ast.USub, ast.UAdd)):
        return isinstance(v.operand, ast.Constant) and isinstance(v.operand.value, (int, float, complex))
    if isinstance(v, ast.Tuple):
        return all(_immutable_literal(e) for e in v.elts)
    return False


def _check_module(rel: str, tree: ast.Module, whole: bool = True, only: tuple = ()):
    """The fail-closed net over one module.  whole=False: only the memoisation names and the functions in `only`."""
    for n in ast.walk(tree):
        if isinstance(n, ast.Name) and n.id in _MEMO_NAMES:
            fail(n, f"{rel}: memoisation ({n.id})")
        if isinstance(n, ast.Attribute) and n.attr in _MEMO_NAMES:
            fail(n, f"{rel}: memoisation ({n.attr})")
        if isinstance(n, (ast.Import, ast.ImportFrom)):
            mod = getattr(n, "module", None) or ""
            for al in n.names:
                if al.name.split(".")[0] in _MEMO_NAMES or al.name in _MEMO_NAMES or mod.split(".")[0] in _MEMO_NAMES:
                    fail(n, f"{rel}: memoisation import")
    if whole:
        stores: dict = {}
        for n in ast.walk(tree):
            for t in _targets(n):
                if isinstance(t, ast.Name):
                    stores[t.id] = stores.get(t.id, 0) + 1
        for st in tree.body:
            if isinstance(st, (ast.Assign, ast.AnnAssign, ast.AugAssign)):
                names = {t.id for t in _targets(st) if isinstance(t, ast.Name)}
                if names and len(names) == len(_targets(st)) and isinstance(st, (ast.Assign, ast.AnnAssign)) \
                        and _immutable_literal(st.value) and all(stores.get(x) == 1 for x in names):
                    continue        # a named immutable constant, bound once in the whole module (`global` fails anyway)
                if not names or not names <= _MODULE_VARS.get(rel, set()):
                    fail(st, f"{rel}: module-level variable (state shared by all runs)")
    for st in tree.body:
        if isinstance(st, ast.FunctionDef) and (whole or st.name in only):
            _check_decorators(rel, st)
            _check_function(rel, None, st)
        elif isinstance(st, ast.ClassDef) and (whole or st.name in only):
            _check_decorators(rel, st)
            if st.name in _MODE_FIELDS:
                fields = [b.target.id for b in st.body if isinstance(b, ast.AnnAssign) and isinstance(b.target, ast.Name)]
                if fields != _MODE_FIELDS[st.name]:
                    fail(st, f"{rel}: the fields of {st.name} must be {_MODE_FIELDS[st.name]}, found {fields} "
                             "(a further field is state that a run could fill and a later run could read)")
            for b in st.body:
                # a field declaration or an immutable constant (enum member) is no state
                if isinstance(b, ast.AugAssign) or (isinstance(b, (ast.Assign, ast.AnnAssign)) and b.value is not None
                                                    and not isinstance(b.value, ast.Constant)):
                    fail(b, f"{rel}: class-level variable in {st.name} (state shared by all runs)")
                if isinstance(b, ast.ClassDef):
                    fail(b, f"{rel}: nested class in {st.name}")
                if isinstance(b, ast.FunctionDef):
                    _check_decorators(rel, b)
                    setter = any(_u(d).endswith(".setter") for d in b.decorator_list)
                    init = _INIT_ATTRS.get((st.name, b.name))
                    if init is not None:
                        got = {t.attr for n in ast.walk(b) for t in _targets(n)
                               if isinstance(t, ast.Attribute) and _u(t.value) == "self"}
                        if got != init:
                            fail(b, f"{rel}: {st.name}.__init__ must set exactly {sorted(init)}, found {sorted(got)}")
                        _check_function(rel, st.name, b, allowed_self_attrs=init)
                    elif setter:
                        _check_function(rel, st.name, b, allowed_self_attrs={"_" + b.name})
                    elif (st.name, b.name) == ("Observation", "_get_parameter_types"):
                        _check_function(rel, st.name, b, allow_types=True)     # its shape is read by _parameter_types
                    else:
                        _check_function(rel, st.name, b)


def _no_hidden_state(repo: Path, trees: dict) -> None:
    for rel in (MISC, OBS, DASK, PVAL, EVAL):
        _check_module(rel, trees.get(rel) or parse(repo, rel))
    # key access of the processor (configured values are read through Processor.get on every run)
    _check_module(PROC, parse(repo, PROC), whole=False, only=("_get_obj_att",))
    proc = parse(repo, PROC)
    for name in ("has", "get", "replace"):
        fn = find_func(proc, name, "Processor")
        _check_decorators(PROC, fn)
        _check_function(PROC, "Processor", fn)


def render(flags) -> str:
    b = " ".join("true" if f else "false" for f in flags)
    return (HEADER +
            "From PyxelV Require Import Model.ParamSpace.\n"
            "(* cf_name_fallback_full cf_name_stage3 cf_custom_dims_distinct cf_custom_range_optional "
            "cf_dask_custom_positional cf_dask_custom_scalar_is_placeholder cf_dask_product_dedup "
            "cf_dask_sequential_rows cf_types_fresh *)\n"
            f"Definition src_cfg : cfg := mkCfg {b}.\n")


def translate(repo: Path) -> str:
    misc = parse(repo, MISC)
    obs = parse(repo, OBS)
    _REPO[0] = repo
    _NORMAL.clear()
    del NORMAL_FORM_USED[:]
    _either(_short, misc)
    _either(_enabled_steps, misc)
    fallback_full = _either(_name_with_model, misc)
    stage3 = _either(_dimension_names, obs)
    dims_distinct = _either(_custom_dims, obs)
    range_optional = _either(_custom_build, misc)
    positional, by_placeholder = _either(_convert_custom_data, misc)
    dedup = _either(_product_create_params, misc)
    seq_rows = _either(_sequential_create_params, misc)
    types_fresh = _either(_parameter_types, obs)
    _no_hidden_state(repo, {MISC: misc, OBS: obs})
    return render((fallback_full, stage3, dims_distinct, range_optional, positional, by_placeholder, dedup, seq_rows,
                   types_fresh))


# the text for the unchanged tree (after the round-2 repairs); only used to keep a model available for the
# failing-input search when the translation itself fails
FALLBACK = render((True, True, True, True, True, True, True, True, True))
