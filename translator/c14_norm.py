"""General, text-independent normalisations used by translator/c14.py before a shape is matched.

Everything here is a *symbolic* reading of straight-line code: the value of a name at a program point is the
expression it was last assigned, with the names inside that expression replaced by THEIR values at the time of
the assignment (so an alias taken before a reassignment keeps the old value, and a reassigned name is fine).

  * local single/multiple assignments, annotated assignments, `x op= e` (read as `x = x op e`), tuple
    unpacking of a tuple literal                                                             -> substituted
  * `alias = self._geo`, `n = geo.row` ...                                                    -> substituted
  * names assigned exactly once at module level to a literal (number, string, tuple of them) -> substituted
  * calls of helpers defined in the same module / the same class (`helper(..)`, `self.helper(..)`,
    `Cls.helper(..)`, `cls.helper(..)`) whose body is itself straight-line code ending in one `return`:
    parameters bound to the (already expanded) arguments, defaults honoured, body executed symbolically,
    the call replaced by the returned expression                                             -> inlined
  * `f(*(a, b))`, `f(**{"k": v})`, `f(**dict(k=v))`, `functools.partial(g, a, k=v)(b, m=w)`   -> plain calls
  * docstrings, comments, `pass`, imports, logging calls, bare annotations                    -> ignored

Fail closed (TranslationError through `fail`) on: in-place update of a local that has an alias, a lambda /
comprehension that rebinds a name of the environment, star arguments, recursion, attribute / subscript
assignment, any other statement.  A helper that is not straight-line is simply NOT inlined: the call stays in
the expression and the matcher that looks at it decides.
"""
from __future__ import annotations

import ast
import copy

from .common import body_no_doc, fail

_LOG_ROOTS = ("logging", "logger", "log", "_logger", "LOGGER", "_log")
_VIEW_METHODS = ("view", "reshape", "ravel", "squeeze", "transpose", "swapaxes")
_MUTATORS = ("update", "pop", "popitem", "clear", "setdefault", "append", "extend", "insert", "remove", "sort", "reverse",
             "add", "discard", "__setitem__", "__delitem__", "__ior__")
_VIEW_ATTRS = ("T", "values", "real", "imag", "flat")


def is_literal(n: ast.AST) -> bool:
    if isinstance(n, ast.Constant) and isinstance(n.value, (int, float, str, bool, type(None))):
        return True
    if isinstance(n, ast.UnaryOp) and isinstance(n.op, (ast.USub, ast.UAdd)):
        return is_literal(n.operand)
    if isinstance(n, ast.Tuple):
        return all(is_literal(e) for e in n.elts)
    return False


def module_constants(tree: ast.Module) -> dict[str, ast.AST]:
    """Names bound exactly once in the whole module (module level only, never `global`, never a def / class / import /
    loop target of the same name) to a literal."""
    count: dict[str, int] = {}
    val: dict[str, ast.AST] = {}

    def bump(name):
        count[name] = count.get(name, 0) + 1

    for st in tree.body:
        if isinstance(st, ast.Assign):
            for t in st.targets:
                for e in ast.walk(t):
                    if isinstance(e, ast.Name):
                        bump(e.id)
            if len(st.targets) == 1 and isinstance(st.targets[0], ast.Name) and is_literal(st.value):
                val[st.targets[0].id] = st.value
        elif isinstance(st, ast.AnnAssign) and isinstance(st.target, ast.Name):
            bump(st.target.id)
            if st.value is not None and is_literal(st.value):
                val[st.target.id] = st.value
        elif isinstance(st, (ast.FunctionDef, ast.AsyncFunctionDef, ast.ClassDef)):
            bump(st.name)
        elif isinstance(st, (ast.Import, ast.ImportFrom)):
            for a in st.names:
                bump((a.asname or a.name).split(".")[0])
        else:
            for e in ast.walk(st):
                if isinstance(e, ast.Name) and isinstance(e.ctx, (ast.Store, ast.Del)):
                    bump(e.id)
                    bump(e.id)
    for n in ast.walk(tree):
        if isinstance(n, (ast.Global, ast.Nonlocal)):
            for name in n.names:
                bump(name)
                bump(name)
    return {k: v for k, v in val.items() if count.get(k) == 1}


def imported_names(tree: ast.Module) -> dict[str, tuple[str, str | None]]:
    """local name -> (module, original name | None for `import module [as x]`), module level and function level."""
    out: dict[str, tuple[str, str | None]] = {}
    for n in ast.walk(tree):
        if isinstance(n, ast.ImportFrom) and n.module:
            for a in n.names:
                out[a.asname or a.name] = (n.module, a.name)
        elif isinstance(n, ast.Import):
            for a in n.names:
                if a.asname:
                    out[a.asname] = (a.name, None)
    return out


def _is_logging(st: ast.stmt) -> bool:
    if not (isinstance(st, ast.Expr) and isinstance(st.value, ast.Call)):
        return False
    f = st.value.func
    while isinstance(f, ast.Attribute):
        f = f.value
    return isinstance(f, ast.Name) and f.id in _LOG_ROOTS


def _bound_inside(n: ast.AST) -> set[str]:
    """Names (re)bound inside an expression: lambda parameters, comprehension targets, walrus targets."""
    out: set[str] = set()
    for e in ast.walk(n):
        if isinstance(e, ast.Lambda):
            a = e.args
            out |= {x.arg for x in a.posonlyargs + a.args + a.kwonlyargs}
            out |= {x.arg for x in (a.vararg, a.kwarg) if x is not None}
        elif isinstance(e, ast.comprehension):
            out |= {x.id for x in ast.walk(e.target) if isinstance(x, ast.Name)}
        elif isinstance(e, ast.NamedExpr):
            out.add(e.target.id)
    return out


class Sym:
    """Symbolic reader of the straight-line functions of one module (optionally: the methods of one class)."""

    def __init__(self, tree: ast.Module, cls: ast.ClassDef | None = None, keep: tuple[str, ...] = (),
                 modname: str | None = None, is_pkg: bool = False, loader=None, _cache=None, _stack=None):
        """modname / loader: `loader("pkg.mod") -> (ast.Module, is_package) | None` lets calls of straight-line functions
        imported from another module of the SAME top-level package be followed (the function is read in its own module)."""
        self.tree = tree
        self.modname, self.is_pkg, self.loader = modname, is_pkg, loader
        self.cache: dict = _cache if _cache is not None else {}
        self.cls = cls
        self.keep = set(keep)              # callee names the matcher recognises itself: never inlined
        self.consts = module_constants(tree)
        self.imports = imported_names(tree)
        self.plain_imports = {a.name for n in ast.walk(tree) if isinstance(n, ast.Import) for a in n.names if not a.asname}
        # names that are ALSO bound otherwise somewhere in the module (def / class / assignment / parameter): an
        # imported name that is shadowed anywhere is not trusted to denote the import
        self.local_defs = {n.name for n in ast.walk(tree) if isinstance(n, (ast.FunctionDef, ast.AsyncFunctionDef, ast.ClassDef))}
        self.local_defs |= {n.id for n in ast.walk(tree) if isinstance(n, ast.Name) and isinstance(n.ctx, (ast.Store, ast.Del))}
        self.local_defs |= {a.arg for n in ast.walk(tree) if isinstance(n, ast.arguments)
                            for a in n.posonlyargs + n.args + n.kwonlyargs + [x for x in (n.vararg, n.kwarg) if x]}
        self.funcs: dict[str, list[ast.FunctionDef]] = {}
        for st in tree.body:
            if isinstance(st, ast.FunctionDef):
                self.funcs.setdefault(st.name, []).append(st)
        self.methods: dict[str, list[ast.FunctionDef]] = {}
        if cls is not None:
            for st in cls.body:
                if isinstance(st, ast.FunctionDef):
                    self.methods.setdefault(st.name, []).append(st)
        self.stack: list[str] = _stack if _stack is not None else []
        self.inlined: list[str] = []       # names of the helpers that were followed (evidence)
        self.stored = {n.id for n in ast.walk(tree) if isinstance(n, ast.Name) and isinstance(n.ctx, (ast.Store, ast.Del))}
        # local name -> (absolute module, original name) for `from m import f [as g]` anywhere in the module; a name
        # imported from two different places is dropped
        self.abs_imports: dict[str, tuple[str, str]] = {}
        clash: set[str] = set()
        for n in ast.walk(tree):
            if isinstance(n, ast.ImportFrom):
                base = n.module or ""
                if n.level:
                    if modname is None:
                        continue
                    parts = modname.split(".")
                    up = n.level - 1 if is_pkg else n.level
                    if up > len(parts):
                        continue
                    parts = parts[:len(parts) - up]
                    base = ".".join(parts + ([n.module] if n.module else []))
                for a in n.names:
                    k = a.asname or a.name
                    if k in self.abs_imports and self.abs_imports[k] != (base, a.name):
                        clash.add(k)
                    self.abs_imports[k] = (base, a.name)
        for k in clash:
            self.abs_imports.pop(k, None)
        # records: module-level `class R(NamedTuple)` whose body is only annotated fields (literal defaults allowed)
        self.records: dict[str, list[tuple[str, ast.AST | None]]] = {}
        ncls: dict[str, int] = {}
        for n in ast.walk(tree):
            if isinstance(n, ast.ClassDef):
                ncls[n.name] = ncls.get(n.name, 0) + 1
        for st in tree.body:
            if not (isinstance(st, ast.ClassDef) and ncls.get(st.name) == 1 and st.name not in self.stored
                    and st.name not in self.funcs and not st.decorator_list and not st.keywords and len(st.bases) == 1):
                continue
            b = st.bases[0]
            is_nt = (isinstance(b, ast.Name) and self.imports.get(b.id) == ("typing", "NamedTuple") and b.id not in self.local_defs) \
                or (isinstance(b, ast.Attribute) and b.attr == "NamedTuple" and isinstance(b.value, ast.Name)
                    and b.value.id == "typing" and "typing" in self.plain_imports and "typing" not in self.local_defs)
            if not is_nt:
                continue
            fields, ok = [], True
            for x in body_no_doc(st):
                if isinstance(x, ast.AnnAssign) and isinstance(x.target, ast.Name) and (x.value is None or is_literal(x.value)):
                    fields.append((x.target.id, x.value))
                elif isinstance(x, ast.Pass):
                    continue
                else:
                    ok = False
            if ok and fields:
                self.records[st.name] = fields

    # ---------------------------------------------------------------------------------------- expressions

    def expand(self, node: ast.AST, env: dict[str, ast.AST], shadow: frozenset = frozenset()) -> ast.AST:
        """A copy of `node` with local names / module constants substituted and straight-line helpers inlined."""
        bound = _bound_inside(node)
        if bound & set(env):
            fail(node, "an expression rebinds a local name (lambda / comprehension / walrus)")
        return self._ex(node, env, shadow | frozenset(bound))

    def _ex(self, n, env, shadow):
        if isinstance(n, ast.Name):
            if isinstance(n.ctx, ast.Load) and n.id not in shadow:
                if n.id in env:
                    return copy.deepcopy(env[n.id])
                if n.id in self.consts and n.id not in self.funcs:
                    return copy.deepcopy(self.consts[n.id])
            return copy.deepcopy(n)
        if isinstance(n, ast.Call):
            f0 = n.func
            if (isinstance(f0, ast.Attribute) and isinstance(f0.value, ast.Name) and f0.value.id not in shadow
                    and isinstance(env.get(f0.value.id), (ast.Dict, ast.List, ast.Set, ast.ListComp, ast.DictComp, ast.SetComp))
                    and f0.attr in _MUTATORS):
                fail(n, f"a local bound to a display is updated in place ({f0.value.id}.{f0.attr})")
            new = ast.Call(func=self._ex(n.func, env, shadow), args=[self._ex(a, env, shadow) for a in n.args],
                           keywords=[ast.keyword(arg=k.arg, value=self._ex(k.value, env, shadow)) for k in n.keywords])
            ast.copy_location(new, n)
            new = self._norm_call(new)
            got = self._inline(new, new)
            return got if got is not None else new
        new = copy.copy(n)
        for field, old in ast.iter_fields(n):
            if isinstance(old, list):
                setattr(new, field, [self._ex(x, env, shadow) if isinstance(x, ast.AST) else x for x in old])
            elif isinstance(old, ast.AST):
                setattr(new, field, self._ex(old, env, shadow))
        if isinstance(new, ast.Attribute) and isinstance(new.ctx, ast.Load):
            rec = self.record_fields(new.value)
            if rec is not None and new.attr in dict(rec):
                return copy.deepcopy(dict(rec)[new.attr])             # `R(a, b).first`  ->  `a`
        if isinstance(new, ast.Subscript) and isinstance(new.ctx, ast.Load) and isinstance(new.slice, ast.Constant) \
                and type(new.slice.value) is int:
            rec = self.record_fields(new.value)
            if rec is not None and -len(rec) <= new.slice.value < len(rec):
                return copy.deepcopy(rec[new.slice.value][1])           # `R(a, b)[0]`  ->  `a`
        return new

    def record_fields(self, v: ast.AST):
        """[(field, expression)] when `v` is the construction `R(..)` of a module-level NamedTuple record, else None."""
        if not (isinstance(v, ast.Call) and isinstance(v.func, ast.Name) and v.func.id in self.records):
            return None
        if any(isinstance(a, ast.Starred) for a in v.args) or any(k.arg is None for k in v.keywords):
            return None
        fields = self.records[v.func.id]
        names = [f for f, _ in fields]
        if len(v.args) > len(names):
            return None
        got: dict[str, ast.AST] = dict(zip(names, v.args))
        for k in v.keywords:
            if k.arg in got or k.arg not in names:
                return None
            got[k.arg] = k.value
        for f, d in fields:
            if f not in got:
                if d is None:
                    return None
                got[f] = d
        return [(f, got[f]) for f in names]

    # ---------------------------------------------------------------------------------------- call shapes

    def _is_partial(self, f: ast.AST) -> bool:
        """`f` denotes functools.partial (whatever it was imported as)"""
        if isinstance(f, ast.Name):
            return self.imports.get(f.id) == ("functools", "partial") and f.id not in self.local_defs
        if isinstance(f, ast.Attribute) and f.attr == "partial" and isinstance(f.value, ast.Name):
            mod, orig = self.imports.get(f.value.id, (None, None))
            return (f.value.id == "functools" and f.value.id in self.plain_imports) or (mod == "functools" and orig is None)
        return False

    def _norm_call(self, call: ast.Call) -> ast.Call:
        """Equivalent call shapes (arguments are already expanded, so a name bound to a display IS the display):
          * `f(*(a, b), c)` / `f(*[a, b], c)`                    ->  `f(a, b, c)`
          * `f(**{"k": v, ..}, m=w)` / `f(**dict(k=v), m=w)`      ->  `f(k=v, .., m=w)`   (string-literal keys, no repeat)
          * `functools.partial(g, a, k=v)(b, m=w)`                ->  `g(a, b, k=v, m=w)` (a keyword of the call wins)
        Anything else about star arguments stays as it is (and the matchers fail closed on it)."""
        args: list[ast.AST] = []
        for a in call.args:
            if isinstance(a, ast.Starred) and isinstance(a.value, (ast.Tuple, ast.List)) and not any(
                    isinstance(e, ast.Starred) for e in a.value.elts):
                args.extend(a.value.elts)
            else:
                args.append(a)
        kws: list[ast.keyword] = []
        for k in call.keywords:
            d = k.value
            if k.arg is None and isinstance(d, ast.Dict) and all(
                    isinstance(x, ast.Constant) and isinstance(x.value, str) and x.value.isidentifier() for x in d.keys):
                kws.extend(ast.keyword(arg=x.value, value=v) for x, v in zip(d.keys, d.values))
            elif (k.arg is None and isinstance(d, ast.Call) and isinstance(d.func, ast.Name) and d.func.id == "dict"
                  and "dict" not in self.local_defs and not d.args and all(x.arg is not None for x in d.keywords)):
                kws.extend(ast.keyword(arg=x.arg, value=x.value) for x in d.keywords)
            else:
                kws.append(k)
        names = [k.arg for k in kws if k.arg is not None]
        if len(names) != len(set(names)):
            fail(call, "a keyword argument is given twice (TypeError at run time)")
        new = ast.copy_location(ast.Call(func=call.func, args=args, keywords=kws), call)
        f = new.func
        if (isinstance(f, ast.Call) and self._is_partial(f.func) and f.args
                and not any(isinstance(a, ast.Starred) for a in f.args + new.args)
                and all(k.arg is not None for k in f.keywords + new.keywords)):
            later = {k.arg for k in new.keywords}
            merged = [k for k in f.keywords if k.arg not in later] + list(new.keywords)
            inner = ast.copy_location(ast.Call(func=f.args[0], args=list(f.args[1:]) + list(new.args), keywords=merged), call)
            return self._norm_call(inner)
        return new

    # ---------------------------------------------------------------------------------------- helper calls

    def _callee(self, call: ast.Call):
        """-> (FunctionDef, skip_first_parameter) for a helper of this module / class, else None."""
        f = call.func
        if isinstance(f, ast.Name):
            if f.id in self.keep or f.id in self.consts:
                return None
            if f.id not in self.funcs:
                if f.id in self.abs_imports and f.id not in self.local_defs:
                    got = self._foreign(*self.abs_imports[f.id])
                    if got is not None and got[1].name not in self.keep:
                        return got[1], False, got[0]
                return None
            cands = self.funcs[f.id]
            return (cands[0], False) if len(cands) == 1 else None
        if (isinstance(f, ast.Attribute) and isinstance(f.value, ast.Name) and self.cls is not None
                and f.value.id in ("self", "cls", self.cls.name) and f.attr in self.methods and f.attr not in self.keep):
            cands = self.methods[f.attr]
            if len(cands) != 1:
                return None
            fn = cands[0]
            decs = [ast.unparse(d) for d in fn.decorator_list]
            if decs == ["staticmethod"]:
                return fn, False
            if decs == ["classmethod"]:
                return fn, True
            if decs == [] and f.value.id == "self" and fn.args.args and fn.args.args[0].arg == "self":
                return fn, True            # the helper's `self` is the caller's `self`
        return None

    def _foreign(self, mod: str, name: str, depth: int = 0):
        """(Sym of the defining module, FunctionDef) of a plain module-level function of another module of the same
        top-level package (re-exports `from .x import f` are followed), else None."""
        if self.loader is None or self.modname is None or depth > 3 or not mod:
            return None
        if mod.split(".")[0] != self.modname.split(".")[0]:
            return None
        if mod not in self.cache:
            got = None
            try:
                got = self.loader(mod)
            except Exception:                                     # unreadable module: the call is simply not followed
                got = None
            self.cache[mod] = None if got is None else Sym(got[0], None, keep=tuple(self.keep), modname=mod, is_pkg=got[1],
                                                           loader=self.loader, _cache=self.cache, _stack=self.stack)
        sub = self.cache[mod]
        if sub is None:
            return None
        if name in sub.funcs:
            fns = sub.funcs[name]
            if len(fns) == 1 and not fns[0].decorator_list and name not in sub.stored and name not in sub.consts:
                return sub, fns[0]
            return None
        if name in sub.abs_imports and name not in sub.local_defs:
            return sub._foreign(*sub.abs_imports[name], depth + 1)
        return None

    def _inline(self, orig: ast.Call, call: ast.Call):
        """`call` has expanded arguments.  The returned expression of the helper, or None (not a straight-line helper)."""
        got = self._callee(orig)
        if got is None:
            return None
        fn, skip = got[0], got[1]
        owner: Sym = got[2] if len(got) > 2 else self
        if not skip and fn.decorator_list and [ast.unparse(d) for d in fn.decorator_list] != ["staticmethod"]:
            return None
        if fn.name in self.stack or len(self.stack) > 6:
            return None
        a = fn.args
        if a.vararg or a.kwarg:
            return None
        if any(isinstance(x, ast.Starred) for x in call.args) or any(k.arg is None for k in call.keywords):
            return None
        pos = [x.arg for x in a.posonlyargs + a.args]
        if skip:
            pos = pos[1:]
        kwonly = [x.arg for x in a.kwonlyargs]
        if len(call.args) > len(pos):
            return None
        env: dict[str, ast.AST] = dict(zip(pos, call.args))
        for k in call.keywords:
            if k.arg in env or k.arg not in pos + kwonly or k.arg in [x.arg for x in a.posonlyargs]:
                return None
            env[k.arg] = k.value
        defaults = dict(zip(pos[len(pos) - len(a.defaults):], a.defaults)) if a.defaults else {}
        for name, d in zip(kwonly, a.kw_defaults):
            if d is not None:
                defaults[name] = d
        for name in pos + kwonly:
            if name not in env:
                if name not in defaults or not is_literal(defaults[name]):
                    return None
                env[name] = copy.deepcopy(defaults[name])
        self.stack.append(fn.name)
        try:
            ret = owner.run(body_no_doc(fn), env, strict=False)
        finally:
            self.stack.pop()
        if ret is None:
            return None
        self.inlined.append(fn.name if owner is self else f"{owner.modname}.{fn.name}")
        if owner is not self:
            self.inlined.extend(x for x in owner.inlined if x not in self.inlined)
        return ret

    # ---------------------------------------------------------------------------------------- statements

    def run(self, stmts, env: dict[str, ast.AST], strict: bool = True, where: str = "", skip=(), stop_at_return=True,
            on_expr=None):
        """Execute straight-line `stmts` symbolically, updating `env`; -> the expanded returned expression.

        strict: an unknown statement is a TranslationError (the function being translated); otherwise None is
        returned (a helper that is not straight-line is not inlined).  `skip`: statement types to step over.
        `on_expr(stmt, env, aliases) -> bool`: lets the matcher read an expression statement (an in-place numpy call)
        as an update of `env`."""
        aliases: dict[str, set[str]] = {}
        ret = None

        def bad(st, msg):
            if strict:
                fail(st, f"{where}: {msg}")
            raise _NotStraight()

        def base_local(v):
            """the local name `v` is (a view of), if it is one"""
            while True:
                if isinstance(v, ast.Name):
                    return v.id
                if isinstance(v, ast.Attribute) and v.attr in _VIEW_ATTRS:
                    v = v.value
                elif (isinstance(v, ast.Call) and isinstance(v.func, ast.Attribute) and v.func.attr in _VIEW_METHODS):
                    v = v.func.value
                elif isinstance(v, ast.Subscript):
                    v = v.value
                else:
                    return None

        def bind(tgt, val_raw, val, st):
            if isinstance(tgt, ast.Name):
                b = base_local(val_raw)
                for s in aliases.values():
                    s.discard(tgt.id)
                aliases.pop(tgt.id, None)
                if b is not None and b != tgt.id:
                    aliases.setdefault(tgt.id, set()).add(b)
                    aliases.setdefault(b, set()).add(tgt.id)
                env[tgt.id] = val
            elif isinstance(tgt, (ast.Tuple, ast.List)) and self.record_fields(val) is not None \
                    and len(tgt.elts) == len(self.record_fields(val)) and all(isinstance(e, ast.Name) for e in tgt.elts):
                for e, (_, v) in zip(tgt.elts, self.record_fields(val)):     # `a, b = R(x, y)`  ==  `a, b = x, y`
                    bind(e, v, copy.deepcopy(v), st)
            elif isinstance(tgt, (ast.Tuple, ast.List)) and isinstance(val_raw, (ast.Tuple, ast.List)) \
                    and len(tgt.elts) == len(val_raw.elts) and all(isinstance(e, ast.Name) for e in tgt.elts):
                vals = list(val.elts)     # every right-hand side was expanded in the OLD environment
                for e, vr, v in zip(tgt.elts, val_raw.elts, vals):
                    bind(e, vr, v, st)
            else:
                bad(st, "assignment target shape not accepted")

        try:
            for i, st in enumerate(stmts):
                if ret is not None:
                    bad(st, "statement after return")
                if isinstance(st, skip):
                    continue
                if isinstance(st, (ast.Import, ast.ImportFrom, ast.Pass)) or _is_logging(st):
                    continue
                if isinstance(st, ast.Expr) and isinstance(st.value, ast.Constant) and isinstance(st.value.value, str):
                    continue
                if isinstance(st, ast.AnnAssign) and st.value is None and isinstance(st.target, ast.Name):
                    continue                                     # bare annotation: not evaluated
                if on_expr is not None and isinstance(st, ast.Expr) and on_expr(st, env, aliases):
                    continue                                     # a call statement the matcher gives a meaning to
                if isinstance(st, ast.Assign):
                    val = self.expand(st.value, env)
                    for tgt in st.targets:
                        bind(tgt, st.value, copy.deepcopy(val), st)
                elif isinstance(st, ast.AnnAssign) and st.value is not None:
                    bind(st.target, st.value, self.expand(st.value, env), st)
                elif isinstance(st, ast.AugAssign) and isinstance(st.target, ast.Name):
                    x = st.target.id
                    if aliases.get(x):
                        bad(st, f"in-place update of {x}, which has an alias")
                    if x not in env:
                        cur = ast.Name(id=x, ctx=ast.Load())
                    else:
                        cur = copy.deepcopy(env[x])
                    env[x] = ast.copy_location(ast.BinOp(left=cur, op=copy.deepcopy(st.op),
                                                         right=self.expand(st.value, env)), st)
                elif isinstance(st, ast.Return) and st.value is not None:
                    ret = self.expand(st.value, env)
                    if not stop_at_return:
                        continue
                else:
                    bad(st, "statement shape not accepted")
        except _NotStraight:
            return None
        if ret is None and not strict:
            return None
        return ret


class _NotStraight(Exception):
    pass


# ------------------------------------------------------------------------------------------ statement-level inlining


def inline_method_calls(cls: ast.ClassDef, fn: ast.FunctionDef, keep: tuple[str, ...] = (), depth: int = 0) -> ast.FunctionDef:
    """A copy of method `fn` in which every statement `self._h(args)` / `x = self._h(args)` calling a PRIVATE helper
    method (leading underscore, no dunder, no decorator, first parameter `self`) of the same class whose body has no
    `return` except possibly one at its very end, no `yield`, no nested def, is replaced by
        <fresh parameter names> = <args>;  <body with every local renamed>;  [x = <returned expression>]
    Used by the flow-insensitive alias analysis, which copes with any control flow inside the body."""
    methods: dict[str, list[ast.FunctionDef]] = {}
    for st in cls.body:
        if isinstance(st, ast.FunctionDef):
            methods.setdefault(st.name, []).append(st)
    counter = [0]
    followed: list[str] = []

    def helper_of(call):
        f = call.func
        if not (isinstance(f, ast.Attribute) and isinstance(f.value, ast.Name) and f.value.id == "self"):
            return None
        name = f.attr
        if not name.startswith("_") or name.startswith("__") or name in keep or name == fn.name:
            return None
        cands = methods.get(name, [])
        if len(cands) != 1:
            return None
        h = cands[0]
        a = h.args
        if h.decorator_list or a.vararg or a.kwarg or a.posonlyargs or not a.args or a.args[0].arg != "self":
            return None
        body = body_no_doc(h)
        for i, s in enumerate(body):
            for e in ast.walk(s):
                if isinstance(e, (ast.Yield, ast.YieldFrom, ast.FunctionDef, ast.Lambda, ast.ClassDef, ast.Global,
                                  ast.Nonlocal, ast.AsyncFunctionDef)):
                    return None
                if isinstance(e, ast.Return) and not (e is s and i == len(body) - 1):
                    return None
        if any(isinstance(x, ast.Starred) for x in call.args) or any(k.arg is None for k in call.keywords):
            return None
        return h

    def expand_call(call, result_target):
        h = helper_of(call)
        if h is None:
            return None
        a = h.args
        pos = [x.arg for x in a.args][1:]
        kwonly = [x.arg for x in a.kwonlyargs]
        if len(call.args) > len(pos):
            return None
        bound = dict(zip(pos, call.args))
        for k in call.keywords:
            if k.arg in bound or k.arg not in pos + kwonly:
                return None
            bound[k.arg] = k.value
        defaults = dict(zip(pos[len(pos) - len(a.defaults):], a.defaults)) if a.defaults else {}
        for name, d in zip(kwonly, a.kw_defaults):
            if d is not None:
                defaults[name] = d
        for name in pos + kwonly:
            if name not in bound:
                if name not in defaults:
                    return None
                bound[name] = defaults[name]
        counter[0] += 1
        followed.append(h.name)
        sfx = f"__{h.name}_{counter[0]}"
        body = copy.deepcopy(body_no_doc(h))
        local = set(pos + kwonly)
        for s in body:
            for e in ast.walk(s):
                if isinstance(e, ast.Name) and isinstance(e.ctx, (ast.Store, ast.Del)):
                    local.add(e.id)
        for s in body:
            for e in ast.walk(s):
                if isinstance(e, ast.Name) and e.id in local:
                    e.id = e.id + sfx
        out = [ast.copy_location(ast.Assign(targets=[ast.Name(id=p + sfx, ctx=ast.Store())],
                                            value=copy.deepcopy(bound[p]), lineno=call.lineno), call)
               for p in pos + kwonly]
        if body and isinstance(body[-1], ast.Return):
            r = body.pop()
            out += body
            if result_target is not None and r.value is not None:
                out.append(ast.copy_location(ast.Assign(targets=[result_target], value=r.value, lineno=call.lineno), call))
            elif result_target is not None:
                out.append(ast.copy_location(ast.Assign(targets=[result_target], value=ast.Constant(None),
                                                        lineno=call.lineno), call))
        else:
            out += body
            if result_target is not None:
                out.append(ast.copy_location(ast.Assign(targets=[result_target], value=ast.Constant(None),
                                                        lineno=call.lineno), call))
        for s in out:
            ast.fix_missing_locations(s)
        return out

    class T(ast.NodeTransformer):
        changed = False

        def visit_Expr(self, st):
            if isinstance(st.value, ast.Call):
                got = expand_call(st.value, None)
                if got is not None:
                    self.changed = True
                    return got or [ast.Pass()]
            return st

        def visit_Assign(self, st):
            if isinstance(st.value, ast.Call) and len(st.targets) == 1 and isinstance(st.targets[0], ast.Name):
                got = expand_call(st.value, st.targets[0])
                if got is not None:
                    self.changed = True
                    return got
            return st

        def visit_FunctionDef(self, st):
            if st is not new:
                return st                    # nested functions are left alone
            self.generic_visit(st)
            return st

    new = copy.deepcopy(fn)
    for _ in range(4):                       # helpers calling helpers
        t = T()
        t.visit(new)
        if not t.changed:
            break
    ast.fix_missing_locations(new)
    new.c14_inlined = followed
    return new
