"""C15: the declarative parts of the charge-handling models -> Gallina (fail closed).

  inter_pixel_capacitance.py  ipc_kernel      -> src_ipc_guard, src_ipc_weights (guards + the 3x3 literal)
  inter_pixel_capacitance.py  compute_ipc_convolution -> src_ipc_conv_whole_frame, src_ipc_conv_mean_fill (one
                                                 convolve_fft of the whole frame with that kernel, boundary fill = mean)
  collection.py               simple_collection -> src_collect (the single statement `pixel op= charge`)
  full_well.py                apply_simple_full_well_capacity -> src_full_well (`array[array > fwc] = fwc`)
  photoelectrons.py           apply_qe        -> src_qe_off (the expression of the non-sampling branch)
  full_well.py                simple_full_well -> src_fw_select (which of argument / characteristics gives the
                                                 capacity), src_fw_raises (the `if capacity < 0: raise` guard)
  photoelectrons.py           simple_conversion -> src_qe_select (argument / characteristics), src_qe_range (the
                                                 `if not 0 <= qe <= 1: raise` guard)
  photoelectrons.py           conversion_with_qe_map -> src_qe_map_range (the per-pixel range check of the map)
  cdm.py                      cdm             -> src_cdm_fwc_select (argument / characteristics), src_cdm_guard (the
                                                 range checks on volume, beta, capacity, period, as one bool)
"""
from __future__ import annotations

import ast
from fractions import Fraction
from pathlib import Path

from .common import HEADER, body_no_doc, fail, find_func, parse
from .c15_norm import normalised

# functions the extraction reads by name or whose calls it looks for: never inlined into their callers
ANCHORS = {"ipc_kernel", "compute_ipc_convolution", "simple_ipc", "simple_collection", "apply_simple_full_well_capacity",
           "simple_full_well", "apply_qe", "simple_conversion", "conversion_with_qe_map", "integrate_photon",
           "set_random_seed", "load_cropped_and_aligned_image", "cdm", "run_cdm_parallel", "run_cdm_serial"}


def nfunc(repo: Path, rel: str, name: str) -> ast.FunctionDef:
    """the function in canonical shape (translator/c15_norm.py: helpers inlined, aliases substituted, match -> if,
    conditional expressions -> if/else, guard-clause form, module constants resolved, logging / annotations dropped)"""
    return normalised(repo, rel, name, ANCHORS)

PRE = ("From Coq Require Import QArith List Bool.\nFrom PyxelV Require Import Model.Conservation.\n"
       "Import ListNotations.\nOpen Scope Q_scope.\n")


def qlit(v) -> str:
    if isinstance(v, bool) or not isinstance(v, (int, float)):
        raise ValueError
    fr = Fraction(v)  # exact value of the float literal
    if fr.denominator == 1:
        return f"({fr.numerator})" if fr.numerator < 0 else f"{fr.numerator}"
    return f"({fr.numerator} # {fr.denominator})"


def expr(node: ast.AST, names: dict) -> str:
    """Polynomial expression over the given names: + - * unary-, numeric literals."""
    if isinstance(node, ast.Name):
        if node.id not in names:
            fail(node, "unknown name in expression")
        return names[node.id]
    if isinstance(node, ast.Constant):
        try:
            return qlit(node.value)
        except ValueError:
            fail(node, "expected a numeric literal")
    if isinstance(node, ast.UnaryOp) and isinstance(node.op, ast.USub):
        return f"(- {expr(node.operand, names)})"
    if isinstance(node, ast.BinOp) and isinstance(node.op, (ast.Add, ast.Sub, ast.Mult)):
        op = {ast.Add: "+", ast.Sub: "-", ast.Mult: "*"}[type(node.op)]
        return f"({expr(node.left, names)} {op} {expr(node.right, names)})"
    fail(node, "expression shape not accepted (only + - * of names and numbers)")


def cmp_atoms(cmp_: ast.Compare, names: dict) -> list:
    """comparison chain over < <= > >= -> atoms (Qltb / Qle_bool, `a > b` written as `b < a`: the same for NaN too)"""
    atoms, left = [], cmp_.left
    for op, right in zip(cmp_.ops, cmp_.comparators):
        l, r = expr(left, names), expr(right, names)
        if isinstance(op, ast.Lt):
            atoms.append(f"Qltb {l} {r}")
        elif isinstance(op, ast.LtE):
            atoms.append(f"Qle_bool {l} {r}")
        elif isinstance(op, ast.Gt):
            atoms.append(f"Qltb {r} {l}")
        elif isinstance(op, ast.GtE):
            atoms.append(f"Qle_bool {r} {l}")
        else:
            fail(cmp_, "only < <= > >= accepted in a guard")
        left = right
    return atoms


def conj_atoms(node: ast.AST, names: dict) -> list:
    """`a < x <= b`, `a < x and x <= b`, nested `and`: the atoms whose conjunction is the value of the expression"""
    if isinstance(node, ast.Compare):
        return cmp_atoms(node, names)
    if isinstance(node, ast.BoolOp) and isinstance(node.op, ast.And):
        return [a for v in node.values for a in conj_atoms(v, names)]
    fail(node, "guard operand must be a comparison chain or an `and` of comparison chains")


def guard_atoms(test: ast.AST, names: dict) -> list:
    """raise-test `not E` or `not E1 or not E2 ...` (exactly `not (E1 and E2)`, NaN and evaluation order included) ->
    atoms whose conjunction is true when the code does NOT raise.  A De-Morgan'ed test over the negated comparisons
    (`x <= a or x > b`) is NOT accepted: it differs for NaN."""
    if isinstance(test, ast.UnaryOp) and isinstance(test.op, ast.Not):
        return conj_atoms(test.operand, names)
    if isinstance(test, ast.BoolOp) and isinstance(test.op, ast.Or):
        return [a for v in test.values for a in guard_atoms(v, names)]
    fail(test, "guard must be `if not <comparison chain / and of chains>: raise`")


def guard(test: ast.AST, names: dict) -> str:
    """bool term that is true when the code does NOT raise"""
    return " && ".join(guard_atoms(test, names))


def _kernel_literal(v: ast.AST, names: dict):
    if not (isinstance(v, ast.Call) and ast.unparse(v.func) in ("np.array", "np.asarray", "numpy.array") and len(v.args) == 1
            and [k.arg for k in v.keywords] == ["dtype"]
            and ast.unparse(v.keywords[0].value) in ("float", "np.float64", "'float'", "'float64'")):
        fail(v, "kernel must be np.array(<3x3 literal>, dtype=float)")
    lit = v.args[0]
    if not (isinstance(lit, (ast.List, ast.Tuple)) and len(lit.elts) == 3
            and all(isinstance(r, (ast.List, ast.Tuple)) and len(r.elts) == 3 for r in lit.elts)):
        fail(lit, "kernel literal must be 3x3")
    return [[expr(e, names) for e in r.elts] for r in lit.elts]


def tr_ipc(repo: Path) -> str:
    fn = nfunc(repo, "pyxel/models/charge_collection/inter_pixel_capacitance.py", "ipc_kernel")
    args = [a.arg for a in fn.args.args]
    if args != ["coupling", "diagonal_coupling", "anisotropic_coupling"]:
        fail(fn, "ipc_kernel signature")
    names = {"coupling": "c", "diagonal_coupling": "d", "anisotropic_coupling": "a"}
    guards, kernel_rows, kvar, ret = [], None, None, False
    for st in fn.body:
        if ret:
            fail(st, "statement after the return of ipc_kernel")
        if isinstance(st, ast.If):
            if kernel_rows is not None:
                fail(st, "the guards of ipc_kernel must precede the kernel")
            guards.append(guard(_raise_guard(st), names))
        elif isinstance(st, ast.Assign):
            if kernel_rows is not None or len(st.targets) != 1 or not isinstance(st.targets[0], ast.Name):
                fail(st, "expected the single assignment `<name> = np.array([...], dtype=float)`")
            kvar = st.targets[0].id
            kernel_rows = _kernel_literal(st.value, names)
        elif isinstance(st, ast.Return):
            if kernel_rows is None:
                kernel_rows = _kernel_literal(st.value, names)          # `return np.array([...], dtype=float)`
            elif not (isinstance(st.value, ast.Name) and st.value.id == kvar):
                fail(st, "ipc_kernel must return the literal kernel")
            ret = True
        else:
            fail(st, "statement shape not accepted in ipc_kernel")
    if kernel_rows is None or not ret:
        fail(fn, "ipc_kernel: kernel literal / return not found")
    g = " && ".join(f"({x})" for x in guards) if guards else "true"
    fields = "; ".join(f"k{i}{j} := {kernel_rows[i][j]}" for i in range(3) for j in range(3))
    return (f"Definition src_ipc_guard (c d a : Q) : bool := {g}.\n"
            f"Definition src_ipc_weights (c d a : Q) : kernel := {{| {fields} |}}.\n")


def tr_ipc_conv(repo: Path) -> str:
    """compute_ipc_convolution: ONE convolve_fft call over the WHOLE input frame (not in a loop / branch, not on a slice)
    with the kernel of ipc_kernel(<the three couplings>), boundary='fill', fill_value = np.mean(<input>), whose result is
    what the function returns."""
    fn = nfunc(repo, "pyxel/models/charge_collection/inter_pixel_capacitance.py", "compute_ipc_convolution")
    params = [a.arg for a in fn.args.args]
    if params[1:] != ["coupling", "diagonal_coupling", "anisotropic_coupling"] or len(params) != 4:
        fail(fn, "compute_ipc_convolution signature")
    frame = params[0]
    body = fn.body
    bound = {}                                            # local -> expression (single top-level assignments)
    for st in body:
        for n in ast.walk(st):
            if isinstance(n, (ast.For, ast.While, ast.AsyncFor, ast.ListComp, ast.GeneratorExp, ast.SetComp, ast.DictComp)):
                fail(n, "compute_ipc_convolution: loop / comprehension (the frame must be convolved in one piece)")
            if isinstance(n, ast.Name) and not isinstance(n.ctx, ast.Load) and n.id == frame:
                fail(n, "compute_ipc_convolution rebinds its input")
            if isinstance(n, (ast.Subscript, ast.Attribute)) and not isinstance(n.ctx, ast.Load):
                fail(n, "compute_ipc_convolution stores into an object")
            if isinstance(n, ast.AugAssign):
                fail(n, "compute_ipc_convolution: augmented assignment")
        if isinstance(st, ast.Assign) and len(st.targets) == 1 and isinstance(st.targets[0], ast.Name):
            if st.targets[0].id in bound:
                fail(st, "compute_ipc_convolution: a local is bound twice")
            bound[st.targets[0].id] = st.value
        elif not isinstance(st, ast.Return):
            fail(st, "statement shape not accepted in compute_ipc_convolution (assignments and the return only)")

    def val(node):
        seen = set()
        while True:
            if isinstance(node, ast.Name) and node.id in bound and node.id not in seen:
                seen.add(node.id)
                node = bound[node.id]
            elif (isinstance(node, ast.Call) and ast.unparse(node.func) in ("float", "np.float64") and len(node.args) == 1
                  and not node.keywords):
                node = node.args[0]                      # float(np.mean(...)): the same number
            else:
                return node

    if not body or not isinstance(body[-1], ast.Return) or body[-1].value is None:
        fail(fn, "compute_ipc_convolution must end in `return <convolved frame>`")
    call = val(body[-1].value)
    if not (isinstance(call, ast.Call) and ast.unparse(call.func) in ("convolve_fft", "convolve")):
        fail(body[-1], "compute_ipc_convolution must return the result of convolve_fft")
    ncalls = sum(1 for st in body for n in ast.walk(st)
                 if isinstance(n, ast.Call) and ast.unparse(n.func) in ("convolve_fft", "convolve"))
    if ncalls != 1:
        fail(fn, "compute_ipc_convolution must convolve once")
    if any(isinstance(a, ast.Starred) for a in call.args) or any(k.arg is None for k in call.keywords) or len(call.args) > 2:
        fail(call, "convolve_fft arguments")
    kw = {**dict(zip(("array", "kernel"), call.args)), **{k.arg: k.value for k in call.keywords}}
    if set(kw) != {"array", "kernel", "boundary", "fill_value"}:
        fail(call, "convolve_fft must receive exactly array, kernel, boundary, fill_value")
    arr = val(kw["array"])
    if not (isinstance(arr, ast.Name) and arr.id == frame):
        fail(call, "convolve_fft must receive the whole input frame")
    kern = val(kw["kernel"])
    want = {"coupling": "coupling", "diagonal_coupling": "diagonal_coupling", "anisotropic_coupling": "anisotropic_coupling"}
    if not (isinstance(kern, ast.Call) and ast.unparse(kern.func) == "ipc_kernel" and not kern.args
            and {k.arg: ast.unparse(k.value) for k in kern.keywords} == want):
        fail(call, "the kernel must be ipc_kernel(coupling, diagonal_coupling, anisotropic_coupling)")
    bnd = val(kw["boundary"])
    fill = val(kw["fill_value"])
    fill_ok = (isinstance(bnd, ast.Constant) and bnd.value == "fill" and isinstance(fill, ast.Call)
               and ((ast.unparse(fill.func) in ("np.mean", "numpy.mean") and len(fill.args) == 1 and not fill.keywords
                     and isinstance(val(fill.args[0]), ast.Name) and val(fill.args[0]).id == frame)
                    or (isinstance(fill.func, ast.Attribute) and fill.func.attr == "mean" and not fill.args
                        and not fill.keywords and isinstance(val(fill.func.value), ast.Name)
                        and val(fill.func.value).id == frame)))
    return ("Definition src_ipc_conv_whole_frame : bool := true.\n"
            f"Definition src_ipc_conv_mean_fill : bool := {'true' if fill_ok else 'false'}.\n")


def tr_collect(repo: Path) -> str:
    fn = nfunc(repo, "pyxel/models/charge_collection/collection.py", "simple_collection")
    body = fn.body
    if len(body) != 1:
        fail(fn, "simple_collection must be a single statement")
    st = body[0]
    tgt, src = "detector.pixel.array", "detector.charge.array"
    names = {"__pixel__": "pixel", "__charge__": "charge"}

    def sub(node):
        s = ast.unparse(node)
        return s.replace(tgt, "__pixel__").replace(src, "__charge__")

    if isinstance(st, ast.AugAssign) and ast.unparse(st.target) == tgt:
        if not isinstance(st.op, (ast.Add, ast.Sub, ast.Mult)):
            fail(st, "operator not accepted")
        op = {ast.Add: "+", ast.Sub: "-", ast.Mult: "*"}[type(st.op)]
        rhs = expr(ast.parse(sub(st.value), mode="eval").body, names)
        e = f"(pixel {op} {rhs})"
    elif isinstance(st, ast.Assign) and len(st.targets) == 1 and ast.unparse(st.targets[0]) == tgt:
        e = expr(ast.parse(sub(st.value), mode="eval").body, names)
    else:
        fail(st, "simple_collection must assign detector.pixel.array")
    return f"Definition src_collect (pixel charge : Q) : Q := {e}.\n"


def tr_full_well(repo: Path) -> str:
    fn = nfunc(repo, "pyxel/models/charge_collection/full_well.py", "apply_simple_full_well_capacity")
    if [a.arg for a in fn.args.args] != ["array", "fwc"]:
        fail(fn, "apply_simple_full_well_capacity signature")
    body = fn.body
    if len(body) != 2 or not isinstance(body[1], ast.Return) or ast.unparse(body[1].value) != "array":
        fail(fn, "body must be `array[<mask>] = <value>; return array`")
    st = body[0]
    names = {"array": "x", "fwc": "c"}
    if not (isinstance(st, ast.Assign) and len(st.targets) == 1 and isinstance(st.targets[0], ast.Subscript)
            and ast.unparse(st.targets[0].value) == "array" and isinstance(st.targets[0].slice, ast.Compare)
            and len(st.targets[0].slice.ops) == 1):
        fail(st, "expected `array[array <cmp> fwc] = fwc`")
    cmp_ = st.targets[0].slice
    l, r = expr(cmp_.left, names), expr(cmp_.comparators[0], names)
    v = expr(st.value, names)
    op = cmp_.ops[0]
    if isinstance(op, ast.Gt):      # l > r
        cond, flip = f"Qlt_le_dec {r} {l}", False
    elif isinstance(op, ast.Lt):    # l < r
        cond, flip = f"Qlt_le_dec {l} {r}", False
    elif isinstance(op, ast.GtE):   # l >= r  = not (l < r)
        cond, flip = f"Qlt_le_dec {l} {r}", True
    elif isinstance(op, ast.LtE):   # l <= r  = not (r < l)
        cond, flip = f"Qlt_le_dec {r} {l}", True
    else:
        fail(cmp_, "comparison not accepted")
    t, e = (v, "x") if not flip else ("x", v)
    return f"Definition src_full_well (c x : Q) : Q := if {cond} then {t} else {e}.\n"


def tr_qe(repo: Path) -> str:
    fn = nfunc(repo, "pyxel/models/charge_generation/photoelectrons.py", "apply_qe")
    if [a.arg for a in fn.args.args] != ["array", "qe", "binomial_sampling"]:
        fail(fn, "apply_qe signature")
    body = fn.body
    # canonical shape: `if [not] binomial_sampling: return <one branch>` followed by `return <the other branch>`
    if not (len(body) == 2 and isinstance(body[0], ast.If) and not body[0].orelse and len(body[0].body) == 1
            and isinstance(body[0].body[0], ast.Return) and isinstance(body[1], ast.Return)
            and body[0].body[0].value is not None and body[1].value is not None):
        fail(fn, "apply_qe must return the sampled value if binomial_sampling and the product otherwise")
    test = body[0].test
    if isinstance(test, ast.Name) and test.id == "binomial_sampling":
        s, off = body[0].body[0].value, body[1].value
    elif (isinstance(test, ast.UnaryOp) and isinstance(test.op, ast.Not) and isinstance(test.operand, ast.Name)
          and test.operand.id == "binomial_sampling"):
        off, s = body[0].body[0].value, body[1].value
    else:
        fail(test, "apply_qe must branch on `binomial_sampling`")
    e = expr(off, {"array": "p", "qe": "q"})
    # the sampling branch: np.random.binomial(n=array.astype(int), p=qe).astype(float)
    ok = (isinstance(s, ast.Call) and isinstance(s.func, ast.Attribute) and s.func.attr == "astype"
          and [ast.unparse(a) for a in s.args] == ["float"] and isinstance(s.func.value, ast.Call)
          and ast.unparse(s.func.value.func) == "np.random.binomial" and len(s.func.value.args) <= 2
          and {**dict(zip(("n", "p"), (ast.unparse(a) for a in s.func.value.args))),
               **{k.arg: ast.unparse(k.value) for k in s.func.value.keywords}} == {"n": "array.astype(int)", "p": "qe"})
    if not ok:
        fail(s, "sampling branch must be np.random.binomial(n=array.astype(int), p=qe).astype(float)")
    return f"Definition src_qe_off (q p : Q) : Q := {e}.\n"


# ---------------------------------------------------------------------------------------------- value sources
# `param` (a model argument, None when absent) against `detector.characteristics.<attr>` (raises when absent).
# Accepted statement shapes for the selection of the value bound to a local name:
#     if param is None: v = <src> else: v = <src>          (either polarity, `is not None` too)
#     v = <src> if param is [not] None else <src>
#     v = param or <src>                                   (truthiness: 0.0 counts as absent - translated as such)
#  each assignment, or the whole statement, may sit in `try: ... except ...: raise ...` (handlers only re-raise).
# The result is a Gallina term of type option Q over `arg char : option Q` (None = raises / unusable).


def _src_term(node: ast.AST, param: str, char_attr: str, bound_some: bool) -> str:
    """value of a source expression where `param` is known to be Some a (bound_some) or None"""
    s = ast.unparse(node)
    if s == param:
        return "Some a" if bound_some else "None"
    if s == f"detector.characteristics.{char_attr}":
        return "char"
    fail(node, f"value source not accepted (only `{param}` or detector.characteristics.{char_attr})")


def _only_reraise(tr: ast.Try) -> bool:
    return (not tr.orelse and not tr.finalbody and tr.handlers
            and all(h.body and isinstance(h.body[-1], ast.Raise) and len(h.body) == 1 for h in tr.handlers))


def _unwrap_try(st: ast.stmt) -> ast.stmt:
    if isinstance(st, ast.Try):
        if not (_only_reraise(st) and len(st.body) == 1):
            fail(st, "try block around a value selection must hold one statement and only re-raise")
        return _unwrap_try(st.body[0])
    return st


def _is_none_test(test: ast.AST, param: str):
    """-> True if the test is `param is None`, False if `param is not None`, else fail"""
    if (isinstance(test, ast.Compare) and len(test.ops) == 1 and ast.unparse(test.left) == param
            and isinstance(test.comparators[0], ast.Constant) and test.comparators[0].value is None):
        if isinstance(test.ops[0], ast.Is):
            return True
        if isinstance(test.ops[0], ast.IsNot):
            return False
    fail(test, f"selection test must be `{param} is None` or `{param} is not None`")


def select_stmt(st: ast.stmt, param: str, char_attr: str):
    """-> (local variable name, Gallina term over arg/char)"""
    st = _unwrap_try(st)
    if isinstance(st, ast.If):
        none_first = _is_none_test(st.test, param)
        if len(st.body) != 1 or len(st.orelse) != 1:
            fail(st, "each branch of the selection must be one assignment")
        b1, b2 = _unwrap_try(st.body[0]), _unwrap_try(st.orelse[0])
        for b in (b1, b2):
            if not (isinstance(b, (ast.Assign, ast.AnnAssign))):
                fail(b, "branch of the selection must be an assignment")
        names = set()
        vals = []
        for b in (b1, b2):
            tgt = b.targets[0] if isinstance(b, ast.Assign) else b.target
            if isinstance(b, ast.Assign) and len(b.targets) != 1 or not isinstance(tgt, ast.Name) or b.value is None:
                fail(b, "branch must assign one local name")
            names.add(tgt.id)
            vals.append(b.value)
        if len(names) != 1:
            fail(st, "both branches must assign the same name")
        v_none, v_some = (vals[0], vals[1]) if none_first else (vals[1], vals[0])
        t_none = _src_term(v_none, param, char_attr, False)
        t_some = _src_term(v_some, param, char_attr, True)
        return names.pop(), f"match arg with None => {t_none} | Some a => {t_some} end"
    if isinstance(st, (ast.Assign, ast.AnnAssign)):
        tgt = st.targets[0] if isinstance(st, ast.Assign) else st.target
        if isinstance(st, ast.Assign) and len(st.targets) != 1 or not isinstance(tgt, ast.Name) or st.value is None:
            fail(st, "selection must assign one local name")
        v = st.value
        if isinstance(v, ast.IfExp):
            none_first = _is_none_test(v.test, param)
            v_none, v_some = (v.body, v.orelse) if none_first else (v.orelse, v.body)
            return tgt.id, (f"match arg with None => {_src_term(v_none, param, char_attr, False)} "
                            f"| Some a => {_src_term(v_some, param, char_attr, True)} end")
        if isinstance(v, ast.BoolOp) and isinstance(v.op, ast.Or) and len(v.values) == 2 \
                and ast.unparse(v.values[0]) == param:
            other = _src_term(v.values[1], param, char_attr, False)
            return tgt.id, f"match arg with None => {other} | Some a => if Qeq_bool a 0 then {other} else Some a end"
        fail(v, "selection expression not accepted")
    fail(st, "statement is not a value selection")


def _raise_guard(st: ast.stmt) -> ast.AST:
    if not (isinstance(st, ast.If) and not st.orelse and len(st.body) == 1 and isinstance(st.body[0], ast.Raise)):
        fail(st, "expected `if <test>: raise ...`")
    return st.test


def _pos_guard(test: ast.AST, names: dict) -> str:
    """`a < b` / `a <= b` chain (no `not`): bool term that is true when the code RAISES"""
    if not isinstance(test, ast.Compare):
        fail(test, "guard must be a comparison")
    terms, left = [], test.left
    for op, right in zip(test.ops, test.comparators):
        l, r = expr(left, names), expr(right, names)
        if isinstance(op, ast.Lt):
            terms.append(f"Qltb {l} {r}")
        elif isinstance(op, ast.LtE):
            terms.append(f"Qle_bool {l} {r}")
        elif isinstance(op, ast.Gt):
            terms.append(f"Qltb {r} {l}")
        elif isinstance(op, ast.GtE):
            terms.append(f"Qle_bool {r} {l}")
        else:
            fail(test, "only < <= > >= accepted in a guard")
        left = right
    return " && ".join(terms)


def tr_fw_sources(repo: Path) -> str:
    fn = nfunc(repo, "pyxel/models/charge_collection/full_well.py", "simple_full_well")
    if [a.arg for a in fn.args.args] != ["detector", "fwc"]:
        fail(fn, "simple_full_well signature")
    body = fn.body
    if len(body) < 3:
        fail(fn, "simple_full_well: expected selection, guard, application")
    var, sel = select_stmt(body[0], "fwc", "full_well_capacity")
    guards = []
    k = 1
    while k < len(body) and isinstance(body[k], ast.If):
        guards.append(_pos_guard(_raise_guard(body[k]), {var: "c"}))
        k += 1
    rest = body[k:]
    want = {"array": "detector.pixel.array", "fwc": var}

    def is_apply(v):
        return (isinstance(v, ast.Call) and ast.unparse(v.func) == "apply_simple_full_well_capacity" and not v.args
                and {kw.arg: ast.unparse(kw.value) for kw in v.keywords} == want)

    ok = False
    if len(rest) == 1 and isinstance(rest[0], ast.Assign) and len(rest[0].targets) == 1:
        ok = ast.unparse(rest[0].targets[0]) == "detector.pixel.array" and is_apply(rest[0].value)
    elif len(rest) == 2 and all(isinstance(r, ast.Assign) and len(r.targets) == 1 for r in rest):
        tmp = ast.unparse(rest[0].targets[0])
        ok = (isinstance(rest[0].targets[0], ast.Name) and is_apply(rest[0].value) and tmp != var
              and ast.unparse(rest[1].targets[0]) == "detector.pixel.array" and ast.unparse(rest[1].value) == tmp)
    if not ok:
        fail(rest[0] if rest else fn, "after the guards expected detector.pixel.array = "
             f"apply_simple_full_well_capacity(array=detector.pixel.array, fwc={var})")
    g = " || ".join(f"({x})" for x in guards) if guards else "false"
    return (f"Definition src_fw_select (arg char : option Q) : option Q := {sel}.\n"
            f"Definition src_fw_raises (c : Q) : bool := {g}.\n")


def tr_qe_sources(repo: Path) -> str:
    fn = nfunc(repo, "pyxel/models/charge_generation/photoelectrons.py", "simple_conversion")
    if [a.arg for a in fn.args.args] != ["detector", "quantum_efficiency", "seed", "binomial_sampling"]:
        fail(fn, "simple_conversion signature")
    body = fn.body
    if len(body) < 3:
        fail(fn, "simple_conversion: expected selection, range guard, conversion")
    var, sel = select_stmt(body[0], "quantum_efficiency", "quantum_efficiency")
    rng = guard(_raise_guard(body[1]), {var: "q"})          # `if not 0 <= q <= 1: raise`
    # the selected value is what apply_qe receives, with the caller's sampling flag, inside the seed bracket
    calls = [n for st in body[2:] for n in ast.walk(st)
             if isinstance(n, ast.Call) and ast.unparse(n.func) == "apply_qe"]
    if len(calls) != 1 or calls[0].args:
        fail(fn, "simple_conversion must call apply_qe once, with keywords")
    kw = {k.arg: ast.unparse(k.value) for k in calls[0].keywords}
    if kw.get("qe") != var or kw.get("binomial_sampling") != "binomial_sampling" or set(kw) != {"array", "qe", "binomial_sampling"}:
        fail(calls[0], f"apply_qe must receive qe={var} and binomial_sampling=binomial_sampling")
    for st in body[2:]:
        for n in ast.walk(st):
            if isinstance(n, (ast.Assign, ast.AugAssign, ast.AnnAssign)):
                tg = n.targets if isinstance(n, ast.Assign) else [n.target]
                if any(isinstance(t, ast.Name) and t.id == var for t in tg):
                    fail(n, "the selected efficiency is rebound after the range check")
    return (f"Definition src_qe_select (arg char : option Q) : option Q := {sel}.\n"
            f"Definition src_qe_range (q : Q) : bool := {rng}.\n")


def tr_qe_map(repo: Path) -> str:
    fn = nfunc(repo, "pyxel/models/charge_generation/photoelectrons.py", "conversion_with_qe_map")
    body = fn.body
    # `if not np.all(<elementwise test on qe>): raise`, elementwise test = conjunction (&) of comparisons of qe with numbers;
    # also `not (np.all(t1) and np.all(t2))`, `not np.all(t1) or not np.all(t2)`, `<test>.all()`
    gs = [st for st in body if isinstance(st, ast.If) and "qe" in {n.id for n in ast.walk(st.test) if isinstance(n, ast.Name)}]
    if len(gs) != 1:
        fail(fn, "conversion_with_qe_map: expected one range check of the map")
    test = _raise_guard(gs[0])

    def elem(node):
        if isinstance(node, ast.BinOp) and isinstance(node.op, ast.BitAnd):
            return elem(node.left) + elem(node.right)
        if isinstance(node, ast.Compare):
            return [f"({_pos_guard(node, {'qe': 'q'})})"]
        fail(node, "elementwise range test shape not accepted")

    def all_of(node):
        """expression that is true when every pixel passes -> atoms"""
        if isinstance(node, ast.Call) and not node.keywords:
            if ast.unparse(node.func) in ("np.all", "numpy.all") and len(node.args) == 1:
                return elem(node.args[0])
            if isinstance(node.func, ast.Attribute) and node.func.attr == "all" and not node.args:
                return elem(node.func.value)
        if isinstance(node, ast.BoolOp) and isinstance(node.op, ast.And):
            return [a for v in node.values for a in all_of(v)]
        fail(node, "range check must be `if not np.all(<test>): raise`")

    def refused(node):
        if isinstance(node, ast.UnaryOp) and isinstance(node.op, ast.Not):
            return all_of(node.operand)
        if isinstance(node, ast.BoolOp) and isinstance(node.op, ast.Or):
            return [a for v in node.values for a in refused(v)]
        fail(node, "range check must be `if not np.all(<test>): raise`")

    rng = " && ".join(refused(test))
    calls = [n for st in body for n in ast.walk(st) if isinstance(n, ast.Call) and ast.unparse(n.func) == "apply_qe"]
    if len(calls) != 1 or calls[0].args:
        fail(fn, "conversion_with_qe_map must call apply_qe once, with keywords")
    kw = {k.arg: ast.unparse(k.value) for k in calls[0].keywords}
    if kw != {"array": "detector.photon.array", "qe": "qe", "binomial_sampling": "binomial_sampling"}:
        fail(calls[0], "apply_qe must receive the photon array, the checked map and the sampling flag")
    if body.index(gs[0]) > min(i for i, st in enumerate(body) if calls[0] in list(ast.walk(st))):
        fail(gs[0], "the range check must precede the conversion")
    for st in body[body.index(gs[0]):]:
        for n in ast.walk(st):
            if isinstance(n, (ast.Assign, ast.AugAssign, ast.AnnAssign)):
                tg = n.targets if isinstance(n, ast.Assign) else [n.target]
                if any(isinstance(t, ast.Name) and t.id == "qe" for t in tg):
                    fail(n, "the efficiency map is rebound after the range check")
    return f"Definition src_qe_map_range (q : Q) : bool := {rng}.\n"


def tr_cdm_guard(repo: Path) -> str:
    fn = nfunc(repo, "pyxel/models/charge_transfer/cdm.py", "cdm")
    body = fn.body
    sel = [st for st in body if isinstance(st, (ast.If, ast.Assign, ast.AnnAssign, ast.Try))
           and any(isinstance(n, ast.Name) and n.id == "full_well_capacity" for n in ast.walk(st))
           and not any(isinstance(n, ast.Call) and ast.unparse(n.func).startswith("run_cdm") for n in ast.walk(st))]
    if len(sel) != 1:
        fail(fn, "cdm: expected one statement selecting the capacity from `full_well_capacity` / the characteristics")
    var, sel_t = select_stmt(sel[0], "full_well_capacity", "full_well_capacity")
    names = {"max_electron_volume": "vg", "beta": "beta", var: "fwc", "transfer_period": "t"}
    guards, seen = [], set()
    for st in body:
        if not isinstance(st, ast.If) or st in sel:
            continue
        used = {n.id for n in ast.walk(st.test) if isinstance(n, ast.Name)}
        if not used & set(names):
            continue                                  # isinstance / len / direction checks: not range checks
        if not used <= set(names):
            fail(st, "a test of cdm mixes a range-checked parameter with something else")
        guards.append(guard(_raise_guard(st), names))
        seen |= used
    for st in body:                                   # the checked values are the ones handed to the numba functions
        for n in ast.walk(st):
            if isinstance(n, (ast.Assign, ast.AugAssign, ast.AnnAssign)) and st is not sel[0]:
                tg = n.targets if isinstance(n, ast.Assign) else [n.target]
                if any(isinstance(t, ast.Name) and t.id in names for t in tg):
                    fail(n, "a range-checked parameter of cdm is rebound")
    calls = [n for st in body for n in ast.walk(st) if isinstance(n, ast.Call)
             and ast.unparse(n.func) in ("run_cdm_parallel", "run_cdm_serial")]
    if sorted(ast.unparse(c.func) for c in calls) != ["run_cdm_parallel", "run_cdm_serial"]:
        fail(fn, "cdm must call run_cdm_parallel and run_cdm_serial once each")
    for c in calls:
        kw = {k.arg: ast.unparse(k.value) for k in c.keywords}
        want = dict(vg="max_electron_volume", t="transfer_period", fwc=var, beta="beta")
        if c.args or any(kw.get(k) != v for k, v in want.items()):
            fail(c, "run_cdm_* must receive vg, t, fwc, beta as checked")
    g = " && ".join(f"({x})" for x in guards) if guards else "true"
    return (f"Definition src_cdm_fwc_select (arg char : option Q) : option Q := {sel_t}.\n"
            f"Definition src_cdm_guard (vg beta fwc t : Q) : bool := {g}.\n")


def translate(repo: Path) -> str:
    return (HEADER + PRE + tr_ipc(repo) + tr_ipc_conv(repo) + tr_collect(repo) + tr_full_well(repo) + tr_qe(repo) + tr_fw_sources(repo)
            + tr_qe_sources(repo) + tr_qe_map(repo) + tr_cdm_guard(repo))


FALLBACK = (HEADER + PRE +
            "Definition src_ipc_guard (c d a : Q) : bool := (Qltb d c) && (Qltb a c) && (Qle_bool 0 (c + d) && Qle_bool (c + d) (1 # 4)).\n"
            "Definition src_ipc_weights (c d a : Q) : kernel := {| k00 := d; k01 := (c - a); k02 := d; k10 := (c + a); "
            "k11 := (1 - (4 * (c + d))); k12 := (c + a); k20 := d; k21 := (c - a); k22 := d |}.\n"
            "Definition src_ipc_conv_whole_frame : bool := true.\n"
            "Definition src_ipc_conv_mean_fill : bool := true.\n"
            "Definition src_collect (pixel charge : Q) : Q := (pixel + charge).\n"
            "Definition src_full_well (c x : Q) : Q := if Qlt_le_dec c x then c else x.\n"
            "Definition src_qe_off (q p : Q) : Q := (p * q).\n"
            "Definition src_fw_select (arg char : option Q) : option Q := match arg with None => char | Some a => Some a end.\n"
            "Definition src_fw_raises (c : Q) : bool := (Qltb c 0).\n"
            "Definition src_qe_select (arg char : option Q) : option Q := match arg with None => char | Some a => Some a end.\n"
            "Definition src_qe_range (q : Q) : bool := Qle_bool 0 q && Qle_bool q 1.\n"
            "Definition src_qe_map_range (q : Q) : bool := (Qle_bool 0 q) && (Qle_bool q 1).\n"
            "Definition src_cdm_fwc_select (arg char : option Q) : option Q := match arg with None => char | Some a => Some a end.\n"
            "Definition src_cdm_guard (vg beta fwc t : Q) : bool := (Qltb 0 vg && Qle_bool vg 1) && (Qle_bool 0 beta && Qle_bool beta 1) "
            "&& (Qltb 0 fwc && Qle_bool fwc 10000000) && (Qle_bool 0 t && Qle_bool t 10).\n")
