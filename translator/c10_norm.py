"""C10: behaviour-preserving NORMALISATIONS of python source, applied to a module before translator/c10.py reads it.

Every rule rewrites a statement shape into an equivalent canonical one; none of them looks at what the code is
about.  The translator then reads one shape where the source may be written in many:

  match       `match <pure subject>: case <literal> | <a.b> | None | x | y | _:`  ->  if / elif on `==` / `is`
  loops       `n = [e for t in it (if c)]` -> `n = []; for t in it: (if c:) n.append(e)`;
              `n = sum(e for t in it)` -> `n = 0; for t in it: n += e`
  ifexp       `n = a if c else b` (also `n += ...`, `return ...`)  ->  if c: n = a  else: n = b
  inline      a call of a function defined at top level of the same module (or imported from a module of the same
              package by `from pyxel... import f`) or of a method of the same class through `self.`, whose `return`s
              are all in tail position: the call is hoisted out of its statement (only when nothing but loads of
              names / attributes / constants is evaluated before it) and replaced by the helper's statements, its
              locals renamed apart, pure arguments substituted for the parameters, other arguments bound to fresh
              names in call order; a dropped / swapped argument is therefore SEEN, not assumed away
  guards      `if c: ...; continue|return|raise|break` followed by REST  ->  `if c: ... else: REST`; a `continue`
              that ends a loop body is dropped; `if not c: A else: B` -> `if c: B else: A`
  aliases     `n = <pure expression>` (name / attribute chain / len() / slice() / arithmetic / tuple of these /
              constant) bound exactly once, every use after it in the same block, nothing it mentions rebound,
              no attribute of its chain assigned and no mutating method called on its chain in between
              -> the expression is substituted for the name (an alias taken BEFORE a reassignment is not touched)
  slices      `x[slice(a, b)]`, `x[..., slice(a, b)]`  ->  `x[a:b]`, `x[..., a:b]`
  constants   a name that is not bound in the function and has exactly one top-level assignment of a literal
              (number / string / tuple of literals) in the module  ->  the literal

Assumed (and stated in the trusted base): properties / attribute loads are side-effect free, so an attribute chain
may be read once or several times; `len`, `slice`, `sum`, `isinstance` are the builtins.
Anything the rules do not cover is left exactly as written (the translator then fails closed on it).
"""
from __future__ import annotations

import ast
import copy
from pathlib import Path

MUTATORS = {"pop", "append", "extend", "insert", "remove", "clear", "sort", "reverse", "update", "add", "discard",
            "popitem", "setdefault", "fill", "resize", "itemset", "put", "__setitem__", "__delitem__", "__iadd__"}
MAX_DEPTH = 4


# ------------------------------------------------------------------------------------------------ small helpers


def is_pure(e) -> bool:
    """an expression without effects whose value depends only on the names / attributes it mentions"""
    if isinstance(e, (ast.Name, ast.Constant)):
        return True
    if isinstance(e, ast.Attribute):
        return is_pure(e.value)
    if isinstance(e, ast.Tuple):
        return all(is_pure(x) for x in e.elts)
    if isinstance(e, ast.BinOp) and isinstance(e.op, (ast.Add, ast.Sub, ast.Mult)):
        return is_pure(e.left) and is_pure(e.right)
    if isinstance(e, ast.UnaryOp) and isinstance(e.op, (ast.USub, ast.Not)):
        return is_pure(e.operand)
    if isinstance(e, ast.Call) and isinstance(e.func, ast.Name) and not e.keywords:
        if e.func.id == "len" and len(e.args) == 1:
            return is_pure(e.args[0])
        if e.func.id == "slice" and 1 <= len(e.args) <= 2:
            return all(is_pure(a) for a in e.args)
    return False


def is_trivial(e) -> bool:
    """a load of a name / attribute chain / constant (may be moved across other such loads)"""
    return isinstance(e, (ast.Name, ast.Constant)) or isinstance(e, ast.Attribute) and is_trivial(e.value)


def eval_order(node):
    """sub-expressions of a simple statement / expression in the order their evaluation COMPLETES"""
    if isinstance(node, (ast.Assign,)):
        yield from eval_order(node.value)
        for t in node.targets:
            yield from eval_order(t)
        return
    if isinstance(node, ast.AnnAssign):
        if node.value is not None:
            yield from eval_order(node.value)
        yield from eval_order(node.target)
        return
    if isinstance(node, ast.AugAssign):
        yield from eval_order(node.target)
        yield from eval_order(node.value)
        return
    if isinstance(node, (ast.Lambda, ast.ListComp, ast.SetComp, ast.DictComp, ast.GeneratorExp)):
        yield node                                       # opaque
        return
    for c in ast.iter_child_nodes(node):
        if isinstance(c, (ast.expr_context, ast.operator, ast.unaryop, ast.cmpop, ast.boolop)):
            continue
        yield from eval_order(c)
    if isinstance(node, ast.expr):
        yield node


def inside_opaque(root, target) -> bool:
    """is `target` below a lambda / comprehension / conditional part of `root` (not evaluated exactly once, now)?"""
    def rec(n, opaque):
        if n is target:
            return opaque
        for f, v in ast.iter_fields(n):
            kids = v if isinstance(v, list) else [v]
            for k in kids:
                if not isinstance(k, ast.AST):
                    continue
                o = opaque or isinstance(n, (ast.Lambda, ast.ListComp, ast.SetComp, ast.DictComp, ast.GeneratorExp))
                if isinstance(n, ast.IfExp) and f in ("body", "orelse"):
                    o = True
                if isinstance(n, ast.BoolOp) and k is not n.values[0]:
                    o = True
                r = rec(k, o)
                if r is not None:
                    return r
        return None
    return bool(rec(root, False))


def stores_in(nodes):
    """names bound anywhere in the statements (assignment, for, with, except, import, walrus, del, def)"""
    out = []
    for s in nodes:
        for n in ast.walk(s):
            if isinstance(n, ast.Name) and isinstance(n.ctx, (ast.Store, ast.Del)):
                out.append(n.id)
            elif isinstance(n, ast.ExceptHandler) and n.name:
                out.append(n.name)
            elif isinstance(n, (ast.FunctionDef, ast.AsyncFunctionDef, ast.ClassDef)):
                out.append(n.name)
            elif isinstance(n, ast.alias):
                out.append((n.asname or n.name).split(".")[0])
            elif isinstance(n, (ast.Global, ast.Nonlocal)):
                out += n.names
            elif isinstance(n, ast.MatchAs) and n.name:
                out.append(n.name)
            elif isinstance(n, ast.MatchStar) and n.name:
                out.append(n.name)
            elif isinstance(n, ast.MatchMapping) and n.rest:
                out.append(n.rest)
    return out


def names_in(node):
    return {n.id for n in ast.walk(node) if isinstance(n, ast.Name)}


def attrs_in(node):
    return {n.attr for n in ast.walk(node) if isinstance(n, ast.Attribute)}


class Subst(ast.NodeTransformer):
    """replace loads of names by expressions (deep copies)"""

    def __init__(self, mapping):
        self.mapping = mapping

    def visit_Name(self, n):
        if isinstance(n.ctx, ast.Load) and n.id in self.mapping:
            return ast.copy_location(copy.deepcopy(self.mapping[n.id]), n)
        return n


class Rename(ast.NodeTransformer):
    def __init__(self, mapping):
        self.mapping = mapping

    def visit_Name(self, n):
        if n.id in self.mapping:
            return ast.copy_location(ast.Name(id=self.mapping[n.id], ctx=n.ctx), n)
        return n

    def visit_ExceptHandler(self, n):
        self.generic_visit(n)
        if n.name in self.mapping:
            n.name = self.mapping[n.name]
        return n


def always_exits(block) -> bool:
    if not block:
        return False
    s = block[-1]
    if isinstance(s, (ast.Return, ast.Raise, ast.Continue, ast.Break)):
        return True
    if isinstance(s, ast.If):
        return always_exits(s.body) and always_exits(s.orelse)
    return False


def sub_blocks(s):
    """the statement lists of a compound statement (field name, list)"""
    for f in ("body", "orelse", "finalbody"):
        b = getattr(s, f, None)
        if isinstance(b, list) and (not b or isinstance(b[0], ast.stmt)):
            yield f, b
    for h in getattr(s, "handlers", []) or []:
        yield "handler", h.body
    for c in getattr(s, "cases", []) or []:
        yield "case", c.body


# ------------------------------------------------------------------------------------------------ the normaliser


class Normaliser:
    def __init__(self, module: ast.Module, repo: Path | None, keep=()):
        self.module = module
        self.repo = repo
        self.keep = set(keep)
        self.fresh = 0
        self.funcs = {s.name: s for s in module.body if isinstance(s, ast.FunctionDef)}
        self.imports = {}                # local name -> (module path, original name)
        for s in module.body:
            if isinstance(s, ast.ImportFrom) and s.module and s.level == 0 and s.module.startswith("pyxel"):
                for a in s.names:
                    self.imports[a.asname or a.name] = (s.module, a.name)
        self.consts = {}
        counts = {}
        for s in module.body:
            for n in stores_in([s]):
                counts[n] = counts.get(n, 0) + 1
        for s in module.body:
            tv = None
            if isinstance(s, ast.Assign) and len(s.targets) == 1 and isinstance(s.targets[0], ast.Name):
                tv = (s.targets[0].id, s.value)
            elif isinstance(s, ast.AnnAssign) and isinstance(s.target, ast.Name) and s.value is not None:
                tv = (s.target.id, s.value)
            if tv and counts.get(tv[0]) == 1 and self.literal(tv[1]):
                self.consts[tv[0]] = tv[1]
        for n in ast.walk(module):       # a module-level name some function rebinds is not a constant
            if isinstance(n, ast.Global):
                for g in n.names:
                    self.consts.pop(g, None)
        self.done = {}                   # id(function node) -> normalised
        self.stack = []
        self.foreign = {}                # module path -> Normaliser

    @staticmethod
    def literal(e):
        if isinstance(e, ast.Constant):
            return not isinstance(e.value, (bytes,))
        if isinstance(e, ast.UnaryOp) and isinstance(e.op, ast.USub):
            return isinstance(e.operand, ast.Constant) and isinstance(e.operand.value, (int, float))
        if isinstance(e, ast.Tuple):
            return all(Normaliser.literal(x) for x in e.elts)
        return False

    def new(self, stem):
        self.fresh += 1
        return f"{stem}__n{self.fresh}"

    # ---- entry points

    def run(self):
        for s in self.module.body:
            if isinstance(s, ast.FunctionDef):
                self.function(s, None)
            elif isinstance(s, ast.ClassDef):
                for m in s.body:
                    if isinstance(m, ast.FunctionDef):
                        self.function(m, s)
        return self.module

    def function(self, fn, cls):
        """normalise a function in place (once)"""
        if id(fn) in self.done:
            return fn
        if fn in [f for f, _ in self.stack] or len(self.stack) >= MAX_DEPTH:
            return fn
        self.stack.append((fn, cls))
        try:
            for _ in range(8):
                before = ast.dump(fn)
                fn.body = self.block(fn.body, fn, cls, tail="func")
                self.aliases(fn)
                self.constants(fn)
                SliceCalls().visit(fn)
                if ast.dump(fn) == before:
                    break
            self.done[id(fn)] = True
        finally:
            self.stack.pop()
        return fn

    # ---- statements

    def block(self, stmts, fn, cls, tail=None, in_loop=False):
        """Guard clauses: inside a loop body the canonical form is the NESTED one (if c: ... else: REST), at the
        level of the function it is the FLAT one (if c: ...exit; REST)."""
        out = []
        for s in stmts:
            out += self.statement(s, fn, cls)
        out = self.tuples(out, fn)
        out = self.guards(out) if in_loop else self.unnest(out)
        # recurse into compound statements
        for i, s in enumerate(out):
            last = i == len(out) - 1
            if isinstance(s, (ast.For, ast.While)):
                s.body = self.strip_continue(self.block(s.body, fn, cls, tail="loop", in_loop=True))
                s.orelse = self.block(s.orelse, fn, cls, in_loop=in_loop)
            elif isinstance(s, ast.If):
                s.body = self.block(s.body, fn, cls, tail=tail if last else None, in_loop=in_loop)
                s.orelse = self.block(s.orelse, fn, cls, tail=tail if last else None, in_loop=in_loop)
                if s.orelse and s.body and isinstance(s.test, ast.UnaryOp) and isinstance(s.test.op, ast.Not):
                    s.test, s.body, s.orelse = s.test.operand, s.orelse, s.body
                if not s.body:
                    s.body = [ast.copy_location(ast.Pass(), s)]
            elif isinstance(s, (ast.With, ast.Try)):
                for f, b in sub_blocks(s):
                    if f == "handler":
                        continue
                    setattr(s, f, self.block(b, fn, cls, in_loop=in_loop))
                for h in getattr(s, "handlers", []) or []:
                    h.body = self.block(h.body, fn, cls, in_loop=in_loop)
        return out

    @staticmethod
    def unnest(stmts):
        """`if c: ...exit else: REST` -> `if c: ...exit` REST"""
        out = []
        for s in stmts:
            out.append(s)
            if isinstance(s, ast.If) and s.orelse and always_exits(s.body) and not always_exits(s.orelse) \
                    and not (len(s.orelse) == 1 and isinstance(s.orelse[0], ast.If)):
                out += s.orelse
                s.orelse = []
        return out

    @classmethod
    def nest_all(cls, stmts):
        out = cls.guards(stmts)
        for s in out:
            if isinstance(s, ast.If):
                s.body, s.orelse = cls.nest_all(s.body), cls.nest_all(s.orelse)
        return out

    def tuples(self, stmts, fn):
        """`t = (e1, e2)` directly followed by `x, y = t` (the only use of t) -> `x, y = e1, e2`;
        `x, y = e1, e2` -> `x = e1; y = e2` when no later expression reads an earlier target"""
        out = list(stmts)
        i = 0
        while i + 1 < len(out):
            t, v = self.simple_assign(out[i])
            t2, v2 = self.simple_assign(out[i + 1])
            if isinstance(t, ast.Name) and isinstance(v, ast.Tuple) and isinstance(t2, ast.Tuple) \
                    and isinstance(v2, ast.Name) and v2.id == t.id and len(t2.elts) == len(v.elts) \
                    and not any(isinstance(e, ast.Starred) for e in list(t2.elts) + list(v.elts)) \
                    and sum(1 for n in ast.walk(fn) if isinstance(n, ast.Name) and n.id == t.id) == 2:
                out[i:i + 2] = [ast.copy_location(ast.Assign(targets=[t2], value=v), out[i + 1])]
                continue
            i += 1
        res = []
        for s in out:
            t, v = self.simple_assign(s)
            if isinstance(s, ast.Assign) and isinstance(t, ast.Tuple) and isinstance(v, ast.Tuple) \
                    and len(t.elts) == len(v.elts) and all(isinstance(e, ast.Name) for e in t.elts) \
                    and len({e.id for e in t.elts}) == len(t.elts) \
                    and not any(isinstance(e, ast.Starred) for e in v.elts) \
                    and not any(t.elts[a].id in names_in(v.elts[b]) for a in range(len(t.elts)) for b in range(a + 1, len(v.elts))):
                for a, b in zip(t.elts, v.elts):
                    res.append(ast.copy_location(ast.Assign(targets=[a], value=b), s))
                continue
            res.append(s)
        return res

    @staticmethod
    def guards(stmts):
        """`if c: ...exit` REST -> if c: ...exit else: REST   (and the mirrored form)"""
        out = list(stmts)
        i = 0
        while i < len(out):
            s = out[i]
            rest = out[i + 1:]
            if isinstance(s, ast.If) and rest:
                if always_exits(s.body) and not always_exits(s.orelse):
                    s.orelse = list(s.orelse) + rest
                    out = out[:i + 1]
                    break
                if s.orelse and always_exits(s.orelse) and not always_exits(s.body):
                    s.body = list(s.body) + rest
                    out = out[:i + 1]
                    break
            i += 1
        return out

    def strip_continue(self, body):
        """a `continue` that is the last thing a loop body does is a no-op"""
        if not body:
            return body
        s = body[-1]
        if isinstance(s, ast.Continue):
            body = body[:-1] or [ast.copy_location(ast.Pass(), s)]
            return body
        if isinstance(s, ast.If):
            s.body = self.strip_continue(s.body)
            if s.orelse:
                s.orelse = self.strip_continue(s.orelse)
        return body

    def statement(self, s, fn, cls):
        """one statement -> list of statements (match, comprehension, conditional expression, inlining)"""
        if isinstance(s, ast.Match):
            r = self.match(s)
            if r is not None:
                return [r]
            return [s]
        tgt, val = self.simple_assign(s)
        # n = [e for t in it] / n = sum(e for t in it)
        if tgt is not None and isinstance(tgt, ast.Name):
            r = self.comprehension(s, tgt, val, fn)
            if r is not None:
                return r
        # n = a if c else b ; n += a if c else b ; return a if c else b
        v = getattr(s, "value", None)
        if isinstance(s, (ast.Assign, ast.AnnAssign, ast.AugAssign, ast.Return)) and isinstance(v, ast.IfExp) \
                and (not isinstance(s, ast.Assign) or len(s.targets) == 1):
            def arm(e):
                t = copy.deepcopy(s)
                if isinstance(t, ast.AnnAssign):
                    t = ast.copy_location(ast.Assign(targets=[t.target], value=e), s)
                    if not isinstance(t.targets[0], ast.Name):
                        return None
                else:
                    t.value = e
                return t
            a, b = arm(v.body), arm(v.orelse)
            if a is not None and b is not None and (isinstance(s, ast.Return) or is_trivial_target(s)):
                return [ast.copy_location(ast.If(test=v.test, body=[a], orelse=[b]), s)]
        # helper calls
        if isinstance(s, (ast.Assign, ast.AnnAssign, ast.AugAssign, ast.Expr, ast.Return)):
            r = self.inline_in(s, fn, cls)
            if r is not None:
                return r
        return [s]

    @staticmethod
    def simple_assign(s):
        if isinstance(s, ast.Assign) and len(s.targets) == 1:
            return s.targets[0], s.value
        if isinstance(s, ast.AnnAssign) and s.value is not None:
            return s.target, s.value
        return None, None

    # ---- match

    def match(self, s):
        if not is_pure(s.subject):
            return None
        arms, default = [], None
        for k, c in enumerate(s.cases):
            if c.guard is not None:
                return None
            t = self.pattern(s.subject, c.pattern)
            if t is None:
                return None
            if t is True:
                if k != len(s.cases) - 1:
                    return None
                default = c.body
            else:
                arms.append((t, c.body))
        if not arms:
            return None
        node = None
        for t, body in reversed(arms):
            orelse = [node] if node is not None else (default or [])
            node = ast.copy_location(ast.If(test=t, body=body, orelse=orelse), s)
        return node

    def pattern(self, subject, p):
        sub = lambda: copy.deepcopy(subject)  # noqa: E731
        if isinstance(p, ast.MatchAs) and p.pattern is None and p.name is None:
            return True
        if isinstance(p, ast.MatchValue) and (isinstance(p.value, ast.Constant) or is_trivial(p.value)
                                              or Normaliser.literal(p.value)):
            return ast.Compare(left=sub(), ops=[ast.Eq()], comparators=[p.value])
        if isinstance(p, ast.MatchSingleton):
            return ast.Compare(left=sub(), ops=[ast.Is()], comparators=[ast.Constant(value=p.value)])
        if isinstance(p, ast.MatchOr):
            parts = [self.pattern(subject, q) for q in p.patterns]
            if any(x is None or x is True for x in parts):
                return None
            return ast.BoolOp(op=ast.Or(), values=parts)
        return None

    # ---- comprehension -> loop

    def comprehension(self, s, tgt, val, fn):
        kind = None
        if isinstance(val, ast.ListComp):
            kind, comp = "list", val
        elif isinstance(val, ast.Call) and isinstance(val.func, ast.Name) and val.func.id == "sum" \
                and len(val.args) == 1 and not val.keywords and isinstance(val.args[0], (ast.GeneratorExp, ast.ListComp)):
            kind, comp = "sum", val.args[0]
        if kind is None or len(comp.generators) != 1 or comp.generators[0].is_async:
            return None
        g = comp.generators[0]
        if tgt.id in names_in(comp):
            return None
        # the comprehension's own variables become function locals: rename them apart when the name is used elsewhere
        own = [n for n in stores_in([ast.Expr(value=g.target)])]
        others = set()
        for st in fn.body:
            for n in ast.walk(st):
                if isinstance(n, ast.Name) and not any(n is m for m in ast.walk(comp)):
                    others.add(n.id)
        others |= {a.arg for a in fn.args.args + fn.args.kwonlyargs}
        ren = {n: self.new(n) for n in own if n in others}
        elt, target, ifs = comp.elt, g.target, g.ifs
        if ren:
            r = Rename(ren)
            elt, target, ifs = r.visit(copy.deepcopy(elt)), r.visit(copy.deepcopy(target)), \
                [r.visit(copy.deepcopy(c)) for c in ifs]
        acc = lambda ctx: ast.Name(id=tgt.id, ctx=ctx)  # noqa: E731
        if kind == "list":
            init = ast.Assign(targets=[acc(ast.Store())], value=ast.List(elts=[], ctx=ast.Load()))
            step = ast.Expr(value=ast.Call(func=ast.Attribute(value=acc(ast.Load()), attr="append", ctx=ast.Load()),
                                           args=[elt], keywords=[]))
        else:
            init = ast.Assign(targets=[acc(ast.Store())], value=ast.Constant(value=0))
            step = ast.AugAssign(target=acc(ast.Store()), op=ast.Add(), value=elt)
        body = [step]
        for c in reversed(ifs):
            body = [ast.If(test=c, body=body, orelse=[])]
        loop = ast.For(target=target, iter=g.iter, body=body, orelse=[], type_comment=None)
        for n in (init, loop):
            ast.copy_location(n, s)
            ast.fix_missing_locations(n)
        return [init, loop]

    # ---- inlining of helper calls

    def resolve(self, call, fn, cls):
        """-> (helper FunctionDef (normalised), owner Normaliser, is_method) or None"""
        f = call.func
        local = set(stores_in(fn.body)) | {a.arg for a in fn.args.args + fn.args.kwonlyargs}
        if isinstance(f, ast.Name) and f.id not in local and f.id not in self.keep:
            if f.id in self.funcs:
                h = self.funcs[f.id]
                if h is fn or h.decorator_list:
                    return None
                self.function(h, None)
                return (h, self, False) if id(h) in self.done else None
            if f.id in self.imports and self.repo is not None:
                mod, orig = self.imports[f.id]
                other = self.foreign_module(mod)
                if other is not None and orig in other.funcs and orig not in self.keep:
                    h = other.funcs[orig]
                    if h.decorator_list:
                        return None
                    # a helper of another module sees that module's globals: only helpers that use none of them
                    other.function(h, None)
                    params = {a.arg for a in h.args.args + h.args.kwonlyargs}
                    free = names_in(h) - set(stores_in(h.body)) - params
                    builtins = {"len", "isinstance", "list", "tuple", "str", "int", "float", "sum", "range", "slice",
                                "all", "any", "min", "max", "abs", "ValueError", "TypeError", "KeyError",
                                "NotImplementedError", "enumerate", "zip", "bool"}
                    if free - builtins or id(h) not in other.done:
                        return None
                    return h, other, False
            return None
        if isinstance(f, ast.Attribute) and isinstance(f.value, ast.Name) and cls is not None and fn.args.args \
                and f.value.id == fn.args.args[0].arg and f.value.id not in set(stores_in(fn.body)) \
                and f.attr not in self.keep:
            ms = [m for m in cls.body if isinstance(m, ast.FunctionDef) and m.name == f.attr]
            if len(ms) != 1 or ms[0] is fn or ms[0].decorator_list or not ms[0].args.args:
                return None
            self.function(ms[0], cls)
            return (ms[0], self, True) if id(ms[0]) in self.done else None
        return None

    def foreign_module(self, mod):
        if mod not in self.foreign:
            p = self.repo / (mod.replace(".", "/") + ".py")
            try:
                self.foreign[mod] = Normaliser(ast.parse(p.read_text()), None, self.keep)
            except Exception:  # noqa: BLE001
                self.foreign[mod] = None
        return self.foreign[mod]

    def inline_in(self, s, fn, cls):
        """statement with an inlinable call -> statements, or None"""
        cands = [c for c in eval_order(s) if isinstance(c, ast.Call)]
        for call in cands:
            r = self.resolve(call, fn, cls)
            if r is None:
                continue
            helper, owner, is_method = r
            if inside_opaque(s, call):
                continue
            before = []
            for n in eval_order(s):
                if n is call:
                    break
                before.append(n)
            inner = {id(n) for n in ast.walk(call)}
            if any(not is_trivial(n) for n in before if id(n) not in inner):
                continue
            # the whole right-hand side of `name = call` / `return call` / a bare call: no temporary needed
            tgt, val = self.simple_assign(s)
            whole = None
            if val is call and isinstance(tgt, ast.Name) and tgt.id not in names_in(call):
                whole = tgt.id
            res = whole or self.new("_ret")
            body = self.instantiate(helper, call, is_method, fn, res,
                                    want_value=not (isinstance(s, ast.Expr) and s.value is call))
            if body is None:
                continue
            if whole:
                return body
            if isinstance(s, ast.Expr) and s.value is call:
                return body
            Replace(call, ast.Name(id=res, ctx=ast.Load())).visit(s)
            return body + [s]
        return None

    def instantiate(self, helper, call, is_method, fn, res, want_value):
        a = helper.args
        if a.vararg or a.kwarg:
            return None
        for n in ast.walk(helper):
            if n is helper:
                continue
            if isinstance(n, (ast.FunctionDef, ast.AsyncFunctionDef, ast.ClassDef, ast.Lambda, ast.Yield, ast.YieldFrom,
                              ast.Await, ast.Global, ast.Nonlocal)):
                return None
        if any(isinstance(x, ast.Starred) for x in call.args) or any(k.arg is None for k in call.keywords):
            return None
        params = [x.arg for x in a.posonlyargs + a.args]
        defaults = dict(zip(params[len(params) - len(a.defaults):], a.defaults))
        for x, d in zip(a.kwonlyargs, a.kw_defaults):
            if d is not None:
                defaults[x.arg] = d
        kwonly = [x.arg for x in a.kwonlyargs]
        bound = {}
        order = []
        pos = params[1:] if is_method else params
        if is_method:
            bound[params[0]] = call.func.value
        if len(call.args) > len(pos):
            return None
        for p, e in zip(pos, call.args):
            bound[p] = e
            order.append(p)
        for k in call.keywords:
            if k.arg in bound or k.arg not in pos + kwonly:
                return None
            bound[k.arg] = k.value
            order.append(k.arg)
        for p in pos + kwonly:
            if p not in bound:
                if p not in defaults or not Normaliser.literal(defaults[p]):
                    return None
                bound[p] = defaults[p]
        body = copy.deepcopy([s for s in helper.body])
        if body and isinstance(body[0], ast.Expr) and isinstance(body[0].value, ast.Constant) \
                and isinstance(body[0].value.value, str):
            body = body[1:]
        body = [s for s in body if not (isinstance(s, ast.AnnAssign) and s.value is None)]
        assigned = set(stores_in(body))
        # the helper's locals (and the parameters it assigns) are renamed apart from the caller's names
        ren = {n: self.new(n) for n in assigned | {p for p in bound if p in assigned}}
        prologue, subst = [], {}
        for p in order + [p for p in bound if p not in order]:
            e = bound[p]
            if p in subst or any(p == q for q, _ in prologue):
                continue
            if p not in assigned and (is_trivial(e) or Normaliser.literal(e)):
                subst[p] = e
            else:
                t = ren.get(p) or self.new(p)
                ren[p] = t
                prologue.append((p, ast.Assign(targets=[ast.Name(id=t, ctx=ast.Store())], value=copy.deepcopy(e))))
        body = [Rename(ren).visit(s) for s in body]
        body = [Subst(subst).visit(s) for s in body]
        body = self.returns_to(body, res, want_value)
        if body is None:
            return None
        out = [p for _, p in prologue] + body
        for n in out:
            ast.copy_location(n, call)
            ast.fix_missing_locations(n)
        return out

    def returns_to(self, body, res, want_value):
        """every `return e` must be in tail position; it becomes `res = e`"""
        def tail(block):
            if not block:
                return None if want_value else block
            *head, last = block
            for h in head:
                if any(isinstance(n, ast.Return) for n in ast.walk(h)):
                    return None
            if isinstance(last, ast.Return):
                if last.value is None:
                    if want_value:
                        return None
                    return head or [ast.Pass()]
                if want_value:
                    return head + [ast.Assign(targets=[ast.Name(id=res, ctx=ast.Store())], value=last.value)]
                return head + [ast.Expr(value=last.value)]
            if isinstance(last, ast.If):
                b, o = tail(last.body), tail(last.orelse)
                if b is None or o is None:
                    return None
                last.body, last.orelse = b, o
                return head + [last]
            if isinstance(last, ast.Raise):
                return block
            if any(isinstance(n, ast.Return) for n in ast.walk(last)):
                return None
            return None if want_value else block
        return tail(self.nest_all(body))

    # ---- aliases

    def aliases(self, fn):
        params = {a.arg for a in fn.args.posonlyargs + fn.args.args + fn.args.kwonlyargs}
        if fn.args.vararg:
            params.add(fn.args.vararg.arg)
        if fn.args.kwarg:
            params.add(fn.args.kwarg.arg)
        for _ in range(40):
            counts = {}
            for n in stores_in(fn.body):
                counts[n] = counts.get(n, 0) + 1
            if not self.one_alias(fn.body, fn, counts, params):
                return

    def one_alias(self, block, fn, counts, params):
        for i, s in enumerate(block):
            tgt, val = self.simple_assign(s)
            if isinstance(tgt, ast.Name) and counts.get(tgt.id) == 1 and tgt.id not in params and is_pure(val) \
                    and not (isinstance(val, ast.Constant) and isinstance(val.value, (int, float))
                             and not isinstance(val.value, bool)) \
                    and self.alias_ok(tgt.id, val, block[i + 1:], fn, s):
                m = Subst({tgt.id: val})
                for k in range(i + 1, len(block)):
                    block[k] = m.visit(block[k])
                del block[i]
                if not block:
                    block.append(ast.copy_location(ast.Pass(), s))
                return True
            for _, b in sub_blocks(s):
                if self.one_alias(b, fn, counts, params):
                    return True
        return False

    @staticmethod
    def alias_ok(name, val, region, fn, stmt):
        # every load of the name lies in the region, and not where evaluation is deferred
        total = sum(1 for n in ast.walk(fn) if isinstance(n, ast.Name) and n.id == name and isinstance(n.ctx, ast.Load))
        inside = 0
        for s in region:
            for n in ast.walk(s):
                if isinstance(n, ast.Name) and n.id == name and isinstance(n.ctx, ast.Load):
                    inside += 1
                if isinstance(n, (ast.Lambda, ast.FunctionDef, ast.AsyncFunctionDef, ast.ClassDef)) \
                        and name in names_in(n):
                    return False
        if inside != total or name in names_in(val):
            return False
        free = names_in(val)
        if free & set(stores_in(region)):
            return False
        chain_attrs = attrs_in(val)
        chains = {ast.unparse(n) for n in ast.walk(val) if isinstance(n, (ast.Attribute, ast.Name))}
        for s in region:
            for n in ast.walk(s):
                if isinstance(n, ast.Attribute) and isinstance(n.ctx, (ast.Store, ast.Del)) and n.attr in chain_attrs:
                    return False
                if isinstance(n, ast.Subscript) and isinstance(n.ctx, (ast.Store, ast.Del)) \
                        and ast.unparse(n.value) in chains | {name}:
                    return False
                if isinstance(n, ast.Call):
                    if isinstance(n.func, ast.Name) and n.func.id in ("setattr", "delattr"):
                        return False
                    if isinstance(n.func, ast.Attribute) and n.func.attr in MUTATORS \
                            and ast.unparse(n.func.value) in chains | {name}:
                        return False
                if isinstance(n, ast.AugAssign) and ast.unparse(n.target) in chains | {name}:
                    return False
        return True

    # ---- module-level constants

    def constants(self, fn):
        if not self.consts:
            return
        local = set(stores_in(fn.body)) | {a.arg for a in fn.args.posonlyargs + fn.args.args + fn.args.kwonlyargs}
        m = {k: v for k, v in self.consts.items() if k not in local}
        if m:
            sub = Subst(m)
            fn.body = [sub.visit(s) for s in fn.body]


def is_trivial_target(s):
    if isinstance(s, ast.Assign):
        return isinstance(s.targets[0], ast.Name)
    if isinstance(s, (ast.AnnAssign, ast.AugAssign)):
        return isinstance(s.target, ast.Name)
    return False


class Replace(ast.NodeTransformer):
    def __init__(self, old, new):
        self.old, self.new = old, new

    def visit(self, node):
        if node is self.old:
            return ast.copy_location(self.new, node)
        return self.generic_visit(node)


class SliceCalls(ast.NodeTransformer):
    """x[slice(a, b)] -> x[a:b]  (also as an element of a tuple index)"""

    @staticmethod
    def conv(e):
        if isinstance(e, ast.Call) and isinstance(e.func, ast.Name) and e.func.id == "slice" and not e.keywords \
                and 1 <= len(e.args) <= 3:
            a = list(e.args)
            if len(a) == 1:
                lo, hi, st = None, a[0], None
            else:
                lo, hi, st = (a + [None])[:3]
            none = lambda x: None if isinstance(x, ast.Constant) and x.value is None else x  # noqa: E731
            return ast.copy_location(ast.Slice(lower=none(lo), upper=none(hi), step=none(st) if st is not None else None), e)
        return e

    def visit_Subscript(self, n):
        self.generic_visit(n)
        if isinstance(n.slice, ast.Tuple):
            n.slice.elts = [self.conv(e) for e in n.slice.elts]
        else:
            n.slice = self.conv(n.slice)
        return n


def normalise(module: ast.Module, repo: Path | None = None, keep=()) -> ast.Module:
    """-> a normalised deep copy of the module"""
    tree = copy.deepcopy(module)
    Normaliser(tree, repo, keep).run()
    ast.fix_missing_locations(tree)
    return tree


# ------------------------------------------------------------------------------------------------ self-test

SELFTEST_SRC = '''
LIMIT = 3
PAIR = (1, 2)
COUNTER = 0

def bump():
    global COUNTER
    COUNTER += 1
    return COUNTER

def width(v, base=1):
    if isinstance(v, list):
        return len(v)
    return base

def pair(a, b):
    return a * 10, b * 10

def noisy(log, x):
    log.append(x)
    return x

def first_or(xs, d):
    for x in xs:
        return x
    return d

class Box:
    def __init__(self, items):
        self.items = items
        self.other = [0]
        self.log = []

    def _w(self, v):
        if not isinstance(v, list):
            return 1
        return len(v)

    def _store(self, key, value):
        self.log.append((key, value))

    def _scaled(self, v, k):
        r = []
        for x in v:
            r.append(x * k)
        return r

    def total(self):
        n = sum(self._w(v) for v in self.items)
        return n

    def widths(self):
        ws = [width(v) for v in self.items if v != "skip"]
        return ws

    def walk(self):
        out, a = [], 0
        for v in self.items:
            vals = v
            if vals == "_":
                out.append(("s", a))
                a += 1
                continue
            if not isinstance(vals, list):
                raise ValueError("bad")
            n = len(vals)
            match n:
                case 0:
                    out.append(("empty", a))
                case 1 | 2:
                    out.append(("small", a, n))
                case _:
                    out.append(("big", a, n))
            a += n
        return out, a

    def stop_early(self):
        seen = []
        for v in self.items:
            if v == "stop":
                break
            if v == "skip":
                continue
            seen.append(v)
        return seen

    def alias_ok(self):
        it = self.items
        n = len(it)
        return [n, len(it), it is self.items]

    def alias_reassigned(self):
        cur = self.items
        self.items = ["changed"]
        return cur

    def alias_mutated(self):
        n = len(self.items)
        self.items.append("x")
        return n, len(self.items)

    def alias_rebound_free(self, k):
        a = k
        start = a
        a = a + 5
        return start, a

    def use_store(self):
        for i, v in enumerate(self.items):
            self._store(i, noisy(self.log, v))
        return self.log

    def order(self):
        log = []
        r = noisy(log, 1) + width(noisy(log, [2, 3]), base=noisy(log, 7))
        return r, log

    def tuples(self, a, b):
        x, y = pair(a, b)
        y, x = pair(x, y)
        return x, y

    def cond(self, k):
        w = 10 if k > LIMIT else PAIR[0]
        w += 1 if k % 2 else 2
        return w if k else -1

    def slices(self, xs, a, b):
        part = slice(a, a + b)
        return xs[part], xs[slice(b)]

    def scaled(self, k):
        return [self._scaled(v, k) for v in self.items if isinstance(v, list)]

    def shadow(self):
        LIMIT = 99
        return LIMIT + width([1], 5)

    def glob(self):
        return COUNTER + bump() + COUNTER

    def loopret(self):
        return first_or(self.items, "none")
'''

SELFTEST_CALLS = [("total", ()), ("widths", ()), ("walk", ()), ("stop_early", ()), ("alias_ok", ()), ("alias_reassigned", ()),
                  ("alias_mutated", ()), ("alias_rebound_free", (3,)), ("use_store", ()), ("order", ()), ("tuples", (1, 2)),
                  ("cond", (0,)), ("cond", (3,)), ("cond", (4,)), ("cond", (7,)), ("slices", ([1, 2, 3, 4, 5], 1, 2)),
                  ("scaled", (3,)), ("shadow", ()), ("glob", ()), ("loopret", ())]
SELFTEST_ITEMS = [[], ["_"], ["_", ["_", "_"], "_"], [["_"] * 3, "_", []], ["_", 5], ["skip", "_", "stop", "_"], [[1, 2], "skip", [3]]]


def selftest() -> int:
    """The normalised module computes what the module as written computes (results, exceptions, effects on the
    objects) on a fixed set of functions that exercise every rule, blocked cases included -> number of comparisons."""
    src = ast.parse(SELFTEST_SRC)
    norm = normalise(src, None, ())
    changed = ast.dump(src) != ast.dump(norm)
    if not changed:
        raise AssertionError("normaliser self-test: nothing was rewritten")
    for n in ast.walk(norm):
        if isinstance(n, (ast.Match, ast.IfExp)):
            raise AssertionError("normaliser self-test: a match / conditional expression survived")
    envs = []
    for tree in (src, norm):
        g = {}
        exec(compile(tree, "<c10_norm selftest>", "exec"), g)  # noqa: S102
        envs.append(g)
    count = 0
    for items in SELFTEST_ITEMS:
        for name, args in SELFTEST_CALLS:
            res = []
            for g in envs:
                g["COUNTER"] = 0
                box = g["Box"](copy.deepcopy(items))
                try:
                    r = ("ok", getattr(box, name)(*copy.deepcopy(args)))
                except Exception as ex:  # noqa: BLE001
                    r = ("raised", type(ex).__name__)
                res.append(repr((r, box.items, box.log, g["COUNTER"])))
            if res[0] != res[1]:
                raise AssertionError(f"normaliser self-test: {name}{args} on {items}: {res[0]} != {res[1]}")
            count += 1
    return count
