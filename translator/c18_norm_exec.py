"""Soundness test of translator/c18_norm.py by EXECUTION: the functions the C18 translator reads are replaced, in the
imported package, by their normal forms (compiled from the normalised AST in the defining module's namespace); then the
repository's own tests of those functions are run."""
import ast, importlib, sys
from pathlib import Path
sys.path.insert(0, str(Path(__file__).resolve().parent.parent))
from translator.c18_norm import Normalizer
import pyxel
repo = Path(pyxel.__file__).parent.parent
N = Normalizer(repo)
T = [("pyxel/detectors/ccd/ccd.py", "CCD"), ("pyxel/detectors/cmos/cmos.py", "CMOS"), ("pyxel/detectors/mkid/mkid.py", "MKID"),
     ("pyxel/detectors/apd/apd.py", "APD")]
targets = [(rel, cls, f) for rel, cls in T for f in ("to_dict", "from_dict")]
targets += [("pyxel/detectors/detector.py", "Detector", f) for f in ("from_dict", "load", "save", "to_asdf", "from_asdf")]
targets += [("pyxel/data_structure/photon.py", "Photon", f) for f in ("to_dict", "from_dict")]
targets += [("pyxel/data_structure/scene.py", "Scene", f) for f in ("to_dict", "from_dict")]
targets += [("pyxel/backends/asdf.py", None, f) for f in ("to_asdf", "from_asdf")]
targets += [("pyxel/models/util.py", None, f) for f in ("load_detector", "save_detector")]
count = 0
for rel, cls, name in targets:
    fn = N.func(rel, name, cls)
    assert fn is not None, (rel, cls, name)
    mod = importlib.import_module(rel[:-3].replace("/", "."))
    ns = {}
    code = compile(ast.fix_missing_locations(ast.Module(body=[fn], type_ignores=[])), f"<normal form of {rel}:{name}>", "exec")
    exec(code, mod.__dict__, ns)
    obj = ns[name]
    if cls:
        setattr(getattr(mod, cls), name, obj)
    else:
        setattr(mod, name, obj)
        # re-exported names (pyxel.backends.to_asdf, pyxel.models.load_detector ...)
        for m in list(sys.modules.values()):
            if m is not None and getattr(m, "__name__", "").startswith("pyxel") and getattr(m, name, None) is not None \
                    and getattr(getattr(m, name), "__module__", None) == mod.__name__ and m is not mod:
                setattr(m, name, obj)
    count += 1
print("replaced", count, "functions by their normal forms", flush=True)
import pytest
sys.exit(pytest.main(["-q", "-p", "no:cacheprovider", "-x" if False else "-q", *sys.argv[1:]]))
